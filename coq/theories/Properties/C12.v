(* C12 - Type-length fields and primitive values are decoded exactly or rejected.
   Reading of "does not fit 32 bits": the concatenated 4-bit groups V must be < 2^32 (the
   code's 32-bit accumulator); a returned length is never wrapped or truncated.
   (tlf)   For every byte string (bytes < 256, shorter than 2^32): TypeLengthField::parse
           returns Ok((rest, ty, len)) exactly when the independent reading [tlf_ref]
           (Spec/TlfRef.v, unbounded integers, any number of TLF bytes) yields (ty, len, rest);
           in every other case it returns an error - never a panic.
   (int)   A k-byte integer, 1 <= k <= 8, is returned with exactly its big-endian two's
           complement (signed) / plain (unsigned) value, in the variant 8/16/32/64 given by
           k = 1 / 2 / 3-4 / 5-8, for Value and Status; lengths 0 and > 8 are rejected.
   (bool)  non-zero test.  (octet) exactly the designated bytes.
   This file contains the statements only. *)
Require Export Sml.Base.Prelude Sml.Model.Parser Sml.Spec.TlfRef.
Require Export Sml.Proofs.TlfExact.

Theorem C12_tlf : forall input : list byte,
  bytes_ok input -> lenN input < 4294967296 ->
  match tlf_parse input with
  | POk rest t => tlf_ref input = Some (tty t, tlen t, rest)
  | PErr _ => tlf_ref input = None
  | PPanic => False
  end.
Proof. exact tlf_parse_exact. Qed.
Print Assumptions C12_tlf.

Theorem C12_int : forall data rest : list byte,
  1 <= lenN data <= 8 -> bytes_ok data ->
  value_with_tlf (data ++ rest) (mktlf TInt (lenN data)) = POk rest (int_variant (lenN data) (twos data)) /\
  value_with_tlf (data ++ rest) (mktlf TUns (lenN data)) = POk rest (uns_variant (lenN data) (be data)) /\
  status_with_tlf (data ++ rest) (mktlf TUns (lenN data)) = POk rest (status_variant (lenN data) (be data)).
Proof.
  intros data rest Hl Hok. split; [apply value_int_exact; assumption|].
  split; [apply value_uns_exact; assumption|apply status_exact; assumption].
Qed.
Print Assumptions C12_int.

Theorem C12_int_rejects : forall (k : N) (input : list byte) (ity : ty),
  (k = 0 \/ 8 < k) -> (ity = TInt \/ ity = TUns) ->
  value_with_tlf input (mktlf ity k) = PErr TlfMismatch.
Proof. intros k input ity Hk Hi. apply value_int_rejects; assumption. Qed.
Print Assumptions C12_int_rejects.

Theorem C12_bool_octet : forall (b : byte) (data rest : list byte),
  value_with_tlf (b :: rest) (mktlf TBool 1) = POk rest (VBool (0 <? b)) /\
  value_with_tlf (data ++ rest) (mktlf TOctet (lenN data)) = POk rest (VBytes data) /\
  octet_with_tlf (data ++ rest) (mktlf TOctet (lenN data)) = POk rest data.
Proof.
  intros b data rest. split; [apply value_bool_exact|]. split; [apply value_octet_exact|apply octet_exact].
Qed.
Print Assumptions C12_bool_octet.

(* the reference reading on the cases the property names *)
Example C12_ref_examples :
  tlf_ref [0x81; 0x80; 0x80; 0x80; 0x80; 0x80; 0x80; 0x80; 0x0d; 7] = None /\      (* 2^32 + 13: does not fit *)
  tlf_ref [0x80; 0x80; 0x80; 0x80; 0x80; 0x80; 0x80; 0x80; 0x0d; 7] = Some (TOctet, 4, [7]) /\  (* leading zero groups *)
  tlf_ref [0xf1; 0x00] = Some (TList, 16, []) /\
  tlf_ref [0x01] = Some (TOctet, 0, []) /\
  tlf_ref [0x00] = None /\                                                          (* negative length *)
  tlf_ref [0x10] = None /\                                                          (* reserved type bits *)
  tlf_ref [0x83; 0x12] = None /\                                                    (* type bits in a continuation byte *)
  twos [0x80; 0; 0] = (-8388608)%Z /\ twos [0xff] = (-1)%Z /\ twos [0x7f; 0xff] = 32767%Z.
Proof. vm_compute. repeat split; reflexivity. Qed.
