(* C17 - Every input byte is accounted for exactly once.
   For every buffer capacity and every history of push_byte / finalize / reset / from_buf
   (bytes < 256) of any length, the byte-accounting monitor of Spec/Tiling.v accepts the
   history: each DiscardedBytes(n) equals exactly the number of bytes between the previous
   boundary and the start sequence that triggered it, a delivered payload m covers exactly
   |frame m| bytes, a rejected frame covers everything up to the error, and the count
   returned by finalize / reset (the one the readers attach to an I/O error or end of input)
   equals exactly the bytes not yet reported.  Counts are unbounded (no fixed-width field).
   This file contains the statement only. *)
Require Export Sml.Base.Prelude Sml.Base.Crc Sml.Spec.Frame Sml.Spec.Tiling Sml.Model.Decode.
Require Export Sml.Proofs.DecodeSound Sml.Proofs.Account.

Theorem C17_tiles : forall (cap : cap_t) (ops : list op),
  Forall op_ok ops ->
  tiles 0 0 (combine ops (snd (run_ops cap init ops))) = true.
Proof. exact tiles_from_new. Qed.
Print Assumptions C17_tiles.

(* the monitor is not trivially true: a wrong count is rejected *)
Example C17_monitor_rejects_wrong_count :
  tiles 0 0 [(Push 85, EvPush ONone []); (Finalize, EvFin (Some (DiscardedBytes 2)))] = false.
Proof. vm_compute. reflexivity. Qed.

Example C17_noise_then_frame :
  tiles 0 0 (combine (map Push ([85;27] ++ frame [18;52]) ++ [Finalize])
                     (snd (run_ops None init (map Push ([85;27] ++ frame [18;52]) ++ [Finalize])))) = true
  /\ nth 9 (snd (run_ops None init (map Push ([85;27] ++ frame [18;52])))) EvNew
     = EvPush (OErr (DiscardedBytes 2)) [].
Proof. vm_compute. split; reflexivity. Qed.
