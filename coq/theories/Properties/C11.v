(* C11 - I/O faults: would-block is transparent, errors cost only the frame in flight.
   Sources are event lists (Model/Reader.v): a byte, WouldBlock, Interrupted, another error,
   or a zero-length read, at any position; [rd_all] calls next() until it returns None.
   (transparent) For every decoder state, buffer, and event list of an io::Read source:
       dropping the would-block results from the iteration gives exactly the iteration over
       the event list with all WouldBlock / Interrupted events removed ([strip]) - the decoded
       results, their order and every count are unchanged; Interrupted never surfaces.
   (once)  If would-block / interrupted are the only faults, the number of would-block
       results equals the number of WouldBlock events, each IoErr(WouldBlock, 0).
   (untouched) A would-block leaves the decoder and the remaining source exactly as they were
       (any source kind, also embedded-hal) - reading resumes where it stopped.
   (other) Any other read error is returned as IoErr(Other, n) with n = the bytes not yet
       reported (the count reset() returns, C17), and the rest of the iteration equals that
       of a fresh reader on the remaining events.
   (eof)   At end of input next() returns None iff nothing is pending (count 0), otherwise
       IoErr(Eof, n) once; every further call returns None.
   (pause) A source that reports end of input in the middle and then delivers again (an io::Read
       returning Ok(0), an iterator that is not fused) costs the frame in flight exactly like
       any other error: IoErr(Eof, n) with the pending count, decoder reset, reading resumes
       with the next event.
   read_nb / next_nb are renamings of read / next by definition of the model (Reader.v).
   This file contains the statements only. *)
Require Export Sml.Base.Prelude Sml.Base.Crc Sml.Spec.Frame Sml.Model.Decode Sml.Model.Frontends.
Require Export Sml.Model.Parser Sml.Model.Reader.
Require Export Sml.Proofs.FrontendsAgree Sml.Proofs.ReaderFaults.

Theorem C11_wouldblock : forall (cap : cap_t) (evs : list sev) (d : dec) (lim1 lim2 : nat),
  (length evs + 1 < lim1)%nat -> (length (strip evs) + 1 < lim2)%nat ->
  drop_wb (snd (rd_all cap lim1 (mkrd d KIo evs))) = snd (rd_all cap lim2 (mkrd d KIo (strip evs))).
Proof. exact wouldblock_transparent. Qed.
Print Assumptions C11_wouldblock.

Theorem C11_wouldblock_once : forall (cap : cap_t) (evs : list sev) (d : dec) (lim : nat),
  only_transparent_faults evs -> (length evs + 1 < lim)%nat ->
  length (filter is_wb (snd (rd_all cap lim (mkrd d KIo evs)))) =
  length (filter (fun e => match e with SWouldBlock => true | _ => false end) evs).
Proof. exact wouldblock_count. Qed.
Print Assumptions C11_wouldblock_once.

Theorem C11_wouldblock_untouched : forall (cap : cap_t) (k : skind) (d : dec) (evs : list sev),
  dr_read cap (mkrd d k (SWouldBlock :: evs)) = (mkrd d k evs, RdIoErr EkWouldBlock 0).
Proof. exact dr_read_wb. Qed.
Print Assumptions C11_wouldblock_untouched.

Theorem C11_pause : forall (cap : cap_t) (d : dec) (evs : list sev),
  dr_read cap (mkrd d KIo (SZero :: evs)) = (mkrd (fst (reset d)) KIo evs, RdIoErr EkEof (reset_cnt d)).
Proof. intros cap d evs. reflexivity. Qed.
Print Assumptions C11_pause.

Theorem C11_other : forall (cap : cap_t) (k : skind) (d : dec) (evs : list sev) (lim : nat),
  snd (rd_all cap (S lim) (mkrd d k (SOther :: evs))) =
  RdIoErr EkOther (reset_cnt d) :: snd (rd_all cap lim (rd_new k evs)).
Proof. exact other_error_costs_frame_in_flight. Qed.
Print Assumptions C11_other.

Theorem C11_eof : forall (cap : cap_t) (k : skind) (d : dec) (j : nat),
  k <> KEh ->
  dr_nexts cap (S j) (mkrd d k []) =
  (if reset_cnt d =? 0 then None else Some (RdIoErr EkEof (reset_cnt d))) :: repeat None j.
Proof. exact eof_behaviour. Qed.
Print Assumptions C11_eof.

Example C11_faults_inside_a_frame :
  snd (rd_all (Some 4%nat) 40
        (rd_new KIo ([SWouldBlock; SInterrupted] ++ map SByte (firstn 13 (frame [18;52;86;120])) ++
                     [SWouldBlock; SInterrupted; SWouldBlock] ++ map SByte (skipn 13 (frame [18;52;86;120])))))
  = [RdIoErr EkWouldBlock 0; RdIoErr EkWouldBlock 0; RdIoErr EkWouldBlock 0; RdOk [18;52;86;120]].
Proof. vm_compute. reflexivity. Qed.
