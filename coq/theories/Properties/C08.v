(* C08 - Resynchronisation: a valid frame after noise or a cut-off frame is delivered.
   "Between transmissions" = any state whose [norm] equals that of a new decoder; C14 shows
   that this covers a new decoder, one that has just delivered a frame, reported
   InvalidMessage / InvalidEsc / OutOfMemory, or has been reset / finalized.
   (noise)  For every such state d, every noise g such that g ++ start sequence contains the
            start sequence only at offset |g| (g may end in 0x1b bytes or in a partial start
            sequence), every payload m and every buffer holding |m| bytes: the decoder stays
            silent during g and the first 7 bytes of the frame, reports DiscardedBytes(|g|) at
            the 8th (nothing if g is empty), stays silent until the frame's last byte and
            there delivers exactly m.
   (cutoff) The same for a transmission cut off where no 0x1b run or escape is in progress
            (x = start sequence ++ escaped prefix, counter 0): DiscardedBytes(|x|) is reported
            when the new start sequence completes, then m is delivered.
   This file contains the statements only. *)
Require Export Sml.Base.Prelude Sml.Base.Crc Sml.Spec.Frame Sml.Model.Decode.
Require Export Sml.Proofs.EncFold Sml.Proofs.RoundTrip Sml.Proofs.Boundary Sml.Proofs.Resync.

Theorem C08_noise : forall (cap : cap_t) (d : dec) (g m : list byte),
  norm d = norm init -> only_at_end g -> cap_ok cap (length m) ->
  snd (run cap d (g ++ frame m)) =
  quiet g ++ quiet (firstn 7 start_seq) ++
  [(if 0 <? lenN g then OErr (DiscardedBytes (lenN g)) else ONone, [])] ++
  skipn 8 (quiet (removelast (frame m)) ++ [(OMsg, m)]).
Proof. exact resync_noise. Qed.
Print Assumptions C08_noise.

Theorem C08_cutoff : forall (cap : cap_t) (d : dec) (q m : list byte),
  norm d = norm init -> cnt_from 0 q = 0 ->
  cap_ok cap (length q) -> cap_ok cap (length m) ->
  let x := start_seq ++ enc_from 0 q in
  snd (run cap d (x ++ frame m)) =
  quiet x ++ quiet (firstn 7 start_seq) ++ [(OErr (DiscardedBytes (lenN x)), [])] ++
  skipn 8 (quiet (removelast (frame m)) ++ [(OMsg, m)]).
Proof. exact resync_cutoff. Qed.
Print Assumptions C08_cutoff.

(* the side condition in the decidable form of the property text *)
Theorem C08_side_condition : forall g : list byte, only_at_end_b g = true -> only_at_end g.
Proof. exact only_at_end_b_sound. Qed.
Print Assumptions C08_side_condition.

(* noise ending in 0x1b bytes / in a partial start sequence satisfies the side condition,
   and the frame after it is delivered *)
Example C08_noise_examples :
  only_at_end_b [85; 27] = true /\ only_at_end_b [27;27;27;27;1;27] = true /\
  only_at_end_b [27;27;27;27;27;27;1;1;1] = true /\
  snd (run (Some 2%nat) init ([27;27;27;27;1;27] ++ frame [18;52])) =
    quiet [27;27;27;27;1;27] ++ quiet (firstn 7 start_seq) ++ [(OErr (DiscardedBytes 6), [])] ++
    skipn 8 (quiet (removelast (frame [18;52])) ++ [(OMsg, [18;52])]).
Proof. vm_compute. repeat split; reflexivity. Qed.
