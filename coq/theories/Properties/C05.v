(* C05 - Transport layer is total: no panic, abort or hang on any byte stream.
   The model functions are total Coq functions whose panic sites (checked arithmetic, array
   indexing, assert/unreachable, borrow_buf guard, fuel exhaustion of the three state
   recursions) are explicit output values.  The theorem: none of them is reachable -
   (a) for every capacity (incl. 0 and the growable buffer) and every history of
       push_byte / finalize / reset / from_buf, over arbitrary N values (not only bytes);
   (b) for any number of next() calls on the iterator encoder of any payload
       (the buffer encoder has no panic site at all: its model is a total option function);
   (c) for decode() and for any number of next() calls of decode_streaming;
   (d) for every source (slice/iterator, io::Read, embedded-hal), every fault schedule and
       every sequence of read / next / read_nb / next_nb calls for decoded bytes;
   [C05_readers]: the same for every target type (DecodedBytes, File, Parser - for Parser the
       drained event sequence contains no panic either), for sources that deliver bytes
       (< 256) and fewer than 2^32 events: the decoder hands the parsers a byte string no
       longer than the stream it came from ([WInv]), so C06 applies to it.
   Termination holds by construction (structural recursion on the input; fuelled recursions
   are shown never to exhaust their fuel).  This file contains the statement only. *)
Require Export Sml.Base.Prelude Sml.Base.Crc Sml.Spec.Frame Sml.Model.Decode Sml.Model.Encode.
Require Export Sml.Model.Frontends Sml.Model.Parser Sml.Model.Reader.
Require Export Sml.Proofs.DecodeGuard Sml.Proofs.EncodeCorrect Sml.Proofs.TransportTotal.
Require Export Sml.Proofs.ParserTotal Sml.Proofs.PayloadBound.

Theorem C05_total :
  (forall (cap : cap_t) (ops : list op),
     forallb (fun e => negb (ev_panics e)) (snd (run_ops cap init ops)) = true) /\
  (forall (p : list byte) (k : nat), ~ In EPanic (enc_after k (enc_new p))) /\
  (forall s : list byte, ~ In RPanic (decode_fn s)) /\
  (forall (cap : cap_t) (s : list byte) (k : nat), ~ In (Some RPanic) (di_extra cap k (di_new s))) /\
  (forall (cap : cap_t) (kind : skind) (evs : list sev) (calls : list (meth * target)),
     Forall (fun c => snd c = TBytes) calls ->
     forallb (fun c => negb (call_panics c)) (sr_calls cap calls (rd_new kind evs)) = true).
Proof.
  split; [intros cap ops; apply (run_ops_no_panic cap ops init GInv_init)|].
  split; [intros p k; apply enc_after_no_panic, valid_new|].
  split; [exact decode_fn_no_panic|].
  split; [intros cap s k; apply di_extra_no_panic; apply GInv_init|].
  intros cap kind evs calls H. apply sr_calls_bytes_no_panic; [apply GInv_init|exact H].
Qed.
Print Assumptions C05_total.

Theorem C05_readers : forall (cap : cap_t) (kind : skind) (evs : list sev) (calls : list (meth * target)),
  Forall (fun e => match e with SByte b => b < 256 | _ => True end) evs -> lenN evs < 4294967296 ->
  forallb (fun c => negb (match c with
                          | CItem IPanic => true
                          | CItem (IEvents l) => existsb (fun x => match x with SPanic => true | _ => false end) l
                          | _ => false
                          end)) (sr_calls cap calls (rd_new kind evs)) = true.
Proof. exact sr_calls_no_panic_new. Qed.
Print Assumptions C05_readers.

(* the panic values are real: a decoder state violating the guard invariant does panic *)
Example C05_panic_value_reachable_outside_invariant :
  snd (step None (mkdec 0 crc_init (EscPayload 7 [0;0;0;0]) 0 []) 0) = OPanic.
Proof. vm_compute. reflexivity. Qed.
