(* C07 - Encoders emit exactly the Transport v1 wire format and agree with each other.
   For every payload p (any N list, in particular every byte string):
   - the iterator encoder, collected until its first None, yields [frame p] (Spec/Frame.v);
   - the buffer encoder yields [frame p] in a growable buffer, and in a fixed buffer of
     capacity N yields [frame p] if the frame fits and OutOfMemory ([None]) otherwise;
   - after the last byte the iterator returns None on every further call;
   - [C07_size]: a frame is a multiple of four bytes long, at least |p| + 16 and at most
     2|p| + 19 bytes - so a fixed buffer of 2|p| + 19 bytes always suffices for the buffer encoder.
   - [C07_bytes]: the frame of a byte string is a byte string (every element < 256, including the pad
     count and both CRC octets) - the specification over unbounded N needs no truncation to u8.
   This file contains the statements only. *)
Require Export Sml.Base.Prelude Sml.Base.Crc Sml.Spec.Frame Sml.Model.Decode Sml.Model.Encode.
Require Export Sml.Proofs.EncodeCorrect Sml.Proofs.FrameSize Sml.Proofs.FrameBytes.

Theorem C07_format : forall p : list byte,
  enc_collect p = frame p /\
  encode_buf None p = Some (frame p) /\
  (forall n : nat, encode_buf (Some n) p = if Nat.leb (length (frame p)) n then Some (frame p) else None) /\
  (forall k : nat,
     snd (enc_collect_from (enc_limit p) (enc_new p) []) = ENone /\
     enc_after k (fst (fst (enc_collect_from (enc_limit p) (enc_new p) []))) = repeat ENone k).
Proof.
  intros p. split; [apply enc_collect_correct|]. split; [apply (encode_buf_correct None)|].
  split; [intros n; apply (encode_buf_correct (Some n))|].
  intros k. destruct (enc_ends_for_good p k) as (e' & <- & H1 & H2). split; assumption.
Qed.
Print Assumptions C07_format.

Theorem C07_size : forall p : list byte,
  length (frame p) = (length (esc p) + pad_of (length (esc p)) + 16)%nat /\
  (Nat.modulo (length (frame p)) 4 = 0)%nat /\
  (length p + 16 <= length (frame p) <= 2 * length p + 19)%nat.
Proof. exact frame_length. Qed.
Print Assumptions C07_size.

Corollary C07_buffer_suffices : forall (p : list byte) (n : nat),
  (2 * length p + 19 <= n)%nat -> encode_buf (Some n) p = Some (frame p).
Proof.
  intros p n H. destruct (C07_format p) as (_ & _ & E & _). rewrite E.
  destruct (frame_length p) as (_ & _ & B). destruct (Nat.leb_spec (length (frame p)) n); [reflexivity|lia].
Qed.
Print Assumptions C07_buffer_suffices.

Theorem C07_bytes : forall p : list byte, bytes_ok p -> bytes_ok (frame p).
Proof. exact frame_bytes_ok. Qed.
Print Assumptions C07_bytes.

(* the specification is the wire format the standard describes (concrete vectors) *)
Example C07_vector_basic :
  frame [0x12;0x34;0x56;0x78] =
  [0x1b;0x1b;0x1b;0x1b;1;1;1;1;0x12;0x34;0x56;0x78;0x1b;0x1b;0x1b;0x1b;0x1a;0;0xb8;0x7b].
Proof. vm_compute. reflexivity. Qed.

Example C07_vector_escape_and_padding :
  frame [0x1b;0x1b;0x1b;0x1b;0x55] =
  [0x1b;0x1b;0x1b;0x1b;1;1;1;1; 0x1b;0x1b;0x1b;0x1b;0x1b;0x1b;0x1b;0x1b;0x55;0;0;0;
   0x1b;0x1b;0x1b;0x1b;0x1a;3] ++
  [N.land (crc16 ([0x1b;0x1b;0x1b;0x1b;1;1;1;1; 0x1b;0x1b;0x1b;0x1b;0x1b;0x1b;0x1b;0x1b;0x55;0;0;0;
                   0x1b;0x1b;0x1b;0x1b;0x1a;3])) 255;
   N.shiftr (crc16 ([0x1b;0x1b;0x1b;0x1b;1;1;1;1; 0x1b;0x1b;0x1b;0x1b;0x1b;0x1b;0x1b;0x1b;0x55;0;0;0;
                     0x1b;0x1b;0x1b;0x1b;0x1a;3])) 8].
Proof. vm_compute. reflexivity. Qed.
