(* C15 - All decoding front-ends report the same results for the same bytes.
   For every stream s (any N list): decode(), decode_streaming (any buffer) and a reader over
   a slice / iterator / io::Read (any buffer) report exactly the results of the push decoder
   fed with s - [results (run cap init s)] - followed by the leftover report of finalize;
   the readers represent that leftover as IoErr(Eof, n) with the same count n ([eof_of]).
   decode_streaming returns None forever afterwards.
   (Buffer independence for capacities >= |s| is C16/C01 territory and is exercised by the
   correspondence check; it is not part of this theorem.)
   This file contains the statement only. *)
Require Export Sml.Base.Prelude Sml.Base.Crc Sml.Spec.Frame Sml.Model.Decode Sml.Model.Frontends.
Require Export Sml.Model.Parser Sml.Model.Reader.
Require Export Sml.Proofs.FrontendsAgree Sml.Proofs.EndToEnd.

Theorem C15_frontends : forall s : list byte,
  decode_fn s = results (snd (run None init s)) ++ fin (fst (run None init s)) /\
  (forall cap,
     snd (di_all cap (length s + 2) (di_new s)) = results (snd (run cap init s)) ++ fin (fst (run cap init s)) /\
     (forall k, di_extra cap k (fst (di_all cap (length s + 2) (di_new s))) = repeat None k)) /\
  (forall cap kind, kind <> KEh ->
     snd (rd_all cap (length s + 2) (rd_new kind (map SByte s))) =
     map to_rd (results (snd (run cap init s))) ++ map eof_of (fin (fst (run cap init s)))).
Proof. exact frontends_agree. Qed.
Print Assumptions C15_frontends.

Example C15_leftover_inside_start_sequence :
  decode_fn [27;27;27] = [RErr (DiscardedBytes 3)] /\
  snd (rd_all None 5 (rd_new KIo (map SByte [27;27;27]))) = [RdIoErr EkEof 3].
Proof. vm_compute. split; reflexivity. Qed.
