(* C09 - Allocating and streaming parser agree on every input.
   For every byte string bs (bytes < 256, shorter than 2^32) and every number k of next()
   calls on streaming::Parser::new(bs):
   - if complete::parse(bs) = Ok(file), the k results are the first k elements of
     [events of message 1, events of message 2, ..., None, None, ...], where the events of a
     message are its MessageStart, and for a get-list response one ListEntry event per list
     entry, in order, and one GetListResponseEnd ([flatten_msg]); reassembling them gives
     back the file, and the announced num_vals equals the number of entries;
   - if complete::parse(bs) = Err(e), the results are some events, then exactly Err(e) - the
     same error (the model's ParseError carries no type-name string) - then None forever;
   - neither parser panics.
   This file contains the statements only. *)
Require Export Sml.Base.Prelude Sml.Model.Parser.
Require Export Sml.Proofs.ParserTotal Sml.Proofs.ParsersAgree.

Theorem C09_agree : forall (bs : list byte) (k : nat),
  ok_in bs ->
  match parse bs with
  | FileOk f =>
      sp_calls k (sp_new bs) = firstn k (map SEvent (flat_map flatten_msg f) ++ repeat SNone k)
  | FileErr e =>
      exists evs, sp_calls k (sp_new bs) = firstn k (map SEvent evs ++ [SErr e] ++ repeat SNone k)
  | FilePanic => False
  end.
Proof. exact parsers_agree. Qed.
Print Assumptions C09_agree.

Theorem C09_lists : forall m : message,
  match message_body m with
  | BGetList g =>
      exists ms sig gw,
        flatten_msg m = EMessageStart ms :: map EListEntry (val_list g) ++ [EGetListEnd sig gw] /\
        (match ms_body ms with SGetList gs => num_vals gs = lenN (val_list g) | _ => False end)
  | _ => exists ms, flatten_msg m = [EMessageStart ms]
  end.
Proof. exact list_events_count. Qed.
Print Assumptions C09_lists.

(* the example file of the crate documentation: a close response *)
Example C09_doc_example :
  parse [0x76;0x05;0xdd;0x43;0x44;0x00;0x62;0x00;0x62;0x00;0x72;0x63;0x02;0x01;0x71;0x01;0x63;0xfd;0x56;0x00]
  = FileOk [mkmsg [0xdd;0x43;0x44;0x00] 0 0 (BClose None)] /\
  sp_calls 3 (sp_new [0x76;0x05;0xdd;0x43;0x44;0x00;0x62;0x00;0x62;0x00;0x72;0x63;0x02;0x01;0x71;0x01;0x63;0xfd;0x56;0x00])
  = [SEvent (EMessageStart (mkms [0xdd;0x43;0x44;0x00] 0 0 (SClose None))); SNone; SNone].
Proof. vm_compute. split; reflexivity. Qed.
