(* C16 - Buffer need equals payload length; overflow is an error, never truncation.
   (exact) For every payload m, a fixed buffer of capacity exactly |m| decodes frame m:
           Ok(None) for every byte but the last, Ok(Some m) at the last byte.
   (oom)   For every capacity n < |m|, feeding frame m yields Ok(None) for some prefix and
           then OutOfMemory - no payload (shortened or otherwise) before it - and the decoder
           state right after the error is that of a new decoder up to [norm] (C14), i.e. it
           is immediately ready for the next frame.
   (until) A fixed-capacity decoder behaves exactly like the growable one on every stream
           until the byte at which a write would exceed the capacity ([run_cap]).
   This file contains the statements only. *)
Require Export Sml.Base.Prelude Sml.Base.Crc Sml.Spec.Frame Sml.Model.Decode.
Require Export Sml.Proofs.RoundTrip Sml.Proofs.Boundary Sml.Proofs.Capacity.

Theorem C16_exact : forall m : list byte,
  exists d', run (Some (length m)) init (frame m) =
               (d', map (fun _ => (ONone, [])) (removelast (frame m)) ++ [(OMsg, m)]) /\
             st d' = Done /\ rev (rbuf d') = m.
Proof. intros m. apply frame_roundtrip. cbn. lia. Qed.
Print Assumptions C16_exact.

Theorem C16_oom : forall (n : nat) (m : list byte),
  (n < length m)%nat ->
  exists s1 b s2 d1,
    frame m = s1 ++ b :: s2 /\
    run (Some n) init s1 = (d1, map (fun _ => (ONone, [])) s1) /\
    snd (step (Some n) d1 b) = OErr OutOfMemory /\
    norm (fst (step (Some n) d1 b)) = norm init.
Proof. exact oom_when_too_small. Qed.
Print Assumptions C16_oom.

Theorem C16_until_full : forall (n : nat) (s : list byte) (d : dec),
  (length (rbuf d) <= n)%nat ->
  (run (Some n) d s = run None d s /\ (length (rbuf (fst (run None d s))) <= n)%nat) \/
  (exists s1 b s2 dd,
      s = s1 ++ b :: s2 /\ run (Some n) d s1 = run None d s1 /\
      step (Some n) (fst (run None d s1)) b = oom dd /\
      (snd (step None (fst (run None d s1)) b) = ONone \/ snd (step None (fst (run None d s1)) b) = OMsg)).
Proof. exact run_cap. Qed.
Print Assumptions C16_until_full.

Example C16_zero_run_at_exact_capacity :
  snd (run (Some 6%nat) init (frame [18;0;0;0;0;0])) =
  map (fun _ => (ONone, [])) (removelast (frame [18;0;0;0;0;0])) ++ [(OMsg, [18;0;0;0;0;0])].
Proof. vm_compute. reflexivity. Qed.
