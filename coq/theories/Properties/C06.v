(* C06 - Parsers are total and use input-proportional resources on any bytes.
   For every byte string bs (bytes < 256, shorter than 2^32 - the width of the parser's own
   u32 counters): the allocating parser returns a file or an error, never a panic (index out
   of range, arithmetic overflow, fuel); no call of the streaming parser panics, and its
   iteration ends (C13).  The only length-driven allocation of the allocating parser, the
   Vec::with_capacity in List::parse_with_tlf, reserves at most as many entries as there are
   remaining input bytes - never the declared length ([list_reservation]).
   Not a theorem (see DESIGN.md section 6): the real allocator's behaviour and the amortised
   growth of Vec<Message> / Vec<ListEntry> are measured by the correspondence check
   (counting allocator) and the streaming parser's freedom from allocation is established by
   building the crate without the alloc feature.
   This file contains the statements only. *)
Require Export Sml.Base.Prelude Sml.Model.Parser.
Require Export Sml.Proofs.ParserTotal.

Theorem C06_total : forall bs : list byte,
  ok_in bs ->
  parse bs <> FilePanic /\
  forall k : nat, well_ended (sp_calls k (sp_new bs)) = true.
Proof.
  intros bs H. split; [apply parse_total; exact H|].
  intros k. apply (sp_calls_shape k (sp_new bs)). apply PInv_new. exact H.
Qed.
Print Assumptions C06_total.

Theorem C06_reservation : forall (t : tlf) (input : list byte),
  list_reservation t input <= lenN input.
Proof. intros t input. unfold list_reservation. lia. Qed.
Print Assumptions C06_reservation.

(* the repaired defects D5/D6: a list TLF declaring 2^32-1 entries is an ordinary error *)
Example C06_declared_length_max :
  parse [0x76;0x07;0x00;0x0b;0x06;0xa5;0xd3;0xc5;0x62;0x00;0x62;0x00;0x72;0x63;0x07;0x01;0x77;0x01;0x01;0x01;0x01;
         0xff;0x8f;0x8f;0x8f;0x8f;0x8f;0x8f;0x0f] = FileErr UnexpectedEOF /\
  firstn 2 (sp_calls 3 (sp_new
        [0x76;0x07;0x00;0x0b;0x06;0xa5;0xd3;0xc5;0x62;0x00;0x62;0x00;0x72;0x63;0x07;0x01;0x77;0x01;0x01;0x01;0x01;
         0xff;0x8f;0x8f;0x8f;0x8f;0x8f;0x8f;0x0f])) =
    [SEvent (EMessageStart (mkms [0x00;0x0b;0x06;0xa5;0xd3;0xc5] 0 0 (SGetList (mkgs None [] None None 4294967295))));
     SErr UnexpectedEOF] /\
  list_reservation (mktlf TList 4294967295) [1;2;3] = 3.
Proof. vm_compute. repeat split; reflexivity. Qed.
