(* C18 - ArrayBuf behaves as a capacity-bounded byte vector.
   For every capacity n and every sequence of push / extend_from_slice / truncate / clear,
   the model of ArrayBuf<n> (backing array with stale bytes + element count, index guards as
   panics) returns the same results and exposes the same contents after every operation as
   the ideal vector limited to n elements ([bv_run], Spec/BoundedVec.v); no index guard fires;
   a failing operation leaves the contents unchanged; collecting at most n bytes yields
   exactly those bytes (more panics, the documented unwrap); equality depends only on the
   visible contents.  (Debug output is the Debug impl of the dereferenced slice, a function of the visible slice by
   construction; it is compared Rust-vs-Rust in the correspondence check.)
   This file contains the statement only. *)
Require Export Sml.Base.Prelude Sml.Model.ArrayBuf Sml.Spec.BoundedVec.
Require Export Sml.Proofs.ArrayBufRefine.

Theorem C18_refines : forall (n : nat) (ops : list aop),
  ab_run n (ab_default n) ops = bv_run n [] ops /\
  Forall (fun r => fst r <> APanic /\ snd r <> None) (ab_run n (ab_default n) ops).
Proof.
  intros n ops. split.
  - rewrite (ab_run_refines n ops (ab_default n) (RInv_default n)). reflexivity.
  - apply ab_run_no_panic. apply RInv_default.
Qed.
Print Assumptions C18_refines.

Theorem C18_failing_op : forall (n : nat) (ops : list aop) (o : aop),
  snd (ab_do n (ab_state n (ab_default n) ops) o) = AOom ->
  abs (fst (ab_do n (ab_state n (ab_default n) ops) o)) = abs (ab_state n (ab_default n) ops).
Proof.
  intros n ops o. apply ab_failing_op_unchanged. apply ab_state_inv. apply RInv_default.
Qed.
Print Assumptions C18_failing_op.

Theorem C18_from_iter : forall (n : nat) (l : list byte),
  if Nat.leb (length l) n
  then exists a, ab_from_iter n l = Some a /\ abs a = l /\ RInv n a
  else ab_from_iter n l = None.
Proof. exact ab_from_iter_spec. Qed.
Print Assumptions C18_from_iter.

Theorem C18_eq : forall (n : nat) (ops1 ops2 : list aop),
  ab_eq (ab_state n (ab_default n) ops1) (ab_state n (ab_default n) ops2) =
  Some (if list_eq_dec N.eq_dec (abs (ab_state n (ab_default n) ops1)) (abs (ab_state n (ab_default n) ops2))
        then true else false).
Proof.
  intros n ops1 ops2. apply (ab_eq_spec n); apply ab_state_inv; apply RInv_default.
Qed.
Print Assumptions C18_eq.

Example C18_stale_bytes_invisible :
  ab_run 4 (ab_default 4) [OpExtend [1;2;3]; OpTruncate 1; OpTruncate 3; OpPush 9]
  = [(AOk, Some [1;2;3]); (AOk, Some [1]); (AOk, Some [1]); (AOk, Some [1;9])].
Proof. vm_compute. reflexivity. Qed.
