(* C04 - Parser soundness: data only from well-formed, CRC-valid, fully consumed input.
   The specification is the grammar relation [enc_file] of Spec/Grammar.v (see C03.v), the
   independent reading of the SML grammar plus the vendor time workaround.  A message in the
   relation has the prescribed list arities and field types, a checksum field equal to the
   byte-swapped CRC-16/X.25 of the message bytes before it, the 0x00 end marker; a file is
   the concatenation of its messages and nothing else.
   For every byte string bs (bytes < 256, shorter than 2^32):
   - if complete::parse(bs) returns a file f, then bs is an encoding of f ([C04_sound]),
     and f is the only content the grammar reads from bs ([C04_exact]);
   - if bs is not an encoding of any file - truncated, extended, corrupted in a field, a
     length, a checksum, an arity, a tag - complete::parse returns an error ([C04_rejects])
     and so does the streaming parser, after possibly some events ([C04_streaming_rejects]);
   - the streaming parser's events, once it has reported the end of the input without an
     error, are exactly the content of a grammatical file ([C04_streaming_sound]).
   [C04_iff] puts C03 and C04 together: the parser accepts exactly the language of the
   grammar and computes its content function.
   This file contains the statements only. *)
Require Export Sml.Base.Prelude Sml.Model.Parser Sml.Spec.TlfRef Sml.Spec.Grammar.
Require Export Sml.Proofs.ParserTotal Sml.Proofs.ParsersAgree Sml.Proofs.ParserGrammar.

Theorem C04_sound : forall (bs : list byte) (f : list message),
  ok_in bs -> parse bs = FileOk f -> enc_file f bs.
Proof. exact parse_sound. Qed.
Print Assumptions C04_sound.

Theorem C04_exact : forall (bs : list byte) (f g : list message),
  ok_in bs -> parse bs = FileOk f -> enc_file g bs -> f = g.
Proof.
  intros bs f g Hi Hp Hg. exact (enc_file_functional bs f g Hi (parse_sound bs f Hi Hp) Hg).
Qed.
Print Assumptions C04_exact.

Theorem C04_rejects : forall bs : list byte,
  ok_in bs -> (forall f, ~ enc_file f bs) -> exists e, parse bs = FileErr e.
Proof. exact parse_rejects. Qed.
Print Assumptions C04_rejects.

Theorem C04_iff : forall (bs : list byte) (f : list message),
  ok_in bs -> (parse bs = FileOk f <-> enc_file f bs).
Proof.
  intros bs f Hi. split; [exact (parse_sound bs f Hi)|exact (parse_complete bs f Hi)].
Qed.
Print Assumptions C04_iff.

Theorem C04_streaming_sound : forall (bs : list byte) (evs : list event),
  ok_in bs ->
  sp_calls (S (length evs)) (sp_new bs) = map SEvent evs ++ [SNone] ->
  exists f, enc_file f bs /\ flat_map flatten_msg f = evs.
Proof. exact streaming_sound. Qed.
Print Assumptions C04_streaming_sound.

Theorem C04_streaming_rejects : forall bs : list byte,
  ok_in bs -> (forall f, ~ enc_file f bs) ->
  exists e, forall k, exists evs,
    sp_calls k (sp_new bs) = firstn k (map SEvent evs ++ [SErr e] ++ repeat SNone k).
Proof. exact streaming_rejects. Qed.
Print Assumptions C04_streaming_rejects.

(* the structural checks behind the checksum: the documentation example (a close response),
   and four corruptions of it WITH THE CHECKSUM RECOMPUTED, each rejected for its own reason:
   message arity 5, body arity 3, unknown body tag 0x0301, end marker 0x01; then the intact
   message with one trailing byte, and with its last byte missing *)
Example C04_fixed_up_corruptions :
  parse [0x76;0x05;0xdd;0x43;0x44;0x00;0x62;0x00;0x62;0x00;0x72;0x63;0x02;0x01;0x71;0x01;0x63;0xfd;0x56;0x00]
    = FileOk [mkmsg [0xdd;0x43;0x44;0x00] 0 0 (BClose None)] /\
  parse [0x75;0x05;0xdd;0x43;0x44;0x00;0x62;0x00;0x62;0x00;0x72;0x63;0x02;0x01;0x71;0x01;0x63;0xdc;0xcc;0x00]
    = FileErr TlfMismatch /\
  parse [0x76;0x05;0xdd;0x43;0x44;0x00;0x62;0x00;0x62;0x00;0x73;0x63;0x02;0x01;0x71;0x01;0x63;0xd6;0x52;0x00]
    = FileErr TlfMismatch /\
  parse [0x76;0x05;0xdd;0x43;0x44;0x00;0x62;0x00;0x62;0x00;0x72;0x63;0x03;0x01;0x71;0x01;0x63;0x46;0x4a;0x00]
    = FileErr UnexpectedVariant /\
  parse [0x76;0x05;0xdd;0x43;0x44;0x00;0x62;0x00;0x62;0x00;0x72;0x63;0x02;0x01;0x71;0x01;0x63;0xfd;0x56;0x01]
    = FileErr MsgEndMismatch /\
  (exists e, parse [0x76;0x05;0xdd;0x43;0x44;0x00;0x62;0x00;0x62;0x00;0x72;0x63;0x02;0x01;0x71;0x01;0x63;0xfd;0x56;0x00;0x00]
    = FileErr e) /\
  parse [0x76;0x05;0xdd;0x43;0x44;0x00;0x62;0x00;0x62;0x00;0x72;0x63;0x02;0x01;0x71;0x01;0x63;0xfd;0x56]
    = FileErr UnexpectedEOF.
Proof. vm_compute. repeat split; try reflexivity. eexists; reflexivity. Qed.
