(* C14 - Decoder keeps no memory across transmission boundaries.
   From ANY decoder state d0 (reachable or not) and any operation o: if the operation's
   event is a boundary event - a delivered transmission, InvalidMessage, InvalidEsc,
   OutOfMemory, reset, finalize or from_buf - then on every continuation ops2 the decoder
   produces exactly the events of a newly constructed decoder (outputs, payloads, error
   fields and counts included), for every buffer capacity.  Consequently decoding a
   concatenation equals concatenating the decodings when the split falls on a boundary.
   This file contains the statement only. *)
Require Export Sml.Base.Prelude Sml.Base.Crc Sml.Spec.Frame Sml.Model.Decode.
Require Export Sml.Proofs.Boundary.

Theorem C14_boundary : forall (cap : cap_t) (d0 : dec) (o : op) (ops2 : list op),
  boundary_ev (snd (do_op cap d0 o)) = true ->
  snd (run_ops cap (fst (do_op cap d0 o)) ops2) = snd (run_ops cap init ops2).
Proof. exact after_boundary_like_new. Qed.
Print Assumptions C14_boundary.

Theorem C14_concat : forall (cap : cap_t) (ops1 : list op) (o : op) (ops2 : list op),
  boundary_ev (last (snd (run_ops cap init (ops1 ++ [o]))) EvNew) = true ->
  snd (run_ops cap init ((ops1 ++ [o]) ++ ops2)) =
  snd (run_ops cap init (ops1 ++ [o])) ++ snd (run_ops cap init ops2).
Proof. exact concat_at_boundary. Qed.
Print Assumptions C14_concat.

(* non-vacuity: an InvalidMessage boundary reached with withheld zeros in the decoder *)
Example C14_boundary_reached :
  boundary_ev (last (snd (run_ops (Some 8%nat) init
     (map Push ([27;27;27;27;1;1;1;1;18;52;0;0;27;27;27;27;26;2;0] ++ [0])))) EvNew) = true.
Proof. vm_compute. reflexivity. Qed.
