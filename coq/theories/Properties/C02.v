(* C02 - Decoder soundness: a payload is reported only for an intact canonical frame.
   For every buffer capacity and every history of push_byte / finalize / reset / from_buf
   (bytes < 256), whenever the i-th call reports a payload m, the bytes pushed since the last
   finalize/reset/from_buf end with exactly [frame m] (Spec/Frame.v).
   [C02_frontends] carries this to decode(), decode_streaming and the readers over slice /
   iterator / io::Read (through C15): a payload they report occurs, canonically framed, in the
   byte stream they were given.  This file contains the statements only. *)
Require Export Sml.Base.Prelude Sml.Base.Crc Sml.Spec.Frame Sml.Model.Decode.
Require Export Sml.Model.Frontends Sml.Model.Parser Sml.Model.Reader.
Require Export Sml.Proofs.DecodeSound Sml.Proofs.FrontendsAgree Sml.Proofs.SoundFrontends.

Theorem C02_sound : forall (cap : cap_t) (ops : list op) (i : nat) (m : list byte),
  Forall op_ok ops ->
  nth_error (snd (run_ops cap init ops)) i = Some (EvPush OMsg m) ->
  exists pre, trailing (firstn (S i) ops) [] = pre ++ frame m.
Proof. exact ops_sound_frame. Qed.
Print Assumptions C02_sound.

Theorem C02_frontends : forall (s m : list byte),
  bytes_ok s ->
  (In (RMsg m) (decode_fn s) -> exists pre suf, s = pre ++ frame m ++ suf) /\
  (forall cap, In (RMsg m) (snd (di_all cap (length s + 2) (di_new s))) ->
               exists pre suf, s = pre ++ frame m ++ suf) /\
  (forall cap kind, kind <> KEh ->
     In (RdOk m) (snd (rd_all cap (length s + 2) (rd_new kind (map SByte s)))) ->
     exists pre suf, s = pre ++ frame m ++ suf).
Proof. exact frontends_sound. Qed.
Print Assumptions C02_frontends.

(* the premise is satisfiable: a real frame is delivered, also across a reset *)
Example C02_nonvacuous :
  nth_error (snd (run_ops (Some 4%nat) init (Push 85 :: Reset :: map Push (frame [18;52;86;120])))) 21
  = Some (EvPush OMsg [18;52;86;120]).
Proof. vm_compute. reflexivity. Qed.
