(* C13 - Streaming parser terminates: at most one error, then None forever.
   For every byte string bs (bytes < 256, shorter than 2^32) and every number k of next()
   calls: the results are events, then at most one error, then only None ([well_ended]); no
   call panics; and the number of items (events + error) is at most |bs| + 1.
   Every event consumes at least one input byte; an error or None leaves the iterator in the
   terminal state (no input, no pending list entries) from which next() returns None.
   This file contains the statement only. *)
Require Export Sml.Base.Prelude Sml.Model.Parser.
Require Export Sml.Proofs.ParserTotal.

Theorem C13_term : forall (bs : list byte) (k : nat),
  ok_in bs ->
  well_ended (sp_calls k (sp_new bs)) = true /\
  (n_items (sp_calls k (sp_new bs)) <= length bs + 1)%nat.
Proof. intros bs k H. apply (sp_calls_shape k (sp_new bs)). apply PInv_new. exact H. Qed.
Print Assumptions C13_term.

(* the repaired defect D4: a bad checksum after a message start ends the iteration *)
Example C13_bad_crc_ends_iteration :
  map is_none (sp_calls 4 (sp_new [0x76;0x05;0x01;0x18;0x8e;0x61;0x62;0x00;0x62;0x00;0x72;0x63;0x02;0x01;0x71;0x01;0x63;0x4d;0x87;0x00]))
  = [false; false; true; true].
Proof. vm_compute. reflexivity. Qed.
