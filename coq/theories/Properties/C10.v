(* C10 - End to end: SmlReader yields exactly the transmitted files, in order.
   A transmission is a list of segments (g_i, b_i) - noise g_i that contains the start sequence
   (together with the one that follows) only at its end, and a payload b_i (the bytes of an
   SML file) framed by the transport encoder - followed by trailing noise that contains no
   start sequence.  For every buffer holding each payload, every idle decoder state and every
   source kind with end of file (slice, iterator, io::Read):
   (stream) the push decoder reports, in order, DiscardedBytes(|g_i|) for each non-empty noise
            and then exactly b_i; finalize reports the trailing noise length, if any;
   (reader) calling next() until None yields the same sequence - each noise as
            DecodeErr(DiscardedBytes(|g_i|)), each frame as Ok(b_i) - then IoErr(Eof, |tail|)
            if there is trailing noise, then None;
   (compose) for every call kind (read / next / read_nb / next_nb) and target type, SmlReader's
            result is parse_from applied to the DecoderReader's result: DecodedBytes = the
            payload, File = complete::parse of it, Parser = streaming::Parser over it; errors
            pass through unchanged.  SmlReader adds nothing of its own.
   (files)  composed with C03: if every payload b_i is a valid encoding of the SML file F_i
            (grammar relation enc_file, C03/C04), then mapping T::parse_from over the results
            of the reader gives, for every target type, exactly: DecodeErr(DiscardedBytes(|g_i|))
            for each non-empty noise, then the file F_i - as its bytes, as the parsed File, or
            as the streaming parser's event sequence followed by None - in order, then
            IoErr(Eof, |tail|) for trailing noise.
   This file contains the statements only. *)
Require Export Sml.Base.Prelude Sml.Base.Crc Sml.Spec.Frame Sml.Model.Decode Sml.Model.Frontends.
Require Export Sml.Model.Parser Sml.Model.Reader.
Require Export Sml.Proofs.RoundTrip Sml.Proofs.Boundary Sml.Proofs.Resync.
Require Export Sml.Proofs.FrontendsAgree Sml.Proofs.EndToEnd Sml.Proofs.Transmissions.
Require Export Sml.Spec.TlfRef Sml.Spec.Grammar Sml.Proofs.ParserTotal Sml.Proofs.ParsersAgree.
Require Export Sml.Proofs.FilesEndToEnd.

Theorem C10_stream : forall (cap : cap_t) (segs : list (list byte * list byte)) (tail : list byte) (d : dec),
  norm d = norm init -> segs_ok cap segs -> quiet_tail tail ->
  results (snd (run cap d (stream_of segs tail))) = flat_map (fun gm => seg_results (fst gm) (snd gm)) segs /\
  fin (fst (run cap d (stream_of segs tail))) = if 0 <? lenN tail then [RErr (DiscardedBytes (lenN tail))] else [].
Proof. exact transmission. Qed.
Print Assumptions C10_stream.

Theorem C10_reader : forall (cap : cap_t) (kind : skind) (segs : list (list byte * list byte)) (tail : list byte),
  kind <> KEh -> segs_ok cap segs -> quiet_tail tail ->
  snd (rd_all cap (length (stream_of segs tail) + 2) (rd_new kind (map SByte (stream_of segs tail)))) =
  map to_rd (flat_map (fun gm => seg_results (fst gm) (snd gm)) segs) ++
  (if 0 <? lenN tail then [RdIoErr EkEof (lenN tail)] else []).
Proof.
  intros cap kind segs tail Hk Hs Ht.
  destruct (frontends_agree (stream_of segs tail)) as (_ & _ & C).
  rewrite (C cap kind Hk).
  destruct (transmission cap segs tail init eq_refl Hs Ht) as [R F]. rewrite R, F.
  destruct (0 <? lenN tail); reflexivity.
Qed.
Print Assumptions C10_reader.

Theorem C10_compose : forall (cap : cap_t) (mt : meth) (t : target) (r : reader),
  sr_call cap mt t r =
  match mt with
  | MRead => (fst (dr_read cap r), CItem (parse_from t (snd (dr_read cap r))))
  | MNext => (fst (dr_next cap r),
              match snd (dr_next cap r) with None => CNone | Some y => CItem (parse_from t y) end)
  | MReadNb => (fst (dr_read_nb cap r),
                match snd (dr_read_nb cap r) with
                | NbOk m => CItem (parse_from t (RdOk m))
                | NbWouldBlock => CWouldBlock
                | NbOther e => CItem (parse_from t e)
                end)
  | MNextNb => (fst (dr_next_nb cap r),
                match snd (dr_next_nb cap r) with
                | NbOk None => CNone
                | NbOk (Some m) => CItem (parse_from t (RdOk m))
                | NbWouldBlock => CWouldBlock
                | NbOther e => CItem (parse_from t e)
                end)
  end /\
  (forall m, parse_from TBytes (RdOk m) = IBytes m /\
             parse_from TFile (RdOk m) = match parse m with FileOk f => IFile f | FileErr e => IParseErr e | FilePanic => IPanic end /\
             parse_from TParser (RdOk m) = IEvents (drain_parser m)) /\
  (forall e, parse_from t (RdDecErr e) = IDecErr e) /\
  (forall k n, parse_from t (RdIoErr k n) = IIoErr k n).
Proof.
  intros cap mt t r. split.
  - destruct mt; unfold sr_call.
    + destruct (dr_read cap r); reflexivity.
    + destruct (dr_next cap r); reflexivity.
    + destruct (dr_read_nb cap r); reflexivity.
    + destruct (dr_next_nb cap r); reflexivity.
  - split; [intros m; repeat split; reflexivity|]. split; intros; destruct t; reflexivity.
Qed.
Print Assumptions C10_compose.

Theorem C10_files : forall (cap : cap_t) (kind : skind) (t : target)
    (segs : list (list byte * list byte)) (tail : list byte) (Fs : list (list message)),
  kind <> KEh -> segs_ok cap segs -> quiet_tail tail ->
  Forall2 (fun F gm => ok_in (snd gm) /\ enc_file F (snd gm)) Fs segs ->
  map (parse_from t)
      (snd (rd_all cap (length (stream_of segs tail) + 2) (rd_new kind (map SByte (stream_of segs tail))))) =
  flat_map (fun Fg : list message * (list byte * list byte) =>
              (if 0 <? lenN (fst (snd Fg)) then [IDecErr (DiscardedBytes (lenN (fst (snd Fg))))] else []) ++
              [match t with
               | TBytes => IBytes (snd (snd Fg))
               | TFile => IFile (fst Fg)
               | TParser => IEvents (firstn (length (snd (snd Fg)) + 2)
                                       (map SEvent (flat_map flatten_msg (fst Fg)) ++
                                        repeat SNone (length (snd (snd Fg)) + 2)))
               end])
           (combine Fs segs) ++
  (if 0 <? lenN tail then [IIoErr EkEof (lenN tail)] else []).
Proof. exact files_end_to_end. Qed.
Print Assumptions C10_files.

Example C10_two_files_with_noise :
  snd (rd_all (Some 3%nat) 80
        (rd_new KIo (map SByte (stream_of [([85;27], [1;2;3]); ([27;27;27;27;1;27], [9])] [0;27]))))
  = [RdDecErr (DiscardedBytes 2); RdOk [1;2;3]; RdDecErr (DiscardedBytes 6); RdOk [9]; RdIoErr EkEof 2].
Proof. vm_compute. reflexivity. Qed.
