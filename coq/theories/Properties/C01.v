(* C01 - Transport round trip: decoding an encoded payload yields exactly that payload.
   For every payload p (any N list, any length, any content) and every buffer that holds |p|
   bytes (growable, or fixed with capacity >= |p|):
   - both encoders produce [frame p];
   - the push decoder returns Ok(None) for every byte but the last, Ok(Some p) at the last
     byte, and finalize then reports nothing;
   - decode() returns exactly [Ok p]; decode_streaming yields exactly Ok p and then None on
     every further call; a reader over a slice / iterator / io::Read yields exactly Ok p and
     then None.
   This file contains the statement only. *)
Require Export Sml.Base.Prelude Sml.Base.Crc Sml.Spec.Frame Sml.Model.Decode Sml.Model.Encode.
Require Export Sml.Model.Frontends Sml.Model.Parser Sml.Model.Reader.
Require Export Sml.Proofs.RoundTrip Sml.Proofs.FrontendsAgree Sml.Proofs.EndToEnd Sml.Proofs.SoundFrontends.

Theorem C01_roundtrip : forall (cap : cap_t) (p : list byte),
  cap_ok cap (length p) ->
  enc_collect p = frame p /\ encode_buf None p = Some (frame p) /\
  (exists d', run cap init (frame p) =
              (d', map (fun _ => (ONone, [])) (removelast (frame p)) ++ [(OMsg, p)]) /\
              snd (finalize d') = None) /\
  decode_fn (frame p) = [RMsg p] /\
  (snd (di_all cap (length (frame p) + 2) (di_new (frame p))) = [RMsg p] /\
   forall k, di_extra cap k (fst (di_all cap (length (frame p) + 2) (di_new (frame p)))) = repeat None k) /\
  (forall kind, kind <> KEh ->
     snd (rd_all cap (length (frame p) + 2) (rd_new kind (map SByte (frame p)))) = [RdOk p]).
Proof. exact roundtrip_all. Qed.
Print Assumptions C01_roundtrip.

(* consequence: the wire format is uniquely decodable - different payloads have different frames *)
Theorem C01_injective : forall p q : list byte, frame p = frame q -> p = q.
Proof. exact frame_injective. Qed.
Print Assumptions C01_injective.

(* the re-alignment case at capacity exactly |p|, with withheld zeros before the 0x1b run *)
Example C01_realign_exact_capacity :
  snd (run (Some 4%nat) init (frame [18;0;27;27])) =
  map (fun _ => (ONone, [])) (removelast (frame [18;0;27;27])) ++ [(OMsg, [18;0;27;27])].
Proof. vm_compute. reflexivity. Qed.
