(* SPECIFICATION for C18: the ideal byte vector limited to [n] elements. *)
Require Import Sml.Base.Prelude Sml.Model.ArrayBuf.

Definition bv_do (n : nat) (v : list byte) (o : aop) : list byte * ares :=
  match o with
  | OpPush b => if Nat.ltb (length v) n then (v ++ [b], AOk) else (v, AOom)
  | OpExtend l => if Nat.leb (length v + length l) n then (v ++ l, AOk) else (v, AOom)
  | OpTruncate k => (firstn k v, AOk)
  | OpClear => ([], AOk)
  end.

Fixpoint bv_run (n : nat) (v : list byte) (ops : list aop) : list (ares * option (list byte)) :=
  match ops with
  | [] => []
  | o :: r => let '(v', x) := bv_do n v o in (x, Some v') :: bv_run n v' r
  end.
