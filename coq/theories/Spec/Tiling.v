(* SPECIFICATION for C17: the byte-accounting monitor.  [consumed] = number of bytes pushed
   so far, [covered] = number of bytes already accounted for by a delivered frame, a
   discarded-bytes report or a rejected frame.  The monitor accepts a history iff the
   reported ranges tile the input without gaps or overlaps. *)
Require Import Sml.Base.Prelude Sml.Base.Crc Sml.Spec.Frame Sml.Model.Decode.

(* one call and its result: the new (consumed, covered), or None if the accounting is wrong *)
Definition tile1 (consumed covered : N) (o : op) (e : ev) : option (N * N) :=
  match o, e with
  | Push _, EvPush ONone _ => Some (consumed + 1, covered)
  | Push _, EvPush (OErr (DiscardedBytes n)) _ =>
      (* reported when a start sequence completes: exactly the bytes between the previous
         boundary and the first byte of that start sequence *)
      if covered + n + 8 =? consumed + 1 then Some (consumed + 1, consumed + 1 - 8) else None
  | Push _, EvPush OMsg m =>
      (* a delivered frame covers exactly its canonical frame *)
      if covered + lenN (frame m) =? consumed + 1 then Some (consumed + 1, consumed + 1) else None
  | Push _, EvPush (OErr _) _ =>
      (* a rejected frame: everything up to here is accounted for by the error *)
      Some (consumed + 1, consumed + 1)
  | Finalize, EvFin None => if covered =? consumed then Some (consumed, consumed) else None
  | Finalize, EvFin (Some (DiscardedBytes n)) => if covered + n =? consumed then Some (consumed, consumed) else None
  | Reset, EvReset n => if covered + n =? consumed then Some (consumed, consumed) else None
  | FromBuf, EvNew => Some (consumed, consumed)
  | _, _ => None
  end.

Fixpoint tiles (consumed covered : N) (h : list (op * ev)) : bool :=
  match h with
  | [] => true
  | (o, e) :: r =>
      match tile1 consumed covered o e with
      | Some (c1, c2) => tiles c1 c2 r
      | None => false
      end
  end.
