(* SPECIFICATION for C03 / C04: the SML grammar of the supported subset, as a RELATION between
   abstract content and byte strings ("bs is a valid wire encoding of v"), written
   independently of the parsers.  Type-length fields are read by [tlf_ref] (Spec/TlfRef.v),
   integers by [be] / [twos].  All valid encodings are in the relation: multi-byte and
   non-minimal TLFs, integers shortened to any size of their width class, every optional
   field present or absent, both encodings of a time value, a 1- or 2-byte checksum field. *)
Require Import Sml.Base.Prelude Sml.Base.Crc Sml.Model.Parser Sml.Spec.TlfRef.

(* [t] is a type-length field announcing type [ty] and length [len] *)
Definition enc_tlf (ty : ty) (len : N) (t : list byte) : Prop :=
  forall rest, tlf_ref (t ++ rest) = Some (ty, len, rest).

(* byte strings *)
Definition enc_octet (data : list byte) (bs : list byte) : Prop :=
  exists t, enc_tlf TOctet (lenN data) t /\ bs = t ++ data.

(* unsigned / signed integers of at most [w] bytes (and at least [wmin]) *)
Definition enc_uns_k (wmin w : N) (v : N) (bs : list byte) : Prop :=
  exists t data, enc_tlf TUns (lenN data) t /\ wmin <= lenN data <= w /\ be data = v /\ bs = t ++ data.
Definition enc_int_k (wmin w : N) (z : Z) (bs : list byte) : Prop :=
  exists t data, enc_tlf TInt (lenN data) t /\ wmin <= lenN data <= w /\ twos data = z /\ bs = t ++ data.
Definition enc_uns (w : N) := enc_uns_k 1 w.
Definition enc_int (w : N) := enc_int_k 1 w.

(* optional fields: 0x01 is "absent"; a present value must not start with 0x01 *)
Definition enc_opt {A} (e : A -> list byte -> Prop) (o : option A) (bs : list byte) : Prop :=
  match o with
  | None => bs = [1]
  | Some v => e v bs /\ hd 0 bs <> 1
  end.

(* time: list(2) { choice tag 1, secIndex u32 }  or the vendor workaround: a bare u32 *)
Definition enc_time (tm : time) (bs : list byte) : Prop :=
  match tm with
  | SecIndex v =>
      (exists t b1 b2, enc_tlf TList 2 t /\ enc_uns 1 1 b1 /\ enc_uns 4 v b2 /\ bs = t ++ b1 ++ b2) \/
      (exists t data, enc_tlf TUns 4 t /\ lenN data = 4 /\ be data = v /\ bs = t ++ data)
  end.

Definition enc_status (s : status) (bs : list byte) : Prop :=
  match s with
  | Status8 v => enc_uns_k 1 1 v bs
  | Status16 v => enc_uns_k 2 2 v bs
  | Status32 v => enc_uns_k 3 4 v bs
  | Status64 v => enc_uns_k 5 8 v bs
  end.

Definition enc_value (v : value) (bs : list byte) : Prop :=
  match v with
  | VBool b => exists t x, enc_tlf TBool 1 t /\ (0 <? x) = b /\ bs = t ++ [x]
  | VBytes data => enc_octet data bs
  | VI8 z => enc_int_k 1 1 z bs
  | VI16 z => enc_int_k 2 2 z bs
  | VI32 z => enc_int_k 3 4 z bs
  | VI64 z => enc_int_k 5 8 z bs
  | VU8 n => enc_uns_k 1 1 n bs
  | VU16 n => enc_uns_k 2 2 n bs
  | VU32 n => enc_uns_k 3 4 n bs
  | VU64 n => enc_uns_k 5 8 n bs
  | VList tm => exists t b1 b2, enc_tlf TList 2 t /\ enc_uns 1 1 b1 /\ enc_time tm b2 /\ bs = t ++ b1 ++ b2
  end.

Definition enc_list_entry (e : list_entry) (bs : list byte) : Prop :=
  exists t b1 b2 b3 b4 b5 b6 b7,
    enc_tlf TList 7 t /\
    enc_octet (obj_name e) b1 /\ enc_opt enc_status (le_status e) b2 /\ enc_opt enc_time (val_time e) b3 /\
    enc_opt (enc_uns 1) (le_unit e) b4 /\ enc_opt (enc_int 1) (scaler e) b5 /\ enc_value (le_value e) b6 /\
    enc_opt enc_octet (value_signature e) b7 /\
    bs = t ++ b1 ++ b2 ++ b3 ++ b4 ++ b5 ++ b6 ++ b7.

Definition enc_open (o : open_response) (bs : list byte) : Prop :=
  exists t b1 b2 b3 b4 b5 b6,
    enc_tlf TList 6 t /\
    enc_opt enc_octet (codepage o) b1 /\ enc_opt enc_octet (o_client_id o) b2 /\ enc_octet (req_file_id o) b3 /\
    enc_octet (o_server_id o) b4 /\ enc_opt enc_time (ref_time o) b5 /\ enc_opt (enc_uns 1) (sml_version o) b6 /\
    bs = t ++ b1 ++ b2 ++ b3 ++ b4 ++ b5 ++ b6.

Definition enc_close (sig : option (list byte)) (bs : list byte) : Prop :=
  exists t b1, enc_tlf TList 1 t /\ enc_opt enc_octet sig b1 /\ bs = t ++ b1.

(* a list of entries, concatenated *)
Inductive enc_entries : list list_entry -> list byte -> Prop :=
| EE_nil : enc_entries [] []
| EE_cons e es b1 b2 : enc_list_entry e b1 -> enc_entries es b2 -> enc_entries (e :: es) (b1 ++ b2).

Definition enc_glr (g : get_list_response) (bs : list byte) : Prop :=
  exists t b1 b2 b3 b4 tl b5 b6 b7,
    enc_tlf TList 7 t /\
    enc_opt enc_octet (g_client_id g) b1 /\ enc_octet (g_server_id g) b2 /\ enc_opt enc_octet (list_name g) b3 /\
    enc_opt enc_time (act_sensor_time g) b4 /\
    enc_tlf TList (lenN (val_list g)) tl /\ enc_entries (val_list g) b5 /\
    enc_opt enc_octet (list_signature g) b6 /\ enc_opt enc_time (act_gateway_time g) b7 /\
    bs = t ++ b1 ++ b2 ++ b3 ++ b4 ++ tl ++ b5 ++ b6 ++ b7.

(* message body: list(2) { tag u32, body } *)
Definition enc_body (b : body) (bs : list byte) : Prop :=
  exists t bt bb,
    enc_tlf TList 2 t /\
    match b with
    | BOpen o => enc_uns 4 0x101 bt /\ enc_open o bb
    | BClose s => enc_uns 4 0x201 bt /\ enc_close s bb
    | BGetList g => enc_uns 4 0x701 bt /\ enc_glr g bb
    end /\
    bs = t ++ bt ++ bb.

(* message: list(6) { transaction id, group no, abort on error, body, crc16, end of message };
   the checksum is the byte-swapped CRC-16/X.25 of all message bytes before the crc field *)
Definition enc_message (m : message) (bs : list byte) : Prop :=
  exists t b1 b2 b3 b4 bc,
    enc_tlf TList 6 t /\
    enc_octet (transaction_id m) b1 /\ enc_uns 1 (group_no m) b2 /\ enc_uns 1 (abort_on_error m) b3 /\
    enc_body (message_body m) b4 /\
    enc_uns 2 (swap16 (crc16 (t ++ b1 ++ b2 ++ b3 ++ b4))) bc /\
    bs = (t ++ b1 ++ b2 ++ b3 ++ b4) ++ bc ++ [0].

(* file: the concatenation of its messages, nothing else *)
Inductive enc_file : list message -> list byte -> Prop :=
| EF_nil : enc_file [] []
| EF_cons m ms b1 b2 : enc_message m b1 -> enc_file ms b2 -> enc_file (m :: ms) (b1 ++ b2).
