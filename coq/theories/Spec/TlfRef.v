(* SPECIFICATION for C12: the SML type-length field and the primitive values, read on
   unbounded integers, independently of the parser's loop.
   A TLF is a first byte (continuation bit, 3 type bits, 4 length bits) followed - while the
   continuation bit is set - by bytes with type bits 000 and 4 more length bits each.  The
   4-bit groups concatenate to V; for non-list types the field's own size k is included in V. *)
Require Import Sml.Base.Prelude Sml.Model.Parser.

(* the bytes after the first, up to and including the first one without continuation bit *)
Fixpoint cont_bytes (bs : list byte) : option (list byte * list byte) :=
  match bs with
  | [] => None
  | b :: r =>
      if 128 <=? b
      then match cont_bytes r with Some (t, rest) => Some (b :: t, rest) | None => None end
      else Some ([b], r)
  end.

Definition type_bits (b : byte) : N := (b / 16) mod 8.

Definition ty_of_bits (t : N) : option ty :=
  if t =? 0 then Some TOctet else if t =? 4 then Some TBool else if t =? 5 then Some TInt
  else if t =? 6 then Some TUns else if t =? 7 then Some TList else None.

Definition nibbles (t : list byte) (acc : N) : N := fold_left (fun a b => a * 16 + b mod 16) t acc.

Definition tlf_ref (bs : list byte) : option (ty * N * list byte) :=
  match bs with
  | [] => None
  | b0 :: r =>
      match (if 128 <=? b0 then cont_bytes r else Some ([], r)) with
      | None => None
      | Some (more, rest) =>
          match ty_of_bits (type_bits b0) with
          | None => None                                          (* reserved type bits *)
          | Some ty =>
              if negb (forallb (fun b => type_bits b =? 0) more) then None
              else if ty_eqb ty TBool && negb (match more with [] => true | _ => false end) then None
              else
                let V := nibbles (b0 :: more) 0 in
                let k := lenN (b0 :: more) in
                if 4294967296 <=? V then None                     (* does not fit 32 bits *)
                else if ty_eqb ty TList then Some (ty, V, rest)
                else if V <? k then None                          (* negative length *)
                else Some (ty, V - k, rest)
          end
      end
  end.

(* big-endian value of a byte string; two's complement reading of k bytes *)
Definition be (bs : list byte) : N := fold_left (fun a b => a * 256 + b) bs 0.
Definition twos (bs : list byte) : Z :=
  let v := Z.of_N (be bs) in
  let w := (8 * Z.of_nat (length bs))%Z in
  if (Z.pow 2 (w - 1) <=? v)%Z then (v - Z.pow 2 w)%Z else v.
