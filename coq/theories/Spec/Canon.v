(* SPECIFICATION (non-vacuity of C03): a canonical encoder for abstract SML files, written
   directly after the grammar: every type-length field in the 8-byte form (booleans: the one
   byte 0x42), integers in the full width of their class (1/2/4/8 bytes), times as list(2),
   the checksum in 2 bytes.  [wf_file] says which abstract files are encodable: integers in
   the range of their variant, byte strings and lists shorter than 2^32 - 8. *)
Require Import Sml.Base.Prelude Sml.Base.Crc Sml.Model.Parser Sml.Spec.TlfRef.

Definition tycode (t : ty) : N :=
  match t with TOctet => 0 | TBool => 4 | TInt => 5 | TUns => 6 | TList => 7 end.

Definition nib (V i : N) : N := (V / 16 ^ i) mod 16.

(* 8-byte type-length field spelling the nibble value V *)
Definition tlf8 (t : ty) (V : N) : list byte :=
  [128 + 16 * tycode t + nib V 7; 128 + nib V 6; 128 + nib V 5; 128 + nib V 4;
   128 + nib V 3; 128 + nib V 2; 128 + nib V 1; nib V 0].

(* [len] data bytes of a primitive type / [len] elements of a list *)
Definition c_tlf (t : ty) (len : N) : list byte :=
  match t with TList => tlf8 t len | _ => tlf8 t (len + 8) end.

(* k bytes, big endian *)
Fixpoint to_be (k : nat) (n : N) : list byte :=
  match k with O => [] | S k' => to_be k' (n / 256) ++ [n mod 256] end.

Definition c_octet (data : list byte) : list byte := c_tlf TOctet (lenN data) ++ data.
Definition c_uns (k : nat) (n : N) : list byte := c_tlf TUns (N.of_nat k) ++ to_be k n.
Definition c_int (k : nat) (z : Z) : list byte :=
  c_tlf TInt (N.of_nat k) ++ to_be k (Z.to_N (z mod 2 ^ (8 * Z.of_nat k))).

Definition c_opt {A} (c : A -> list byte) (o : option A) : list byte :=
  match o with None => [1] | Some v => c v end.

Definition c_time (t : time) : list byte :=
  match t with SecIndex v => c_tlf TList 2 ++ c_uns 1 1 ++ c_uns 4 v end.

Definition c_status (s : status) : list byte :=
  match s with
  | Status8 v => c_uns 1 v | Status16 v => c_uns 2 v | Status32 v => c_uns 4 v | Status64 v => c_uns 8 v
  end.

Definition c_value (v : value) : list byte :=
  match v with
  | VBool b => [0x42; if b then 1 else 0]
  | VBytes d => c_octet d
  | VI8 z => c_int 1 z | VI16 z => c_int 2 z | VI32 z => c_int 4 z | VI64 z => c_int 8 z
  | VU8 n => c_uns 1 n | VU16 n => c_uns 2 n | VU32 n => c_uns 4 n | VU64 n => c_uns 8 n
  | VList t => c_tlf TList 2 ++ c_uns 1 1 ++ c_time t
  end.

Definition c_list_entry (e : list_entry) : list byte :=
  c_tlf TList 7 ++ c_octet (obj_name e) ++ c_opt c_status (le_status e) ++ c_opt c_time (val_time e) ++
  c_opt (c_uns 1) (le_unit e) ++ c_opt (c_int 1) (scaler e) ++ c_value (le_value e) ++
  c_opt c_octet (value_signature e).

Definition c_open (o : open_response) : list byte :=
  c_tlf TList 6 ++ c_opt c_octet (codepage o) ++ c_opt c_octet (o_client_id o) ++ c_octet (req_file_id o) ++
  c_octet (o_server_id o) ++ c_opt c_time (ref_time o) ++ c_opt (c_uns 1) (sml_version o).

Definition c_close (sig : option (list byte)) : list byte := c_tlf TList 1 ++ c_opt c_octet sig.

Definition c_glr (g : get_list_response) : list byte :=
  c_tlf TList 7 ++ c_opt c_octet (g_client_id g) ++ c_octet (g_server_id g) ++ c_opt c_octet (list_name g) ++
  c_opt c_time (act_sensor_time g) ++ c_tlf TList (lenN (val_list g)) ++ flat_map c_list_entry (val_list g) ++
  c_opt c_octet (list_signature g) ++ c_opt c_time (act_gateway_time g).

Definition c_body (b : body) : list byte :=
  c_tlf TList 2 ++
  match b with
  | BOpen o => c_uns 4 0x101 ++ c_open o
  | BClose s => c_uns 4 0x201 ++ c_close s
  | BGetList g => c_uns 4 0x701 ++ c_glr g
  end.

Definition c_message (m : message) : list byte :=
  let pre := c_tlf TList 6 ++ c_octet (transaction_id m) ++ c_uns 1 (group_no m) ++ c_uns 1 (abort_on_error m) ++
             c_body (message_body m) in
  pre ++ c_uns 2 (swap16 (crc16 pre)) ++ [0].

Definition encode_file (f : list message) : list byte := flat_map c_message f.

(* ---------- which abstract files are encodable ---------- *)
Definition lim : N := 4294967288.     (* 2^32 - 8 *)
Definition wf_octet (d : list byte) : Prop := bytes_ok d /\ lenN d < lim.
Definition wf_opt {A} (P : A -> Prop) (o : option A) : Prop := match o with None => True | Some v => P v end.
Definition wf_time (t : time) : Prop := match t with SecIndex v => v < 2 ^ 32 end.
Definition wf_status (s : status) : Prop :=
  match s with
  | Status8 v => v < 2 ^ 8 | Status16 v => v < 2 ^ 16 | Status32 v => v < 2 ^ 32 | Status64 v => v < 2 ^ 64
  end.
Definition in_int (k : Z) (z : Z) : Prop := (- 2 ^ (8 * k - 1) <= z < 2 ^ (8 * k - 1))%Z.
Definition wf_value (v : value) : Prop :=
  match v with
  | VBool _ => True
  | VBytes d => wf_octet d
  | VI8 z => in_int 1 z | VI16 z => in_int 2 z | VI32 z => in_int 4 z | VI64 z => in_int 8 z
  | VU8 n => n < 2 ^ 8 | VU16 n => n < 2 ^ 16 | VU32 n => n < 2 ^ 32 | VU64 n => n < 2 ^ 64
  | VList t => wf_time t
  end.
Definition wf_list_entry (e : list_entry) : Prop :=
  wf_octet (obj_name e) /\ wf_opt wf_status (le_status e) /\ wf_opt wf_time (val_time e) /\
  wf_opt (fun n => n < 2 ^ 8) (le_unit e) /\ wf_opt (in_int 1) (scaler e) /\ wf_value (le_value e) /\
  wf_opt wf_octet (value_signature e).
Definition wf_open (o : open_response) : Prop :=
  wf_opt wf_octet (codepage o) /\ wf_opt wf_octet (o_client_id o) /\ wf_octet (req_file_id o) /\
  wf_octet (o_server_id o) /\ wf_opt wf_time (ref_time o) /\ wf_opt (fun n => n < 2 ^ 8) (sml_version o).
Definition wf_glr (g : get_list_response) : Prop :=
  wf_opt wf_octet (g_client_id g) /\ wf_octet (g_server_id g) /\ wf_opt wf_octet (list_name g) /\
  wf_opt wf_time (act_sensor_time g) /\ lenN (val_list g) < 2 ^ 32 /\ Forall wf_list_entry (val_list g) /\
  wf_opt wf_octet (list_signature g) /\ wf_opt wf_time (act_gateway_time g).
Definition wf_body (b : body) : Prop :=
  match b with BOpen o => wf_open o | BClose s => wf_opt wf_octet s | BGetList g => wf_glr g end.
Definition wf_message (m : message) : Prop :=
  wf_octet (transaction_id m) /\ group_no m < 2 ^ 8 /\ abort_on_error m < 2 ^ 8 /\ wf_body (message_body m).
Definition wf_file (f : list message) : Prop := Forall wf_message f.
