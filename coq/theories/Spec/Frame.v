(* SPECIFICATION of the SML Transport v1 frame, written independently of both encoders
   (pattern-matching escape rule, not the counter loop the code uses). *)
Require Import Sml.Base.Prelude Sml.Base.Crc.

(* after every fourth consecutive 0x1b, insert 1b1b1b1b *)
Fixpoint esc (p : list byte) : list byte :=
  match p with
  | [] => []
  | b :: r =>
    match p with
    | b0 :: b1 :: b2 :: b3 :: r4 =>
        if (b0 =? 27) && (b1 =? 27) && (b2 =? 27) && (b3 =? 27)
        then [27;27;27;27;27;27;27;27] ++ esc r4 else b :: esc r
    | _ => b :: esc r
    end
  end.

Definition start_seq : list byte := [27;27;27;27;1;1;1;1].

(* zero bytes up to the next multiple of four *)
Definition pad_of (n : nat) : nat := Nat.modulo (4 - Nat.modulo n 4) 4.

Definition frame (p : list byte) : list byte :=
  let body := esc p in
  let pad := pad_of (length body) in
  let pre := start_seq ++ body ++ repeat 0 pad ++ [27;27;27;27;26; N.of_nat pad] in
  let c := crc16 pre in
  pre ++ [N.land c 255; N.shiftr c 8].
