(* Structural digests of the model's results, used ONLY to cross-check extraction: the same
   Gallina function is (a) extracted with the model and run by the OCaml driver and
   (b) evaluated inside Coq with vm_compute on a slice of the cases of every check.  Equal
   numbers mean that the extracted program computed the same result as the kernel's evaluator
   (up to collisions of a 61-bit hash).  No proofs, nothing here is part of a theorem. *)
Require Import Sml.Base.Prelude Sml.Base.Crc Sml.Spec.Frame.
Require Import Sml.Model.Decode Sml.Model.Encode Sml.Model.Frontends Sml.Model.Parser.

Definition mix (h x : N) : N := (h * 1000003 + x + 7) mod 2305843009213693951.
Definition hN (x : N) (h : N) : N := mix h x.
Definition hbool (b : bool) (h : N) : N := mix h (if b then 1 else 0).
Definition hZ (z : Z) (h : N) : N :=
  match z with Z0 => mix h 0 | Zpos p => mix (mix h 1) (Npos p) | Zneg p => mix (mix h 2) (Npos p) end.
Definition hlist {A} (f : A -> N -> N) (l : list A) (h : N) : N :=
  fold_left (fun acc x => f x acc) l (mix h (lenN l)).
Definition hopt {A} (f : A -> N -> N) (o : option A) (h : N) : N :=
  match o with None => mix h 0 | Some v => f v (mix h 1) end.
Definition hbytes : list byte -> N -> N := hlist hN.

(* transport decoder histories *)
Definition hderr (e : derr) (h : N) : N :=
  match e with
  | DiscardedBytes n => hN n (mix h 1)
  | InvalidEsc pl => hbytes pl (mix h 2)
  | OutOfMemory => mix h 3
  | InvalidMessage rd calc mis npad inv => hbool inv (hN npad (hbool mis (hN calc (hN rd (mix h 4)))))
  end.
Definition hout (o : out) (h : N) : N :=
  match o with ONone => mix h 1 | OMsg => mix h 2 | OErr e => hderr e (mix h 3) | OPanic => mix h 4 end.
Definition hev (e : ev) (h : N) : N :=
  match e with
  | EvPush o m => hbytes m (hout o (mix h 1))
  | EvFin e => hopt hderr e (mix h 2)
  | EvReset n => hN n (mix h 3)
  | EvNew => mix h 4
  end.
Definition x_dec (cap : cap_t) (ops : list op) : N := hlist hev (snd (run_ops cap init ops)) 0.

(* encoders *)
Definition heout (o : eout) (h : N) : N :=
  match o with EByte b => hN b (mix h 1) | ENone => mix h 2 | EPanic => mix h 3 end.
Definition x_enc (p : list byte) : N :=
  let '((e, bytes), o) := enc_collect_from (enc_limit p) (enc_new p) [] in
  hopt hbytes (encode_buf None p) (hlist heout (enc_after 3 e) (heout o (hbytes bytes 0))).

(* parsers *)
Definition htime (t : time) (h : N) : N := match t with SecIndex n => hN n (mix h 1) end.
Definition hstatus (s : status) (h : N) : N :=
  match s with
  | Status8 n => hN n (mix h 1) | Status16 n => hN n (mix h 2) | Status32 n => hN n (mix h 3) | Status64 n => hN n (mix h 4)
  end.
Definition hvalue (v : value) (h : N) : N :=
  match v with
  | VBool b => hbool b (mix h 1) | VBytes l => hbytes l (mix h 2)
  | VI8 z => hZ z (mix h 3) | VI16 z => hZ z (mix h 4) | VI32 z => hZ z (mix h 5) | VI64 z => hZ z (mix h 6)
  | VU8 n => hN n (mix h 7) | VU16 n => hN n (mix h 8) | VU32 n => hN n (mix h 9) | VU64 n => hN n (mix h 10)
  | VList t => htime t (mix h 11)
  end.
Definition hentry (e : list_entry) (h : N) : N :=
  hopt hbytes (value_signature e) (hvalue (le_value e) (hopt hZ (scaler e) (hopt hN (le_unit e)
    (hopt htime (val_time e) (hopt hstatus (le_status e) (hbytes (obj_name e) h)))))).
Definition hopen (o : open_response) (h : N) : N :=
  hopt hN (sml_version o) (hopt htime (ref_time o) (hbytes (o_server_id o) (hbytes (req_file_id o)
    (hopt hbytes (o_client_id o) (hopt hbytes (codepage o) h))))).
Definition hglr (g : get_list_response) (h : N) : N :=
  hopt htime (act_gateway_time g) (hopt hbytes (list_signature g) (hlist hentry (val_list g)
    (hopt htime (act_sensor_time g) (hopt hbytes (list_name g) (hbytes (g_server_id g) (hopt hbytes (g_client_id g) h)))))).
Definition hbody (b : body) (h : N) : N :=
  match b with BOpen o => hopen o (mix h 1) | BClose s => hopt hbytes s (mix h 2) | BGetList g => hglr g (mix h 3) end.
Definition hmsg (m : message) (h : N) : N :=
  hbody (message_body m) (hN (abort_on_error m) (hN (group_no m) (hbytes (transaction_id m) h))).
Definition htlferr (e : tlf_err) (h : N) : N :=
  mix h (match e with TlfLengthOverflow => 1 | TlfReserved => 2 | TlfLengthUnderflow => 3
                    | TlfNextByteTypeMismatch => 4 | TlfInvalidTy => 5 end).
Definition hperr (e : perr) (h : N) : N :=
  match e with
  | LeftoverInput => mix h 1 | UnexpectedEOF => mix h 2 | InvalidTlf t => htlferr t (mix h 3) | TlfMismatch => mix h 4
  | CrcMismatch => mix h 5 | MsgEndMismatch => mix h 6 | UnexpectedVariant => mix h 7
  end.
Definition hpres (r : parse_result) (h : N) : N :=
  match r with FileOk f => hlist hmsg f (mix h 1) | FileErr e => hperr e (mix h 2) | FilePanic => mix h 3 end.
Definition hgs (g : glr_start) (h : N) : N :=
  hN (num_vals g) (hopt htime (s_act_sensor_time g) (hopt hbytes (s_list_name g) (hbytes (s_server_id g)
    (hopt hbytes (s_client_id g) h)))).
Definition hsbody (b : sbody) (h : N) : N :=
  match b with SOpen o => hopen o (mix h 1) | SClose s => hopt hbytes s (mix h 2) | SGetList g => hgs g (mix h 3) end.
Definition hms (m : message_start) (h : N) : N :=
  hsbody (ms_body m) (hN (ms_abort_on_error m) (hN (ms_group_no m) (hbytes (ms_transaction_id m) h))).
Definition hevent (e : event) (h : N) : N :=
  match e with
  | EMessageStart m => hms m (mix h 1)
  | EGetListEnd s g => hopt htime g (hopt hbytes s (mix h 2))
  | EListEntry e => hentry e (mix h 3)
  end.
Definition hsnext (x : snext) (h : N) : N :=
  match x with SNone => mix h 1 | SEvent e => hevent e (mix h 2) | SErr e => hperr e (mix h 3) | SPanic => mix h 4 end.
Definition x_parse (bs : list byte) : N :=
  hlist hsnext (sp_calls (length bs + 3) (sp_new bs)) (hpres (parse bs) 0).

(* readers / SmlReader *)
Require Import Sml.Model.Reader Sml.Model.ArrayBuf.
Definition hek (k : errkind) (h : N) : N := mix h (match k with EkEof => 1 | EkWouldBlock => 2 | EkOther => 3 end).
Definition hitem (i : item) (h : N) : N :=
  match i with
  | IBytes m => hbytes m (mix h 1)
  | IFile f => hlist hmsg f (mix h 2)
  | IEvents evs => hlist hsnext evs (mix h 3)
  | IParseErr e => hperr e (mix h 4)
  | IDecErr e => hderr e (mix h 5)
  | IIoErr k n => hN n (hek k (mix h 6))
  | IPanic => mix h 7
  end.
Definition hcall (c : callres) (h : N) : N :=
  match c with CItem i => hitem i (mix h 1) | CNone => mix h 2 | CWouldBlock => mix h 3 end.
Definition x_rd (kind : skind) (cap : cap_t) (evs : list sev) (calls : list (meth * target)) : N :=
  hlist hcall (sr_calls cap calls (rd_new kind evs)) 0.

(* ArrayBuf histories *)
Definition hares (r : ares) (h : N) : N := mix h (match r with AOk => 1 | AOom => 2 | APanic => 3 end).
Definition x_abuf (n : nat) (ops : list aop) : N :=
  hlist (fun rc h => hopt hbytes (snd rc) (hares (fst rc) h)) (ab_run n (ab_default n) ops) 0.
