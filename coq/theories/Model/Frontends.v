(* EXECUTABLE MODEL of the slice/iterator front-ends of src/transport/decode.rs:
   [decode] (466-480) and [DecodeIterator]/[decode_streaming] (483-546).  No proofs here. *)
Require Import Sml.Base.Prelude Sml.Base.Crc Sml.Spec.Frame Sml.Model.Decode.

(* one item of the result sequences: Ok(bytes) | Err(e) | a panic of the call *)
Inductive res := RMsg (m : list byte) | RErr (e : derr) | RPanic.

(* Decoder::push_byte = _push_byte + borrow_buf (panics unless Done) *)
Definition push_res (cap : cap_t) (d : dec) (b : byte) : dec * option res :=
  let '(d', o) := step cap d b in
  match o with
  | ONone => (d', None)
  | OMsg => match st d' with
            | Done => (d', Some (RMsg (frev (rbuf d'))))
            | _ => (d', Some RPanic)
            end
  | OErr e => (d', Some (RErr e))
  | OPanic => (d', Some RPanic)
  end.

(* decode.rs:466-480 decode(): Vec-backed decoder, push everything, finalize *)
Fixpoint decode_loop (d : dec) (s : list byte) : list res :=
  match s with
  | [] => match snd (finalize d) with Some e => [RErr e] | None => [] end
  | b :: r =>
      let '(d', o) := push_res None d b in
      match o with
      | Some RPanic => [RPanic]           (* the call unwinds: nothing is returned *)
      | Some x => x :: decode_loop d' r
      | None => decode_loop d' r
      end
  end.

Definition decode_fn (s : list byte) : list res := decode_loop init s.

(* decode.rs:483-525 DecodeIterator *)
Record diter := mkdi { di_dec : dec; di_bytes : list byte; di_done : bool }.

Definition di_new (s : list byte) : diter := mkdi init s false.

(* DecodeIterator::next: loops over the bytes until something is to be returned *)
Fixpoint di_loop (cap : cap_t) (d : dec) (s : list byte) : diter * option res :=
  match s with
  | [] => let '(d', e) := finalize d in
          (mkdi d' [] true, match e with Some e => Some (RErr e) | None => None end)
  | b :: r =>
      let '(d', o) := push_res cap d b in
      match o with
      | Some x => (mkdi d' r false, Some x)
      | None => di_loop cap d' r
      end
  end.

Definition di_next (cap : cap_t) (it : diter) : diter * option res :=
  if di_done it then (it, None) else di_loop cap (di_dec it) (di_bytes it).

(* call next() until it returns None, then [extra] more times; [lim] bounds the calls *)
Fixpoint di_all (cap : cap_t) (lim : nat) (it : diter) : diter * list res :=
  match lim with
  | O => (it, [RPanic])
  | S l =>
      match di_next cap it with
      | (it', Some RPanic) => (it', [RPanic])
      | (it', Some x) => let '(it'', xs) := di_all cap l it' in (it'', x :: xs)
      | (it', None) => (it', [])
      end
  end.

Fixpoint di_extra (cap : cap_t) (k : nat) (it : diter) : list (option res) :=
  match k with
  | O => []
  | S k' => let '(it', o) := di_next cap it in o :: di_extra cap k' it'
  end.
