(* EXECUTABLE MODEL of src/transport/decode.rs (push decoder), written after the Rust
   line by line.  No proofs in this file.

   Conventions:
   - the buffer is a reversed list [rbuf] bounded by [cap : option nat]
     ([None] = Vec<u8>, [Some n] = ArrayBuf<n>); C18 justifies that abstraction;
   - [raw_msg_len] (usize) is an unbounded N (trusted base: 64-bit usize);
   - u8 fields are N; every checked arithmetic operation / index of the Rust code
     whose guard is not the enclosing [if] is modelled by an explicit test that
     yields the output [OPanic] (debug build semantics).  C05 proves it unreachable. *)
Require Import Sml.Base.Prelude Sml.Base.Crc Sml.Spec.Frame.

(* decode.rs:44-57 DecodeState *)
Inductive dstate :=
| Looking (disc nseq : N)
| Normal
| EscChars (n : N)
| EscPayload (step : N) (pl : list byte)
| Done.

(* decode.rs:14-33 DecodeErr *)
Inductive derr :=
| DiscardedBytes (n : N)
| InvalidEsc (pl : list byte)
| OutOfMemory
| InvalidMessage (rd calc : N) (misaligned : bool) (npad : N) (invalid_pad : bool).

(* decode.rs:143-151 NonOwningDecoder + the buffer of Decoder<B> *)
Record dec := mkdec { raw : N; crc : N; st : dstate; zc : N; rbuf : list byte }.

(* result of push_byte: Ok(None) | Ok(Some(buf)) | Err(e) | panic *)
Inductive out := ONone | OMsg | OErr (e : derr) | OPanic.

Definition cap_t := option nat.
Definition fits (cap : cap_t) (l : list byte) : bool :=
  match cap with None => true | Some c => Nat.ltb (length l) c end.

(* decode.rs:379-391 reset *)
Definition reset_st (d : dec) : dec := mkdec 0 (crc d) (Looking 0 0) 0 [].
Definition reset_cnt (d : dec) : N := match st d with Done => 0 | _ => raw d end.

(* decode.rs:420-426 push_inner; [None] = buffer full (the caller resets and returns OutOfMemory) *)
Definition push_inner (cap : cap_t) (d : dec) (b : byte) : option dec :=
  if fits cap (rbuf d) then Some (mkdec (raw d) (crc d) (st d) (zc d) (b :: rbuf d)) else None.

Fixpoint flush_n (cap : cap_t) (n : nat) (d : dec) : option dec :=
  match n with
  | O => Some d
  | S n' => match push_inner cap d 0 with Some d' => flush_n cap n' d' | None => None end
  end.

(* decode.rs:394-400 flush *)
Definition flush (cap : cap_t) (d : dec) : option dec :=
  match flush_n cap (N.to_nat (zc d)) d with
  | Some d' => Some (mkdec (raw d') (crc d') (st d') 0 (rbuf d'))
  | None => None
  end.

(* decode.rs:402-418 push *)
Definition push (cap : cap_t) (d : dec) (b : byte) : option dec :=
  if b =? 0 then
    if zc d <=? 3 then Some (mkdec (raw d) (crc d) (st d) (zc d + 1) (rbuf d))
    else push_inner cap d b
  else match flush cap d with
       | Some d' => push_inner cap d' b
       | None => None
       end.

Fixpoint push_many (cap : cap_t) (d : dec) (bs : list byte) : option dec :=
  match bs with
  | [] => Some d
  | b :: r => match push cap d b with Some d' => push_many cap d' r | None => None end
  end.

Definition set_st (d : dec) (s : dstate) : dec := mkdec (raw d) (crc d) s (zc d) (rbuf d).
Definition upd_crc (d : dec) (bs : list byte) : dec :=
  mkdec (raw d) (crc_update (crc d) bs) (st d) (zc d) (rbuf d).
Definition oom (d : dec) : dec * out := (reset_st d, OErr OutOfMemory).
Definition panic (d : dec) : dec * out := (reset_st d, OPanic).

(* CRC_X25.digest() updated with the start sequence *)
Definition crc_start : N := crc_update crc_init start_seq.

Definition all27 (l : list byte) : bool := forallb (fun x => x =? 27) l.
Definition set_nth (l : list byte) (i : nat) (b : byte) : list byte :=
  firstn i l ++ [b] ++ skipn (S i) l.

(* decode.rs:180-210 LookingForMessageStart (with the start-sequence fallback for 0x1b) *)
Definition step_looking (d : dec) (disc nseq : N) (b : byte) : dec * out :=
  if ((b =? 27) && (nseq <? 4)) || ((b =? 1) && (4 <=? nseq)) then
    if 255 <=? nseq then panic d                             (* u8 += 1 *)
    else
      let nseq' := nseq + 1 in
      if nseq' =? 8 then
        let d' := mkdec 8 crc_start Normal (zc d) (rbuf d) in
        if 0 <? disc then (d', OErr (DiscardedBytes disc)) else (d', ONone)
      else (set_st d (Looking disc nseq'), ONone)
  else if b =? 27 then
    let kept := if nseq =? 4 then 4 else 1 in
    if nseq <? kept then panic d                              (* u8 - u8 *)
    else (set_st d (Looking (disc + 1 + (nseq - kept)) kept), ONone)
  else (set_st d (Looking (disc + 1 + nseq) 0), ONone).

(* decode.rs:248-366: the fourth payload byte of an escape sequence has been stored *)
Definition step_payload_full (cap : cap_t) (d : dec) (pl : list byte) : dec * out :=
  if all27 pl then
    match push_many cap (upd_crc d pl) pl with
    | Some d' => (set_st d' Normal, ONone)
    | None => oom d
    end
  else if forallb (fun x => x =? 1) pl then
    if raw d <? 8 then panic d                                (* usize - 8 *)
    else (mkdec 8 crc_start Normal 0 [], OErr (DiscardedBytes (raw d - 8)))
  else if nth 0 pl 0 =? 26 then
    let npad := nth 1 pl 0 in
    let rd := nth 2 pl 0 + 256 * nth 3 pl 0 in
    let calc := crc_finalize (crc_update (crc d) [nth 0 pl 0; nth 1 pl 0]) in
    let d1 := mkdec (raw d) crc_init (st d) (zc d) (rbuf d) in
    let misaligned := negb (raw d mod 4 =? 0) in
    let too_large := 3 <? npad in
    let larger_than_msg := raw d <? npad + 16 in
    let invalid_pad := zc d <? npad in
    if negb (rd =? calc) || misaligned || too_large || larger_than_msg || invalid_pad then
      (reset_st d1, OErr (InvalidMessage rd calc misaligned npad invalid_pad))
    else
      match flush cap (mkdec (raw d1) (crc d1) (st d1) (zc d1 - npad) (rbuf d1)) with
      | Some d' => (set_st d' Done, OMsg)
      | None => oom d1
      end
  else
    let k := N.to_nat ((4 - raw d mod 4) mod 4) in
    if (Nat.ltb 0 k) && all27 (firstn k pl) && (nth k pl 0 =? 26) then
      match push_many cap (upd_crc d (firstn k pl)) (repeat 27 k) with
      | Some d' =>
          (* payload.copy_within(k.., 0): the tail keeps its old bytes *)
          (set_st d' (EscPayload (4 - N.of_nat k) (skipn k pl ++ skipn (4 - k) pl)), ONone)
      | None => oom d
      end
    else (reset_st d, OErr (InvalidEsc pl)).

(* decode.rs:176-370 push_byte *)
Definition step (cap : cap_t) (d0 : dec) (b : byte) : dec * out :=
  (* Done => reset, then push_byte again *)
  let d0' := match st d0 with Done => reset_st d0 | _ => d0 end in
  let d := mkdec (raw d0' + 1) (crc d0') (st d0') (zc d0') (rbuf d0') in
  match st d with
  | Looking disc nseq => step_looking d disc nseq b
  | Normal =>
      let d := upd_crc d [b] in
      if b =? 27 then (set_st d (EscChars 1), ONone)
      else match push cap d b with Some d' => (d', ONone) | None => oom d end
  | EscChars n =>
      let d := upd_crc d [b] in
      if negb (b =? 27) then
        match push_many cap d (repeat 27 (N.to_nat n) ++ [b]) with
        | Some d' => (set_st d' Normal, ONone)
        | None => oom d
        end
      else if n =? 3 then (set_st d (EscPayload 0 [0;0;0;0]), ONone)
      else if 255 <=? n then panic d                          (* u8 + 1 *)
      else (set_st d (EscChars (n + 1)), ONone)
  | EscPayload stp pl =>
      if 3 <? stp then panic d                                (* payload[step] *)
      else
      let pl := set_nth pl (N.to_nat stp) b in
      if stp <? 3 then (set_st d (EscPayload (stp + 1) pl), ONone)
      else step_payload_full cap d pl
  | Done => panic d (* unreachable: Done handled above *)
  end.

(* NonOwningDecoder::default *)
Definition init : dec := mkdec 0 crc_init (Looking 0 0) 0 [].

(* decode.rs:365-377 finalize *)
Definition finalize (d : dec) : dec * option derr :=
  (reset_st d,
   match st d with
   | Looking 0 0 => None
   | Done => None
   | _ => Some (DiscardedBytes (raw d))
   end).

(* decode.rs:379-391 reset *)
Definition reset (d : dec) : dec * N := (reset_st d, reset_cnt d).

(* ---------- histories of the public API of Decoder<B> ---------- *)
Inductive op := Push (b : byte) | Finalize | Reset | FromBuf.

Inductive ev :=
| EvPush (o : out) (m : list byte)   (* m = borrowed buffer when o = OMsg *)
| EvFin (e : option derr)
| EvReset (n : N)
| EvNew.

(* Decoder::push_byte also calls borrow_buf, which panics unless the state is Done *)
Definition do_op (cap : cap_t) (d : dec) (o : op) : dec * ev :=
  match o with
  | Push b =>
      let '(d', r) := step cap d b in
      match r with
      | OMsg => match st d' with
                | Done => (d', EvPush OMsg (frev (rbuf d')))
                | _ => (d', EvPush OPanic [])
                end
      | _ => (d', EvPush r [])
      end
  | Finalize => let '(d', e) := finalize d in (d', EvFin e)
  | Reset => let '(d', n) := reset d in (d', EvReset n)
  | FromBuf => (init, EvNew)
  end.

Fixpoint run_ops (cap : cap_t) (d : dec) (ops : list op) : dec * list ev :=
  match ops with
  | [] => (d, [])
  | o :: r => let '(d', e) := do_op cap d o in
              let '(d'', es) := run_ops cap d' r in
              (d'', e :: es)
  end.

(* pure byte streams *)
Fixpoint run (cap : cap_t) (d : dec) (bs : list byte) : dec * list (out * list byte) :=
  match bs with
  | [] => (d, [])
  | b :: r => let '(d', o) := step cap d b in
              let '(d'', os) := run cap d' r in
              (d'', (o, match o with OMsg => frev (rbuf d') | _ => [] end) :: os)
  end.
