(* EXECUTABLE MODEL of src/transport/encode.rs.  No proofs in this file. *)
Require Import Sml.Base.Prelude Sml.Base.Crc Sml.Spec.Frame Sml.Model.Decode.

(* ---------- the capacity-bounded buffer abstraction (util.rs Buffer) ---------- *)
(* reversed contents; [None] result = Err(OutOfMemory), contents unchanged *)
Definition bpush (cap : cap_t) (rb : list byte) (b : byte) : option (list byte) :=
  if fits cap rb then Some (b :: rb) else None.

Definition bextend (cap : cap_t) (rb : list byte) (l : list byte) : option (list byte) :=
  match cap with
  | None => Some (rev_append l rb)
  | Some c => if Nat.leb (length rb + length l) c then Some (rev_append l rb) else None
  end.

(* ---------- encode.rs:176-212 encode::<B> ---------- *)
Fixpoint enc_loop (cap : cap_t) (rb : list byte) (num_1b : N) (p : list byte) : option (list byte) :=
  match p with
  | [] => Some rb
  | b :: r =>
      let n := if b =? 27 then num_1b + 1 else 0 in
      match bpush cap rb b with
      | None => None
      | Some rb1 =>
          if n =? 4 then
            match bextend cap rb1 [27;27;27;27] with
            | None => None
            | Some rb2 => enc_loop cap rb2 0 r
            end
          else enc_loop cap rb1 n r
      end
  end.

Definition encode_buf (cap : cap_t) (p : list byte) : option (list byte) :=
  match bextend cap [] start_seq with
  | None => None
  | Some rb0 =>
  match enc_loop cap rb0 0 p with
  | None => None
  | Some rb1 =>
      let npad := Nat.modulo (4 - Nat.modulo (length rb1) 4) 4 in
      match bextend cap rb1 (firstn npad [0;0;0]) with
      | None => None
      | Some rb2 =>
      match bextend cap rb2 [27;27;27;27;26; N.of_nat npad] with
      | None => None
      | Some rb3 =>
          let c := crc16 (frev rb3) in
          match bextend cap rb3 [N.land c 255; N.shiftr c 8] with
          | None => None
          | Some rb4 => Some (frev rb4)
          end
      end
      end
  end
  end.

(* ---------- encode.rs:21-134 Encoder<I> (iterator) ---------- *)
Inductive estate :=
| EInit (n : N)
| ELook (n : N)
| EHandle (n : N)
| EEnd (n : Z).

(* [epad] is Padding(u8), wrapping; [eiter] the not yet consumed input *)
Record enc := mkenc { est : estate; ecrc : N; epad : N; eiter : list byte }.

Inductive eout := EByte (b : byte) | ENone | EPanic.

Definition set_est (e : enc) (s : estate) : enc := mkenc s (ecrc e) (epad e) (eiter e).

(* Encoder::new *)
Definition enc_new (p : list byte) : enc := mkenc (EInit 0) crc_start 0 p.

(* Padding::get *)
Definition pad_get (e : enc) : N := N.land (epad e) 3.

(* Iterator::next; the recursion through next_from_state has depth <= 3 (fuel) *)
Fixpoint enc_next (fuel : nat) (e : enc) : enc * eout :=
  match fuel with
  | O => (e, EPanic)
  | S f =>
    match est e with
    | EInit n =>
        if n <? 4 then (set_est e (EInit (n + 1)), EByte 27)
        else if n <? 8 then (set_est e (EInit (n + 1)), EByte 1)
        else if n =? 8 then enc_next f (set_est e (ELook 0))
        else (e, EPanic)                                       (* assert_eq!(n, 8) *)
    | ELook n =>
        if n <? 4 then
          match eiter e with
          | b :: r =>
              (* read_from_iter: padding.bump() = wrapping_sub(1) *)
              (mkenc (ELook ((n + 1) * (if b =? 27 then 1 else 0)))
                     (crc_update (ecrc e) [b]) ((epad e + 255) mod 256) r,
               EByte b)
          | [] =>
              let p := pad_get e in
              let c := crc_update (crc_update (ecrc e) (repeat 0 (N.to_nat p))) [27;27;27;27;26;p] in
              enc_next f (mkenc (EEnd (- Z.of_N p)) c (epad e) [])
          end
        else if n =? 4 then
          enc_next f (mkenc (EHandle 0) (crc_update (ecrc e) [27;27;27;27]) (epad e) (eiter e))
        else (e, EPanic)                                       (* assert_eq!(n, 4) *)
    | EHandle n =>
        if n <? 4 then (set_est e (EHandle (n + 1)), EByte 27)
        else if n =? 4 then enc_next f (set_est e (ELook 0))
        else (e, EPanic)
    | EEnd n =>
        let c := crc_finalize (ecrc e) in
        if (n <? 0)%Z then (set_est e (EEnd (n + 1)), EByte 0)
        else if (n <? 4)%Z then (set_est e (EEnd (n + 1)), EByte 27)
        else if (n =? 4)%Z then (set_est e (EEnd (n + 1)), EByte 26)
        else if (n =? 5)%Z then (set_est e (EEnd (n + 1)), EByte (pad_get e))
        else if (n =? 6)%Z then (set_est e (EEnd (n + 1)), EByte (N.land c 255))
        else if (n =? 7)%Z then (set_est e (EEnd (n + 1)), EByte (N.shiftr c 8))
        else if (n =? 8)%Z then (e, ENone)
        else (e, EPanic)                                       (* unreachable!() *)
    end
  end.

Definition enc_fuel : nat := 4.

(* collect until the first None (or panic); [lim] bounds the number of calls *)
Fixpoint enc_collect_from (lim : nat) (e : enc) (acc : list byte) : enc * list byte * eout :=
  match lim with
  | O => (e, frev acc, EPanic)
  | S l =>
      match enc_next enc_fuel e with
      | (e', EByte b) => enc_collect_from l e' (b :: acc)
      | (e', o) => (e', frev acc, o)
      end
  end.

(* an upper bound of the number of next() calls: every payload byte yields <= 5 bytes *)
Definition enc_limit (p : list byte) : nat := 5 * length p + 32.

Definition enc_collect (p : list byte) : list byte :=
  snd (fst (enc_collect_from (enc_limit p) (enc_new p) [])).

(* [k] further calls after the iterator has returned None *)
Fixpoint enc_after (k : nat) (e : enc) : list eout :=
  match k with
  | O => []
  | S k' => let '(e', o) := enc_next enc_fuel e in o :: enc_after k' e'
  end.
