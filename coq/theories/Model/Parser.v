(* EXECUTABLE MODEL of src/parser/{mod,tlf,num,octet_string,common,complete,streaming}.rs.
   No proofs in this file.

   - a parser takes the remaining input and returns [POk rest v], [PErr e] or [PPanic]
     (index out of range / arithmetic overflow in the debug build / fuel exhaustion);
   - u8/u16/u32/u64 values are N, i8..i64 values are Z; the width class is the constructor;
   - loops over the input ([File::parse], [List::parse_with_tlf]) use the input length as
     fuel: every successful message / list entry consumes at least one byte. *)
Require Import Sml.Base.Prelude Sml.Base.Crc.

(* ---------- errors: parser/mod.rs:27-43, tlf.rs:14-28 ---------- *)
Inductive tlf_err :=
| TlfLengthOverflow | TlfReserved | TlfLengthUnderflow | TlfNextByteTypeMismatch | TlfInvalidTy.

Inductive perr :=
| LeftoverInput | UnexpectedEOF | InvalidTlf (e : tlf_err) | TlfMismatch
| CrcMismatch | MsgEndMismatch | UnexpectedVariant.

Inductive pres (A : Type) :=
| POk (rest : list byte) (v : A)
| PErr (e : perr)
| PPanic.
Arguments POk {A}. Arguments PErr {A}. Arguments PPanic {A}.

Definition pbind {A B} (r : pres A) (f : list byte -> A -> pres B) : pres B :=
  match r with POk rest v => f rest v | PErr e => PErr e | PPanic => PPanic end.
Notation "'let*' ( i , x ) ':=' r 'in' k" := (pbind r (fun i x => k))
  (at level 200, i name, x name, r at level 100, k at level 200).

Definition pmap {A B} (r : pres A) (f : A -> B) : pres B :=
  match r with POk rest v => POk rest (f v) | PErr e => PErr e | PPanic => PPanic end.

(* ---------- parser/mod.rs:205-231 take_byte, take, take_n ---------- *)
Definition take_byte (input : list byte) : pres byte :=
  match input with [] => PErr UnexpectedEOF | b :: r => POk r b end.

Definition take_n (input : list byte) (n : N) : pres (list byte) :=
  if lenN input <? n then PErr UnexpectedEOF
  else POk (skipn (N.to_nat n) input) (firstn (N.to_nat n) input).

(* ---------- tlf.rs ---------- *)
Inductive ty := TOctet | TBool | TInt | TUns | TList.
Record tlf := mktlf { tty : ty; tlen : N }.

Definition ty_eqb (a b : ty) : bool :=
  match a, b with
  | TOctet, TOctet | TBool, TBool | TInt, TInt | TUns, TUns | TList, TList => true
  | _, _ => false
  end.
Definition tlf_eqb (a b : tlf) : bool := ty_eqb (tty a) (tty b) && (tlen a =? tlen b).

(* tlf.rs:101-107 tlf_byte: (has_more_bytes, ty bits, len nibble) *)
Definition tlf_byte (input : list byte) : pres (bool * N * N) :=
  let* (input, b) := take_byte input in
  POk input (negb (N.land b 0x80 =? 0), N.land (N.shiftr b 4) 0x07, N.land b 0x0F).

(* tlf.rs:134-146 Ty::from_byte *)
Definition ty_from_byte (t : N) : option ty :=
  if t =? 0 then Some TOctet
  else if t =? 4 then Some TBool
  else if t =? 5 then Some TInt
  else if t =? 6 then Some TUns
  else if t =? 7 then Some TList
  else None.

Definition u32_max : N := 4294967295.

(* tlf.rs:65-83 the `while has_more_bytes` loop; recursion on the input *)
Fixpoint tlf_loop (input : list byte) (len tlf_len : N) : pres (N * N) :=
  match input with
  | [] => PErr UnexpectedEOF                                   (* tlf_next_byte -> take_byte *)
  | b :: rest =>
      let more := negb (N.land b 0x80 =? 0) in
      let t := N.land (N.shiftr b 4) 0x07 in
      let l := N.land b 0x0F in
      if negb (t =? 0) then PErr (InvalidTlf TlfNextByteTypeMismatch)
      else if u32_max <? len * 16 then PErr (InvalidTlf TlfLengthOverflow)   (* checked_mul(16) *)
      else
        let len' := len * 16 + l in
        if u32_max <? len' then PPanic                          (* u32 += *)
        else if u32_max <? tlf_len + 1 then PPanic              (* u32 += 1 *)
        else if more then tlf_loop rest len' (tlf_len + 1)
        else POk rest (len', tlf_len + 1)
  end.

(* tlf.rs:55-99 TypeLengthField::parse *)
Definition tlf_parse (input : list byte) : pres tlf :=
  let* (input, x) := tlf_byte input in
  let '(more, t, len) := x in
  match ty_from_byte t with
  | None => PErr (InvalidTlf TlfInvalidTy)
  | Some ty =>
      if ty_eqb ty TBool && more then PErr (InvalidTlf TlfReserved)
      else
        let* (input, y) := (if more then tlf_loop input len 1 else POk input (len, 1)) in
        let '(len, tlf_len) := y in
        if ty_eqb ty TList then POk input (mktlf ty len)
        else if len <? tlf_len then PErr (InvalidTlf TlfLengthUnderflow)    (* checked_sub *)
        else POk input (mktlf ty (len - tlf_len))
  end.

(* parser/mod.rs:179-188 blanket impl: parse the TLF, check it, parse the rest *)
Definition with_tlf {A} (check : tlf -> bool) (p : list byte -> tlf -> pres A) (input : list byte) : pres A :=
  let* (input, t) := tlf_parse input in
  if check t then p input t else PErr TlfMismatch.

(* parser/mod.rs:190-199 Option<T> *)
Definition p_opt {A} (p : list byte -> pres A) (input : list byte) : pres (option A) :=
  match input with
  | 1 :: rest => POk rest None
  | _ => pmap (p input) Some
  end.

(* ---------- num.rs ---------- *)
Fixpoint be_val (acc : N) (bs : list byte) : N :=
  match bs with [] => acc | b :: r => be_val (acc * 256 + b) r end.

(* num.rs:9-37 parse_num::<SIZE, IS_SIGNED>; the buffer as a list of SIZE bytes *)
Definition parse_num (size : N) (signed : bool) (input : list byte) (t : tlf) : pres (list byte) :=
  let* (input, bytes) := take_n input (tlen t) in
  match (if signed then
           match bytes with
           | [] => None                                         (* bytes[0]: index out of range *)
           | b0 :: _ => Some (if 0x7F <? b0 then 0xFF else 0x00)
           end
         else Some 0x00) with
  | None => PPanic
  | Some fill =>
      if size <? tlen t then PPanic                             (* SIZE - tlf.len *)
      else POk input (repeat fill (N.to_nat (size - tlen t)) ++ bytes)
  end.

Definition num_check (int_ty : ty) (size : N) (t : tlf) : bool :=
  ty_eqb (tty t) int_ty && (tlen t <=? size) && negb (tlen t =? 0).

(* from_be_bytes *)
Definition uns_of (buf : list byte) : N := be_val 0 buf.
Definition int_of (size : N) (buf : list byte) : Z :=
  let v := Z.of_N (be_val 0 buf) in
  if (Z.pow 2 (8 * Z.of_N size - 1) <=? v)%Z then (v - Z.pow 2 (8 * Z.of_N size))%Z else v.

Definition uns_with_tlf (size : N) (input : list byte) (t : tlf) : pres N :=
  pmap (parse_num size false input t) uns_of.
Definition int_with_tlf (size : N) (input : list byte) (t : tlf) : pres Z :=
  pmap (parse_num size true input t) (int_of size).

Definition p_uns (size : N) : list byte -> pres N := with_tlf (num_check TUns size) (uns_with_tlf size).
Definition p_int (size : N) : list byte -> pres Z := with_tlf (num_check TInt size) (int_with_tlf size).
Definition p_u8 := p_uns 1.  Definition p_u16 := p_uns 2.
Definition p_u32 := p_uns 4. Definition p_u64 := p_uns 8.
Definition p_i8 := p_int 1.

(* num.rs:66-77 bool *)
Definition bool_check (t : tlf) : bool := tlf_eqb t (mktlf TBool 1).
Definition bool_with_tlf (input : list byte) (t : tlf) : pres bool :=
  let* (input, b) := take_byte input in POk input (0 <? b).

(* ---------- octet_string.rs:28-36 ---------- *)
Definition octet_check (t : tlf) : bool := ty_eqb (tty t) TOctet.
Definition octet_with_tlf (input : list byte) (t : tlf) : pres (list byte) := take_n input (tlen t).
Definition p_octet : list byte -> pres (list byte) := with_tlf octet_check octet_with_tlf.

(* ---------- common.rs ---------- *)
Inductive time := SecIndex (n : N).

(* common.rs:304-336 Time *)
Definition time_check (t : tlf) : bool :=
  (ty_eqb (tty t) TList && (tlen t =? 2)) || tlf_eqb t (mktlf TUns 4).
Definition time_with_tlf (input : list byte) (t : tlf) : pres time :=
  if tlf_eqb t (mktlf TUns 4) then
    (* Holley DTZ541 workaround: a bare u32 *)
    let* (input, bytes) := take_n input 4 in POk input (SecIndex (be_val 0 bytes))
  else
    let* (input, tag) := p_u8 input in
    if tag =? 1 then let* (input, x) := p_u32 input in POk input (SecIndex x)
    else PErr UnexpectedVariant.
Definition p_time : list byte -> pres time := with_tlf time_check time_with_tlf.

(* common.rs:229-262 Status *)
Inductive status := Status8 (n : N) | Status16 (n : N) | Status32 (n : N) | Status64 (n : N).
Definition status_with_tlf (input : list byte) (t : tlf) : pres status :=
  if num_check TUns 1 t then pmap (uns_with_tlf 1 input t) Status8
  else if num_check TUns 2 t then pmap (uns_with_tlf 2 input t) Status16
  else if num_check TUns 4 t then pmap (uns_with_tlf 4 input t) Status32
  else if num_check TUns 8 t then pmap (uns_with_tlf 8 input t) Status64
  else PErr TlfMismatch.
Definition p_status : list byte -> pres status := with_tlf (fun _ => true) status_with_tlf.

(* common.rs:139-227 Value, ListType *)
Inductive value :=
| VBool (b : bool) | VBytes (l : list byte)
| VI8 (z : Z) | VI16 (z : Z) | VI32 (z : Z) | VI64 (z : Z)
| VU8 (n : N) | VU16 (n : N) | VU32 (n : N) | VU64 (n : N)
| VList (t : time).

Definition listtype_check (t : tlf) : bool := ty_eqb (tty t) TList && (tlen t =? 2).
Definition listtype_with_tlf (input : list byte) (t : tlf) : pres time :=
  let* (input, tag) := p_u8 input in
  if tag =? 1 then p_time input else PErr UnexpectedVariant.

Definition value_with_tlf (input : list byte) (t : tlf) : pres value :=
  if bool_check t then pmap (bool_with_tlf input t) VBool
  else if octet_check t then pmap (octet_with_tlf input t) VBytes
  else if num_check TInt 1 t then pmap (int_with_tlf 1 input t) VI8
  else if num_check TInt 2 t then pmap (int_with_tlf 2 input t) VI16
  else if num_check TInt 4 t then pmap (int_with_tlf 4 input t) VI32
  else if num_check TInt 8 t then pmap (int_with_tlf 8 input t) VI64
  else if num_check TUns 1 t then pmap (uns_with_tlf 1 input t) VU8
  else if num_check TUns 2 t then pmap (uns_with_tlf 2 input t) VU16
  else if num_check TUns 4 t then pmap (uns_with_tlf 4 input t) VU32
  else if num_check TUns 8 t then pmap (uns_with_tlf 8 input t) VU64
  else if listtype_check t then pmap (listtype_with_tlf input t) VList
  else PErr TlfMismatch.
Definition p_value : list byte -> pres value := with_tlf (fun _ => true) value_with_tlf.

(* common.rs:71-126 ListEntry *)
Record list_entry := mkle {
  obj_name : list byte; le_status : option status; val_time : option time; le_unit : option N;
  scaler : option Z; le_value : value; value_signature : option (list byte) }.

Definition le_with_tlf (input : list byte) (t : tlf) : pres list_entry :=
  let* (input, a) := p_octet input in
  let* (input, b) := p_opt p_status input in
  let* (input, c) := p_opt p_time input in
  let* (input, d) := p_opt p_u8 input in
  let* (input, e) := p_opt p_i8 input in
  let* (input, f) := p_value input in
  let* (input, g) := p_opt p_octet input in
  POk input (mkle a b c d e f g).
Definition list_is (n : N) (t : tlf) : bool := tlf_eqb t (mktlf TList n).
Definition p_list_entry : list byte -> pres list_entry := with_tlf (list_is 7) le_with_tlf.

(* common.rs:18-69 OpenResponse *)
Record open_response := mkopen {
  codepage : option (list byte); o_client_id : option (list byte); req_file_id : list byte;
  o_server_id : list byte; ref_time : option time; sml_version : option N }.
Definition open_with_tlf (input : list byte) (t : tlf) : pres open_response :=
  let* (input, a) := p_opt p_octet input in
  let* (input, b) := p_opt p_octet input in
  let* (input, c) := p_octet input in
  let* (input, d) := p_octet input in
  let* (input, e) := p_opt p_time input in
  let* (input, f) := p_opt p_u8 input in
  POk input (mkopen a b c d e f).
Definition p_open : list byte -> pres open_response := with_tlf (list_is 6) open_with_tlf.

(* common.rs:266-289 CloseResponse *)
Definition close_with_tlf (input : list byte) (t : tlf) : pres (option (list byte)) :=
  p_opt p_octet input.
Definition p_close : list byte -> pres (option (list byte)) := with_tlf (list_is 1) close_with_tlf.

(* common.rs:291-302 EndOfSmlMessage *)
Definition p_end_of_msg (input : list byte) : pres unit :=
  let* (input, b) := take_byte input in
  if negb (b =? 0) then PErr MsgEndMismatch else POk input tt.

(* ---------- complete.rs ---------- *)
Record get_list_response := mkglr {
  g_client_id : option (list byte); g_server_id : list byte; list_name : option (list byte);
  act_sensor_time : option time; val_list : list list_entry;
  list_signature : option (list byte); act_gateway_time : option time }.

Inductive body :=
| BOpen (o : open_response) | BClose (sig : option (list byte)) | BGetList (g : get_list_response).

Record message := mkmsg {
  transaction_id : list byte; group_no : N; abort_on_error : N; message_body : body }.

(* complete.rs:243-260 List::parse_with_tlf: `for _ in 0..tlf.len`; fuel = input length *)
Fixpoint list_loop (fuel : nat) (n : N) (input : list byte) : pres (list list_entry) :=
  if n =? 0 then POk input []
  else
    match fuel with
    | O => (* no byte left: the next entry fails; it cannot succeed on empty input *)
        match p_list_entry input with
        | POk _ _ => PPanic
        | PErr e => PErr e
        | PPanic => PPanic
        end
    | S f =>
        let* (input, x) := p_list_entry input in
        let* (input, xs) := list_loop f (n - 1) input in
        POk input (x :: xs)
    end.

(* the element count handed to Vec::with_capacity (complete.rs:249) *)
Definition list_reservation (t : tlf) (input : list byte) : N := N.min (tlen t) (lenN input).

Definition p_list (input : list byte) : pres (list list_entry) :=
  with_tlf (fun t => ty_eqb (tty t) TList) (fun input t => list_loop (length input) (tlen t) input) input.

(* complete.rs:187-215 GetListResponse *)
Definition glr_with_tlf (input : list byte) (t : tlf) : pres get_list_response :=
  let* (input, a) := p_opt p_octet input in
  let* (input, b) := p_octet input in
  let* (input, c) := p_opt p_octet input in
  let* (input, d) := p_opt p_time input in
  let* (input, e) := p_list input in
  let* (input, f) := p_opt p_octet input in
  let* (input, g) := p_opt p_time input in
  POk input (mkglr a b c d e f g).
Definition p_glr : list byte -> pres get_list_response := with_tlf (list_is 7) glr_with_tlf.

(* complete.rs:143-166 MessageBody *)
Definition body_check (t : tlf) : bool := ty_eqb (tty t) TList && (tlen t =? 2).
Definition body_with_tlf (input : list byte) (t : tlf) : pres body :=
  let* (input, tag) := p_u32 input in
  if tag =? 0x101 then pmap (p_open input) BOpen
  else if tag =? 0x201 then pmap (p_close input) BClose
  else if tag =? 0x701 then pmap (p_glr input) BGetList
  else PErr UnexpectedVariant.
Definition p_body : list byte -> pres body := with_tlf body_check body_with_tlf.

Definition swap16 (c : N) : N := (c mod 256) * 256 + c / 256.

(* complete.rs:71-104 Message::parse *)
Definition p_message (input_orig : list byte) : pres message :=
  let* (input, t) := tlf_parse input_orig in
  if negb (ty_eqb (tty t) TList) || negb (tlen t =? 6) then PErr TlfMismatch
  else
    let* (input, tid) := p_octet input in
    let* (input, g) := p_u8 input in
    let* (input, a) := p_u8 input in
    let* (input, b) := p_body input in
    if lenN input_orig <? lenN input then PPanic                (* usize subtraction *)
    else
      let num_bytes_read := (length input_orig - length input)%nat in
      let* (input, crc) := p_u16 input in
      let* (input, _x) := p_end_of_msg input in
      let digest := swap16 (crc16 (firstn num_bytes_read input_orig)) in
      if negb (digest =? crc) then PErr CrcMismatch
      else POk input (mkmsg tid g a b).

(* complete.rs:44-55 File::parse: `while !input.is_empty()`; fuel = input length *)
Fixpoint file_loop (fuel : nat) (input : list byte) : pres (list message) :=
  match input with
  | [] => POk [] []
  | _ :: _ =>
      match fuel with
      | O => PPanic
      | S f =>
          let* (input, m) := p_message input in
          let* (input, ms) := file_loop f input in
          POk input (m :: ms)
      end
  end.

(* complete.rs:263-265 parse = File::parse_complete *)
Inductive parse_result := FileOk (f : list message) | FileErr (e : perr) | FilePanic.
Definition parse (input : list byte) : parse_result :=
  match file_loop (length input) input with
  | POk [] f => FileOk f
  | POk _ _ => FileErr LeftoverInput
  | PErr e => FileErr e
  | PPanic => FilePanic
  end.

(* ---------- streaming.rs ---------- *)
Record glr_start := mkgs {
  s_client_id : option (list byte); s_server_id : list byte; s_list_name : option (list byte);
  s_act_sensor_time : option time; num_vals : N }.

Inductive sbody :=
| SOpen (o : open_response) | SClose (sig : option (list byte)) | SGetList (g : glr_start).

Record message_start := mkms {
  ms_transaction_id : list byte; ms_group_no : N; ms_abort_on_error : N; ms_body : sbody }.

Inductive event :=
| EMessageStart (m : message_start)
| EGetListEnd (sig : option (list byte)) (gw : option time)
| EListEntry (e : list_entry).

(* streaming.rs:210-236 GetListResponseStart *)
Definition gs_with_tlf (input : list byte) (t : tlf) : pres glr_start :=
  let* (input, a) := p_opt p_octet input in
  let* (input, b) := p_octet input in
  let* (input, c) := p_opt p_octet input in
  let* (input, d) := p_opt p_time input in
  let* (input, t2) := tlf_parse input in
  if negb (ty_eqb (tty t2) TList) then PErr TlfMismatch
  else POk input (mkgs a b c d (tlen t2)).
Definition p_gs : list byte -> pres glr_start := with_tlf (list_is 7) gs_with_tlf.

(* streaming.rs:176-198 MessageBody *)
Definition sbody_with_tlf (input : list byte) (t : tlf) : pres sbody :=
  let* (input, tag) := p_u32 input in
  if tag =? 0x101 then pmap (p_open input) SOpen
  else if tag =? 0x201 then pmap (p_close input) SClose
  else if tag =? 0x701 then pmap (p_gs input) SGetList
  else PErr UnexpectedVariant.
Definition p_sbody : list byte -> pres sbody := with_tlf body_check sbody_with_tlf.

(* streaming.rs:126-146 MessageStart::parse *)
Definition p_message_start (input : list byte) : pres message_start :=
  let* (input, t) := tlf_parse input in
  if negb (ty_eqb (tty t) TList) || negb (tlen t =? 6) then PErr TlfMismatch
  else
    let* (input, tid) := p_octet input in
    let* (input, g) := p_u8 input in
    let* (input, a) := p_u8 input in
    let* (input, b) := p_sbody input in
    POk input (mkms tid g a b).

(* streaming.rs:262-273 GetListResponseEnd *)
Definition p_gle (input : list byte) : pres (option (list byte) * option time) :=
  let* (input, a) := p_opt p_octet input in
  let* (input, b) := p_opt p_time input in
  POk input (a, b).

(* streaming.rs:16-20 Parser; [pending] is the u64 countdown *)
Record sparser := mksp { sp_input : list byte; sp_msg_input : list byte; pending : N }.
Definition sp_new (input : list byte) : sparser := mksp input [] 0.

Inductive snext := SNone | SEvent (e : event) | SErr (e : perr) | SPanic.

Definition u64_max : N := 18446744073709551615.

(* streaming.rs:31-83 parse_next; the recursion after the CRC step has depth 1 (fuel) *)
Fixpoint sp_parse_next (fuel : nat) (s : sparser) : sparser * snext :=
  match fuel with
  | O => (s, SPanic)
  | S f =>
    if (match sp_input s with [] => true | _ => false end) && (pending s =? 0) then (s, SNone)
    else if pending s =? 0 then
      let s := mksp (sp_input s) (sp_input s) (pending s) in
      match p_message_start (sp_input s) with
      | POk input m =>
          let pend := match ms_body m with
                      | SGetList g => num_vals g + 2
                      | _ => 1
                      end in
          if u64_max <? pend then (s, SPanic)
          else (mksp input (sp_msg_input s) pend, SEvent (EMessageStart m))
      | PErr e => (s, SErr e)
      | PPanic => (s, SPanic)
      end
    else if pending s =? 1 then
      if lenN (sp_msg_input s) <? lenN (sp_input s) then (s, SPanic)
      else
      let num_bytes_read := (length (sp_msg_input s) - length (sp_input s))%nat in
      match p_u16 (sp_input s) with
      | POk input crc =>
          match p_end_of_msg input with
          | POk input _ =>
              let s := mksp input (sp_msg_input s) (pending s) in
              let digest := swap16 (crc16 (firstn num_bytes_read (sp_msg_input s))) in
              if negb (digest =? crc) then (s, SErr CrcMismatch)
              else sp_parse_next f (mksp (sp_input s) (sp_msg_input s) 0)
          | PErr e => (s, SErr e)
          | PPanic => (s, SPanic)
          end
      | PErr e => (s, SErr e)
      | PPanic => (s, SPanic)
      end
    else if pending s =? 2 then
      match p_gle (sp_input s) with
      | POk input (sig, gw) => (mksp input (sp_msg_input s) 1, SEvent (EGetListEnd sig gw))
      | PErr e => (s, SErr e)
      | PPanic => (s, SPanic)
      end
    else
      match p_list_entry (sp_input s) with
      | POk input le => (mksp input (sp_msg_input s) (pending s - 1), SEvent (EListEntry le))
      | PErr e => (s, SErr e)
      | PPanic => (s, SPanic)
      end
  end.

(* streaming.rs:86-101 Iterator::next *)
Definition sp_next (s : sparser) : sparser * snext :=
  let '(s', r) := sp_parse_next 2 s in
  match r with
  | SErr e => (mksp [] (sp_msg_input s') 0, r)
  | _ => (s', r)
  end.

(* [k] calls of next() *)
Fixpoint sp_calls (k : nat) (s : sparser) : list snext :=
  match k with
  | O => []
  | S k' => let '(s', r) := sp_next s in r :: sp_calls k' s'
  end.
