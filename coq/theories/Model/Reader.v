(* EXECUTABLE MODEL of the reader front-ends: byte sources (util.rs:174-371),
   DecoderReader (decoder_reader.rs:66-141) and SmlReader (lib.rs:378-480, 605-669).
   No proofs in this file. *)
Require Import Sml.Base.Prelude Sml.Base.Crc Sml.Spec.Frame Sml.Model.Decode Sml.Model.Frontends.
Require Import Sml.Model.Parser.

(* what one call of the underlying reader returns *)
Inductive sev :=
| SByte (b : byte)
| SWouldBlock
| SInterrupted     (* io::ErrorKind::Interrupted: retried inside read_exact *)
| SOther           (* any other error *)
| SZero.           (* io::Read::read returned Ok(0) *)

Inductive skind :=
| KSlice           (* SliceByteSource / IterByteSource: bytes, then Eof forever *)
| KIo              (* IoByteSource over std::io::Read: read_exact on one byte *)
| KEh.             (* EhByteSource over embedded_hal::serial::Read: never Eof *)

Inductive errkind := EkEof | EkWouldBlock | EkOther.

(* ByteSource::read_byte *)
Fixpoint src_read (k : skind) (evs : list sev) : list sev * (byte + errkind) :=
  match evs with
  | [] => ([], inr (match k with KEh => EkWouldBlock | _ => EkEof end))
  | e :: r =>
      match e with
      | SByte b => (r, inl b)
      | SWouldBlock => (r, inr EkWouldBlock)
      | SInterrupted => match k with KIo => src_read k r | _ => (r, inr EkOther) end
      | SOther => (r, inr EkOther)
      | SZero => (r, inr (match k with KIo => EkEof | _ => EkOther end))
      end
  end.

Record reader := mkrd { rd_dec : dec; rd_kind : skind; rd_src : list sev }.
Definition rd_new (k : skind) (evs : list sev) : reader := mkrd init k evs.

(* Result<&[u8], ReadDecodedError<E>> (and a panic of the call) *)
Inductive rdres :=
| RdOk (m : list byte)
| RdDecErr (e : derr)
| RdIoErr (k : errkind) (n : N)
| RdPanic.

(* decoder_reader.rs:66-89 read(): fuel = number of source events + 1 *)
Fixpoint dr_read_loop (fuel : nat) (cap : cap_t) (r : reader) : reader * rdres :=
  match fuel with
  | O => (r, RdPanic)
  | S f =>
      let '(src', x) := src_read (rd_kind r) (rd_src r) in
      match x with
      | inl b =>
          let '(d', o) := push_res cap (rd_dec r) b in
          let r' := mkrd d' (rd_kind r) src' in
          match o with
          | None => dr_read_loop f cap r'
          | Some (RMsg m) => (r', RdOk m)
          | Some (RErr e) => (r', RdDecErr e)
          | Some RPanic => (r', RdPanic)
          end
      | inr k =>
          match k with
          | EkWouldBlock => (mkrd (rd_dec r) (rd_kind r) src', RdIoErr k 0)
          | _ => let '(d', n) := reset (rd_dec r) in (mkrd d' (rd_kind r) src', RdIoErr k n)
          end
      end
  end.

Definition dr_read (cap : cap_t) (r : reader) : reader * rdres :=
  dr_read_loop (S (length (rd_src r))) cap r.

(* decoder_reader.rs:103-108 next() *)
Definition dr_next (cap : cap_t) (r : reader) : reader * option rdres :=
  let '(r', x) := dr_read cap r in
  match x with
  | RdIoErr EkEof 0 => (r', None)
  | _ => (r', Some x)
  end.

(* nb::Result *)
Inductive nbres (A : Type) := NbOk (a : A) | NbWouldBlock | NbOther (e : rdres).
Arguments NbOk {A}. Arguments NbWouldBlock {A}. Arguments NbOther {A}.

(* decoder_reader.rs:119-124 read_nb(); the Ok case carries the message *)
Definition dr_read_nb (cap : cap_t) (r : reader) : reader * nbres (list byte) :=
  let '(r', x) := dr_read cap r in
  match x with
  | RdOk m => (r', NbOk m)
  | RdIoErr EkWouldBlock _ => (r', NbWouldBlock)
  | _ => (r', NbOther x)
  end.

(* decoder_reader.rs:135-141 next_nb() *)
Definition dr_next_nb (cap : cap_t) (r : reader) : reader * nbres (option (list byte)) :=
  let '(r', x) := dr_read_nb cap r in
  match x with
  | NbOther (RdIoErr EkEof 0) => (r', NbOk None)
  | NbOther e => (r', NbOther e)
  | NbWouldBlock => (r', NbWouldBlock)
  | NbOk m => (r', NbOk (Some m))
  end.

(* ---------- SmlReader: lib.rs ---------- *)
Inductive target := TBytes | TFile | TParser.
Inductive meth := MRead | MNext | MReadNb | MNextNb.

(* what a call yields, for every target type *)
Inductive item :=
| IBytes (m : list byte)
| IFile (f : list message)
| IEvents (evs : list snext)          (* Parser::new(bytes), drained: the event sequence *)
| IParseErr (e : perr)
| IDecErr (e : derr)
| IIoErr (k : errkind) (n : N)
| IPanic.

Inductive callres := CItem (i : item) | CNone | CWouldBlock.

(* the parser is drained with |m| + 2 calls of next() *)
Definition drain_parser (m : list byte) : list snext := sp_calls (length m + 2) (sp_new m).

(* lib.rs:605-669 T::parse_from(Result<&[u8], ReadDecodedError>) *)
Definition parse_from (t : target) (x : rdres) : item :=
  match x with
  | RdOk m =>
      match t with
      | TBytes => IBytes m
      | TFile => match parse m with
                 | FileOk f => IFile f
                 | FileErr e => IParseErr e
                 | FilePanic => IPanic
                 end
      | TParser => IEvents (drain_parser m)
      end
  | RdDecErr e => IDecErr e
  | RdIoErr k n => IIoErr k n
  | RdPanic => IPanic
  end.

(* lib.rs:378-480 read / next / read_nb / next_nb *)
Definition sr_call (cap : cap_t) (mt : meth) (t : target) (r : reader) : reader * callres :=
  match mt with
  | MRead => let '(r', x) := dr_read cap r in (r', CItem (parse_from t x))
  | MNext => let '(r', x) := dr_next cap r in
             (r', match x with None => CNone | Some y => CItem (parse_from t y) end)
  | MReadNb => let '(r', x) := dr_read_nb cap r in
               (r', match x with
                    | NbOk m => CItem (parse_from t (RdOk m))
                    | NbWouldBlock => CWouldBlock
                    | NbOther e => CItem (parse_from t e)
                    end)
  | MNextNb => let '(r', x) := dr_next_nb cap r in
               (r', match x with
                    | NbOk None => CNone
                    | NbOk (Some m) => CItem (parse_from t (RdOk m))
                    | NbWouldBlock => CWouldBlock
                    | NbOther e => CItem (parse_from t e)
                    end)
  end.

Fixpoint sr_calls (cap : cap_t) (calls : list (meth * target)) (r : reader) : list callres :=
  match calls with
  | [] => []
  | (mt, t) :: cs => let '(r', x) := sr_call cap mt t r in x :: sr_calls cap cs r'
  end.
