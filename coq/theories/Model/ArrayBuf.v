(* EXECUTABLE MODEL of util.rs:79-150 ArrayBuf<N>: a backing array of N bytes (stale bytes
   kept) and [num_elements].  No proofs in this file. *)
Require Import Sml.Base.Prelude.

Record abuf := mkab { ab_buf : list byte; ab_num : nat }.

(* Default: [0; N], 0 *)
Definition ab_default (n : nat) : abuf := mkab (repeat 0 n) 0.

Inductive ares := AOk | AOom | APanic.

(* Deref: &self.buffer[0..self.num_elements] (panics when out of range) *)
Definition ab_deref (a : abuf) : option (list byte) :=
  if Nat.leb (ab_num a) (length (ab_buf a)) then Some (firstn (ab_num a) (ab_buf a)) else None.

Definition set_at (l : list byte) (i : nat) (b : byte) : list byte :=
  firstn i l ++ [b] ++ skipn (S i) l.

(* Buffer::push *)
Definition ab_push (n : nat) (a : abuf) (b : byte) : abuf * ares :=
  if Nat.eqb (ab_num a) n then (a, AOom)
  else if Nat.ltb (ab_num a) (length (ab_buf a))                 (* self.buffer[num] = b *)
       then (mkab (set_at (ab_buf a) (ab_num a) b) (S (ab_num a)), AOk)
       else (a, APanic).

(* Buffer::truncate *)
Definition ab_truncate (a : abuf) (len : nat) : abuf := mkab (ab_buf a) (Nat.min (ab_num a) len).

(* Buffer::clear *)
Definition ab_clear (a : abuf) : abuf := mkab (ab_buf a) 0.

(* Buffer::extend_from_slice *)
Definition ab_extend (n : nat) (a : abuf) (l : list byte) : abuf * ares :=
  if Nat.ltb n (ab_num a + length l) then (a, AOom)
  else if Nat.leb (ab_num a + length l) (length (ab_buf a))      (* buffer[num..][..len] *)
       then (mkab (firstn (ab_num a) (ab_buf a) ++ l ++ skipn (ab_num a + length l) (ab_buf a))
                  (ab_num a + length l), AOk)
       else (a, APanic).

(* FromIterator: push(x).unwrap() *)
Fixpoint ab_from_loop (n : nat) (a : abuf) (l : list byte) : option abuf :=
  match l with
  | [] => Some a
  | b :: r => match ab_push n a b with
              | (a', AOk) => ab_from_loop n a' r
              | _ => None
              end
  end.
Definition ab_from_iter (n : nat) (l : list byte) : option abuf := ab_from_loop n (ab_default n) l.

(* PartialEq: **self == **other *)
Definition ab_eq (a b : abuf) : option bool :=
  match ab_deref a, ab_deref b with
  | Some x, Some y => Some (if list_eq_dec N.eq_dec x y then true else false)
  | _, _ => None
  end.

Inductive aop := OpPush (b : byte) | OpExtend (l : list byte) | OpTruncate (k : nat) | OpClear.

Definition ab_do (n : nat) (a : abuf) (o : aop) : abuf * ares :=
  match o with
  | OpPush b => ab_push n a b
  | OpExtend l => ab_extend n a l
  | OpTruncate k => (ab_truncate a k, AOk)
  | OpClear => (ab_clear a, AOk)
  end.

(* after every operation: its result and the visible contents *)
Fixpoint ab_run (n : nat) (a : abuf) (ops : list aop) : list (ares * option (list byte)) :=
  match ops with
  | [] => []
  | o :: r => let '(a', x) := ab_do n a o in (x, ab_deref a') :: ab_run n a' r
  end.

Fixpoint ab_state (n : nat) (a : abuf) (ops : list aop) : abuf :=
  match ops with
  | [] => a
  | o :: r => ab_state n (fst (ab_do n a o)) r
  end.
