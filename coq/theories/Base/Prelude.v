(* Common imports, notations, small list lemmas and tactics used everywhere. *)
From Coq Require Export List NArith ZArith Lia Bool Arith.
From Coq Require Export ZifyBool ZifyNat ZifyN.
Export ListNotations.

#[global] Open Scope N_scope.

(* lia handles nat/N/Z [mod] and [/] *)
Ltac Zify.zify_post_hook ::= Z.div_mod_to_equations.

(* A byte is an [N]; theorems that need [b < 256] say so with [bytes_ok]. *)
Notation byte := N (only parsing).

Definition bytes_ok (l : list byte) : Prop := Forall (fun b => b < 256) l.

Definition lenN {A} (l : list A) : N := N.of_nat (length l).

Arguments N.add : simpl never.
Arguments N.sub : simpl never.
Arguments N.mul : simpl never.
Arguments N.eqb : simpl never.
Arguments N.ltb : simpl never.
Arguments N.leb : simpl never.
Arguments N.modulo : simpl never.
Arguments N.div : simpl never.

Lemma repeat_snoc {A} (x : A) n : repeat x n ++ [x] = repeat x (S n).
Proof. induction n as [|n IH]; simpl; [reflexivity|]. rewrite IH. reflexivity. Qed.

Lemma lenN_app {A} (a b : list A) : lenN (a ++ b) = lenN a + lenN b.
Proof. unfold lenN. rewrite app_length. lia. Qed.

Lemma lenN_repeat {A} (x : A) n : lenN (repeat x n) = N.of_nat n.
Proof. unfold lenN. rewrite repeat_length. reflexivity. Qed.

Lemma lenN_cons {A} (x : A) l : lenN (x :: l) = 1 + lenN l.
Proof. unfold lenN. cbn [length]. lia. Qed.

Lemma lenN_nil {A} : lenN (@nil A) = 0.
Proof. reflexivity. Qed.

Lemma Forall_snoc {A} (P : A -> Prop) l x : Forall P l -> P x -> Forall P (l ++ [x]).
Proof. intros. apply Forall_app. split; auto. Qed.

Lemma bytes_ok_app a b : bytes_ok (a ++ b) <-> bytes_ok a /\ bytes_ok b.
Proof. apply Forall_app. Qed.

Lemma bytes_ok_repeat x n : x < 256 -> bytes_ok (repeat x n).
Proof. intros H. induction n; simpl; constructor; auto. Qed.

(* evaluate closed [N.to_nat x] subterms *)
Ltac norm_nat :=
  repeat match goal with
  | |- context [N.to_nat ?x] =>
      let v := eval vm_compute in (N.to_nat x) in
      progress change (N.to_nat x) with v
  | H : context [N.to_nat ?x] |- _ =>
      let v := eval vm_compute in (N.to_nat x) in
      progress change (N.to_nat x) with v in H
  end.

(* all 256 byte values: a finite sweep lifted to a quantified statement *)
Definition all_bytes : list N := map N.of_nat (seq 0 256).

Lemma all_bytes_complete b : b < 256 -> In b all_bytes.
Proof.
  intros H. unfold all_bytes. apply in_map_iff. exists (N.to_nat b). split; [lia|].
  apply in_seq. lia.
Qed.

Lemma byte_sweep (P : N -> bool) :
  forallb P all_bytes = true -> forall b, b < 256 -> P b = true.
Proof.
  intros H b Hb. eapply forallb_forall in H; [exact H|]. apply all_bytes_complete; assumption.
Qed.

(* linear-time reversal for the executable model ([rev] is quadratic once extracted) *)
Definition frev {A} (l : list A) : list A := rev_append l [].
Lemma frev_eq {A} (l : list A) : frev l = rev l.
Proof. unfold frev. rewrite rev_append_rev, app_nil_r. reflexivity. Qed.
