(* CRC-16/X.25 (CRC_16_IBM_SDLC): reflected, poly 0x1021 (reflected 0x8408), init 0xffff,
   xorout 0xffff.  Models util.rs:5 [CRC_X25] and the [crc] crate's [Digest]:
   [digest()] = [crc_init], [update] = [crc_update], [finalize] = [crc_finalize],
   [checksum] = [crc16]. *)
Require Import Sml.Base.Prelude.

Fixpoint crc_bit (n : nat) (c : N) : N :=
  match n with
  | O => c
  | S n' => crc_bit n' (if N.testbit c 0 then N.lxor (N.shiftr c 1) 0x8408 else N.shiftr c 1)
  end.

Definition crc_step (c : N) (b : byte) : N := crc_bit 8 (N.lxor c b).
Definition crc_init : N := 0xffff.
Definition crc_update (c : N) (bs : list byte) : N := fold_left crc_step bs c.
Definition crc_finalize (c : N) : N := N.lxor c 0xffff.
Definition crc16 (bs : list byte) : N := crc_finalize (crc_update crc_init bs).

Lemma crc_update_app c a b : crc_update c (a ++ b) = crc_update (crc_update c a) b.
Proof. unfold crc_update. apply fold_left_app. Qed.

Lemma crc_update_nil c : crc_update c [] = c.
Proof. reflexivity. Qed.

(* catalogue check value of CRC-16/IBM-SDLC *)
Example crc_check : crc16 [49;50;51;52;53;54;55;56;57] = 0x906E.
Proof. vm_compute. reflexivity. Qed.
