(* Characterising lemmas for the buffer helpers of the decoder model
   (push_inner / flush / push / push_many): later proofs depend on these only. *)
Require Import Sml.Base.Prelude Sml.Base.Crc Sml.Spec.Frame Sml.Model.Decode.

(* the logical content of the buffer: what has been pushed, withheld zeros included *)
Definition data (d : dec) : list byte := rev (rbuf d) ++ repeat 0 (N.to_nat (zc d)).

Lemma push_inner_spec cap d b d' :
  push_inner cap d b = Some d' ->
  rbuf d' = b :: rbuf d /\ raw d' = raw d /\ crc d' = crc d /\ st d' = st d /\ zc d' = zc d.
Proof.
  unfold push_inner. destruct (fits cap (rbuf d)); intros H; inversion H; subst; simpl; auto.
Qed.

Lemma flush_n_spec cap n : forall d d',
  flush_n cap n d = Some d' ->
  rev (rbuf d') = rev (rbuf d) ++ repeat 0 n /\ raw d' = raw d /\ crc d' = crc d /\ st d' = st d /\ zc d' = zc d.
Proof.
  induction n as [|n IH]; intros d d' H; simpl in H.
  - inversion H; subst. rewrite app_nil_r. auto.
  - destruct (push_inner cap d 0) as [d1|] eqn:E; [|discriminate].
    apply push_inner_spec in E. destruct E as (Eb & Er & Ec & Es & Ez).
    apply IH in H. destruct H as (Hb & Hr & Hc & Hs & Hz).
    rewrite Hb, Eb. simpl. rewrite <- app_assoc. simpl.
    repeat split; congruence.
Qed.

Lemma flush_spec cap d d' :
  flush cap d = Some d' ->
  rev (rbuf d') = data d /\ zc d' = 0 /\ raw d' = raw d /\ crc d' = crc d /\ st d' = st d.
Proof.
  unfold flush. destruct (flush_n cap (N.to_nat (zc d)) d) as [d1|] eqn:E; [|discriminate].
  intros H; inversion H; subst; clear H. simpl.
  apply flush_n_spec in E. unfold data. intuition congruence.
Qed.

Lemma push_spec cap d b d' :
  zc d <= 4 ->
  push cap d b = Some d' ->
  data d' = data d ++ [b] /\ raw d' = raw d /\ crc d' = crc d /\ st d' = st d /\ zc d' <= 4.
Proof.
  intros Hz. unfold push.
  destruct (N.eqb_spec b 0) as [->|Hb].
  - destruct (N.leb_spec (zc d) 3) as [Hle|Hgt].
    + intros H; inversion H; subst; clear H. unfold data; simpl.
      replace (N.to_nat (zc d + 1)) with (S (N.to_nat (zc d))) by lia.
      rewrite <- repeat_snoc, app_assoc. repeat split; auto; lia.
    + intros H. apply push_inner_spec in H. destruct H as (Eb & Er & Ec & Es & Ez).
      unfold data. rewrite Eb, Ez. simpl.
      repeat split; try congruence; try lia.
      rewrite <- !app_assoc. f_equal. simpl.
      change (0 :: repeat 0 (N.to_nat (zc d))) with (repeat 0 (S (N.to_nat (zc d)))).
      rewrite <- repeat_snoc. reflexivity.
  - destruct (flush cap d) as [d1|] eqn:E; [|discriminate].
    intros H. apply push_inner_spec in H. destruct H as (Eb & Er & Ec & Es & Ez).
    apply flush_spec in E. destruct E as (Fb & Fz & Fr & Fc & Fs).
    unfold data at 1. rewrite Eb, Ez, Fz. simpl. rewrite Fb, app_nil_r.
    repeat split; try congruence. lia.
Qed.

Lemma push_many_spec cap bs : forall d d',
  zc d <= 4 ->
  push_many cap d bs = Some d' ->
  data d' = data d ++ bs /\ raw d' = raw d /\ crc d' = crc d /\ st d' = st d /\ zc d' <= 4.
Proof.
  induction bs as [|b r IH]; intros d d' Hz H; simpl in H.
  - inversion H; subst. rewrite app_nil_r. auto.
  - destruct (push cap d b) as [d1|] eqn:E; [|discriminate].
    apply push_spec in E; [|assumption]. destruct E as (Ed & Er & Ec & Es & Ez).
    apply IH in H; [|assumption]. destruct H as (Hd & Hr & Hc & Hs & Hz').
    rewrite Hd, Ed, <- app_assoc. simpl. repeat split; congruence.
Qed.

Lemma data_set_st d s : data (set_st d s) = data d.
Proof. reflexivity. Qed.
Lemma data_upd_crc d x : data (upd_crc d x) = data d.
Proof. reflexivity. Qed.
Lemma data_mk r c s z rb : data (mkdec r c s z rb) = rev rb ++ repeat 0 (N.to_nat z).
Proof. reflexivity. Qed.
