(* C06 / C13: the parsers are total and every successful step consumes input.
   [wb P]: on a byte string shorter than 2^32, P never panics and a success returns a STRICT
   suffix of its input; [wb0 P]: the same with a possibly empty consumption. *)
Require Import Sml.Base.Prelude Sml.Base.Crc Sml.Model.Parser Sml.Spec.TlfRef Sml.Proofs.TlfExact.

Definition ok_in (input : list byte) : Prop := bytes_ok input /\ lenN input < 4294967296.

Definition wbr {A} (strict : bool) (input : list byte) (r : pres A) : Prop :=
  match r with
  | POk rest _ => exists used, input = used ++ rest /\ (strict = true -> used <> [])
  | PErr _ => True
  | PPanic => False
  end.

Definition wbs {A} (strict : bool) (P : list byte -> pres A) : Prop :=
  forall input, ok_in input -> wbr strict input (P input).
Notation wb := (wbs true).
Notation wb0 := (wbs false).

Lemma ok_in_suffix used rest : ok_in (used ++ rest) -> ok_in rest.
Proof.
  intros [Hb Hl]. split.
  - apply bytes_ok_app in Hb. tauto.
  - rewrite lenN_app in Hl. lia.
Qed.

Lemma wb_weaken {A} (P : list byte -> pres A) : wb P -> wb0 P.
Proof.
  intros H input Hi. specialize (H input Hi). unfold wbr in *. destruct (P input); auto.
  destruct H as (u & E & _). exists u. split; [exact E|discriminate].
Qed.

Lemma wbs_bind {A B} s1 s2 (P : list byte -> pres A) (Q : list byte -> A -> pres B) :
  wbs s1 P -> (forall v, wbs s2 (fun i => Q i v)) ->
  wbs (s1 || s2) (fun i => pbind (P i) Q).
Proof.
  intros HP HQ input Hi. specialize (HP input Hi). unfold pbind, wbr in *.
  destruct (P input) as [rest v|e|]; auto.
  destruct HP as (u1 & E1 & S1). subst input.
  specialize (HQ v rest (ok_in_suffix _ _ Hi)). cbv beta in HQ. unfold wbr in HQ.
  destruct (Q rest v) as [rest2 w|e|]; auto.
  destruct HQ as (u2 & E2 & S2). subst rest.
  exists (u1 ++ u2). split; [rewrite app_assoc; reflexivity|].
  intros Hs. apply orb_true_iff in Hs. destruct Hs as [Hs|Hs].
  - specialize (S1 Hs). destruct u1; [congruence|discriminate].
  - specialize (S2 Hs). destruct u1; [exact S2|discriminate].
Qed.

Lemma wb0_ret {A} (v : A) : wb0 (fun i => POk i v).
Proof. intros input _. exists []. split; [reflexivity|discriminate]. Qed.

Lemma wbs_err {A} s (e : perr) : wbs s (fun _ => @PErr A e).
Proof. intros input _. exact I. Qed.

Lemma wbs_pmap {A B} s (P : list byte -> pres A) (f : A -> B) :
  wbs s P -> wbs s (fun i => pmap (P i) f).
Proof. intros H input Hi. specialize (H input Hi). unfold pmap, wbr in *. destruct (P input); auto. Qed.

Lemma wbs_if {A} s (c : bool) (P Q : list byte -> pres A) :
  wbs s P -> wbs s Q -> wbs s (fun i => if c then P i else Q i).
Proof. intros HP HQ. destruct c; assumption. Qed.

(* ---------- leaves ---------- *)
Lemma wb_take_byte : wb take_byte.
Proof.
  intros input _. unfold take_byte. destruct input as [|b r]; [exact I|].
  exists [b]. split; [reflexivity|discriminate].
Qed.

Lemma wb0_take_n n : wb0 (fun i => take_n i n).
Proof.
  intros input _. unfold take_n. destruct (lenN input <? n); [exact I|].
  exists (firstn (N.to_nat n) input). split; [symmetry; apply firstn_skipn|discriminate].
Qed.

Lemma cont_bytes_app : forall r t rest, cont_bytes r = Some (t, rest) -> r = t ++ rest /\ t <> [].
Proof.
  induction r as [|b r IH]; intros t rest H; cbn [cont_bytes] in H; [discriminate|].
  destruct (128 <=? b).
  - destruct (cont_bytes r) as [[t' rest']|] eqn:E; [|discriminate].
    inversion H; subst. destruct (IH t' rest eq_refl) as [-> _]. split; [reflexivity|discriminate].
  - inversion H; subst. split; [reflexivity|discriminate].
Qed.

Lemma wb_tlf_parse : wb tlf_parse.
Proof.
  intros input [Hb Hl]. pose proof (tlf_parse_exact input Hb Hl) as H. unfold wbr.
  destruct (tlf_parse input) as [rest t|e|]; auto.
  unfold tlf_ref in H. destruct input as [|b0 r]; [discriminate|].
  destruct (128 <=? b0).
  - destruct (cont_bytes r) as [[more rest']|] eqn:Ec; [|discriminate].
    destruct (cont_bytes_app r more rest' Ec) as [-> _].
    assert (rest' = rest).
    { repeat match type of H with
             | match ?c with _ => _ end = _ => destruct c; try discriminate
             | (if ?c then _ else _) = _ => destruct c; try discriminate
             end; inversion H; reflexivity. }
    subst. exists (b0 :: more). split; [reflexivity|discriminate].
  - assert (r = rest).
    { repeat match type of H with
             | match ?c with _ => _ end = _ => destruct c; try discriminate
             | (if ?c then _ else _) = _ => destruct c; try discriminate
             end; inversion H; reflexivity. }
    subst. exists [b0]. split; [reflexivity|discriminate].
Qed.

(* with_tlf: TLF, check, then the rest *)
Lemma wb_with_tlf {A} (check : tlf -> bool) (p : list byte -> tlf -> pres A) :
  (forall t, check t = true -> wb0 (fun i => p i t)) -> wb (with_tlf check p).
Proof.
  intros Hp. unfold with_tlf.
  apply (wbs_bind true false tlf_parse (fun i t => if check t then p i t else PErr TlfMismatch)).
  - exact wb_tlf_parse.
  - intros t. destruct (check t) eqn:E; [apply Hp; exact E|apply wbs_err].
Qed.

Lemma wb_p_opt {A} (p : list byte -> pres A) : wb p -> wb (p_opt p).
Proof.
  intros Hp input Hi. unfold p_opt.
  destruct input as [|b r].
  - specialize (Hp [] Hi). unfold wbr, pmap in *. destruct (p []); auto.
  - destruct (N.eq_dec b 1) as [->|Hb].
    + exists [1]. split; [reflexivity|discriminate].
    + assert (E : match b with 1 => @POk (option A) r None | _ => pmap (p (b :: r)) Some end = pmap (p (b :: r)) Some).
      { destruct b as [|[p0|p0|]]; try reflexivity. congruence. }
      rewrite E. apply (wbs_pmap true p Some Hp). exact Hi.
Qed.

(* numbers *)
Lemma wb0_parse_num ity size signed t :
  num_check ity size t = true -> wb0 (fun i => parse_num size signed i t).
Proof.
  intros Hc. unfold num_check in Hc. rewrite !andb_true_iff in Hc. destruct Hc as [[_ Hle] Hnz].
  apply N.leb_le in Hle. apply negb_true_iff, N.eqb_neq in Hnz.
  intros input Hi. unfold parse_num.
  pose proof (wb0_take_n (tlen t) input Hi) as Ht. cbv beta in Ht. unfold take_n in *.
  destruct (N.ltb_spec (lenN input) (tlen t)) as [Hlt|Hge]; cbn [pbind]; [exact I|].
  destruct (N.ltb_spec size (tlen t)); [lia|].
  assert (Hne : firstn (N.to_nat (tlen t)) input <> []).
  { intros E. apply (f_equal (@length _)) in E. rewrite firstn_length in E. unfold lenN in Hge. cbn in E. lia. }
  destruct signed.
  - destruct (firstn (N.to_nat (tlen t)) input) as [|b0 r0] eqn:Ef; [congruence|]. exact Ht.
  - exact Ht.
Qed.

Lemma wb0_uns_with_tlf size t : num_check TUns size t = true -> wb0 (fun i => uns_with_tlf size i t).
Proof. intros H. unfold uns_with_tlf. apply wbs_pmap. eapply wb0_parse_num; exact H. Qed.

Lemma wb0_int_with_tlf size t : num_check TInt size t = true -> wb0 (fun i => int_with_tlf size i t).
Proof. intros H. unfold int_with_tlf. apply wbs_pmap. eapply wb0_parse_num; exact H. Qed.

Lemma wb_p_uns size : wb (p_uns size).
Proof. unfold p_uns. apply wb_with_tlf. intros t H. apply wb0_uns_with_tlf; exact H. Qed.

Lemma wb_p_int size : wb (p_int size).
Proof. unfold p_int. apply wb_with_tlf. intros t H. apply wb0_int_with_tlf; exact H. Qed.

Lemma wb_p_octet : wb p_octet.
Proof. unfold p_octet. apply wb_with_tlf. intros t _. unfold octet_with_tlf. apply wb0_take_n. Qed.

(* Time *)
Lemma wb0_time_with_tlf t : wb0 (fun i => time_with_tlf i t).
Proof.
  unfold time_with_tlf. destruct (tlf_eqb t (mktlf TUns 4)).
  - apply (wbs_bind false false (fun i => take_n i 4) (fun i b => POk i (SecIndex (be_val 0 b)))).
    + apply wb0_take_n.
    + intros v. apply wb0_ret.
  - apply wb_weaken.
    apply (wbs_bind true false p_u8 (fun i tag => if tag =? 1 then pbind (p_u32 i) (fun i x => POk i (SecIndex x)) else PErr UnexpectedVariant)).
    + apply wb_p_uns.
    + intros tag. destruct (tag =? 1); [|apply wbs_err].
      apply (wbs_bind false false p_u32 (fun i x => POk i (SecIndex x))).
      * apply wb_weaken, wb_p_uns.
      * intros v. apply wb0_ret.
Qed.

Lemma wb_p_time : wb p_time.
Proof. unfold p_time. apply wb_with_tlf. intros t _. apply wb0_time_with_tlf. Qed.

Lemma wb0_status_with_tlf t : wb0 (fun i => status_with_tlf i t).
Proof.
  unfold status_with_tlf.
  destruct (num_check TUns 1 t) eqn:E1; [apply wbs_pmap, wb0_uns_with_tlf; exact E1|].
  destruct (num_check TUns 2 t) eqn:E2; [apply wbs_pmap, wb0_uns_with_tlf; exact E2|].
  destruct (num_check TUns 4 t) eqn:E4; [apply wbs_pmap, wb0_uns_with_tlf; exact E4|].
  destruct (num_check TUns 8 t) eqn:E8; [apply wbs_pmap, wb0_uns_with_tlf; exact E8|].
  apply wbs_err.
Qed.

Lemma wb_p_status : wb p_status.
Proof. unfold p_status. apply wb_with_tlf. intros t _. apply wb0_status_with_tlf. Qed.

Lemma wb0_listtype_with_tlf t : wb0 (fun i => listtype_with_tlf i t).
Proof.
  unfold listtype_with_tlf. apply wb_weaken.
  apply (wbs_bind true false p_u8 (fun i tag => if tag =? 1 then p_time i else PErr UnexpectedVariant)).
  - apply wb_p_uns.
  - intros tag. destruct (tag =? 1); [apply wb_weaken, wb_p_time|apply wbs_err].
Qed.

Lemma wb0_value_with_tlf t : wb0 (fun i => value_with_tlf i t).
Proof.
  unfold value_with_tlf.
  destruct (bool_check t).
  { apply wbs_pmap. unfold bool_with_tlf. apply wb_weaken.
    apply (wbs_bind true false take_byte (fun i b => POk i (0 <? b))); [apply wb_take_byte|intros; apply wb0_ret]. }
  destruct (octet_check t); [apply wbs_pmap; unfold octet_with_tlf; apply wb0_take_n|].
  destruct (num_check TInt 1 t) eqn:I1; [apply wbs_pmap, wb0_int_with_tlf; exact I1|].
  destruct (num_check TInt 2 t) eqn:I2; [apply wbs_pmap, wb0_int_with_tlf; exact I2|].
  destruct (num_check TInt 4 t) eqn:I4; [apply wbs_pmap, wb0_int_with_tlf; exact I4|].
  destruct (num_check TInt 8 t) eqn:I8; [apply wbs_pmap, wb0_int_with_tlf; exact I8|].
  destruct (num_check TUns 1 t) eqn:U1; [apply wbs_pmap, wb0_uns_with_tlf; exact U1|].
  destruct (num_check TUns 2 t) eqn:U2; [apply wbs_pmap, wb0_uns_with_tlf; exact U2|].
  destruct (num_check TUns 4 t) eqn:U4; [apply wbs_pmap, wb0_uns_with_tlf; exact U4|].
  destruct (num_check TUns 8 t) eqn:U8; [apply wbs_pmap, wb0_uns_with_tlf; exact U8|].
  destruct (listtype_check t); [apply wbs_pmap, wb0_listtype_with_tlf|apply wbs_err].
Qed.

Lemma wb_p_value : wb p_value.
Proof. unfold p_value. apply wb_with_tlf. intros t _. apply wb0_value_with_tlf. Qed.

(* ---------- structures ---------- *)
Ltac wb_seq :=
  repeat first
    [ apply wb0_ret
    | apply wbs_err
    | match goal with
      | |- wbs false (fun i => pbind (?P i) ?Q) =>
          apply (wbs_bind false false P Q); [apply wb_weaken|intros ?]
      | |- wbs true (fun i => pbind (?P i) ?Q) =>
          apply (wbs_bind true false P Q); [|intros ?]
      end ].

Lemma wb0_le_with_tlf t : wb0 (fun i => le_with_tlf i t).
Proof.
  unfold le_with_tlf. apply wb_weaken.
  apply (wbs_bind true false p_octet _); [apply wb_p_octet|intros a].
  apply (wbs_bind false false (p_opt p_status) _); [apply wb_weaken, wb_p_opt, wb_p_status|intros b].
  apply (wbs_bind false false (p_opt p_time) _); [apply wb_weaken, wb_p_opt, wb_p_time|intros c].
  apply (wbs_bind false false (p_opt p_u8) _); [apply wb_weaken, wb_p_opt, wb_p_uns|intros d].
  apply (wbs_bind false false (p_opt p_i8) _); [apply wb_weaken, wb_p_opt, wb_p_int|intros e].
  apply (wbs_bind false false p_value _); [apply wb_weaken, wb_p_value|intros f].
  apply (wbs_bind false false (p_opt p_octet) _); [apply wb_weaken, wb_p_opt, wb_p_octet|intros g].
  apply wb0_ret.
Qed.

Lemma wb_p_list_entry : wb p_list_entry.
Proof. unfold p_list_entry. apply wb_with_tlf. intros t _. apply wb0_le_with_tlf. Qed.

Lemma wb0_open_with_tlf t : wb0 (fun i => open_with_tlf i t).
Proof.
  unfold open_with_tlf. apply wb_weaken.
  apply (wbs_bind true false (p_opt p_octet) _); [apply wb_p_opt, wb_p_octet|intros a].
  apply (wbs_bind false false (p_opt p_octet) _); [apply wb_weaken, wb_p_opt, wb_p_octet|intros b].
  apply (wbs_bind false false p_octet _); [apply wb_weaken, wb_p_octet|intros c].
  apply (wbs_bind false false p_octet _); [apply wb_weaken, wb_p_octet|intros d].
  apply (wbs_bind false false (p_opt p_time) _); [apply wb_weaken, wb_p_opt, wb_p_time|intros e].
  apply (wbs_bind false false (p_opt p_u8) _); [apply wb_weaken, wb_p_opt, wb_p_uns|intros f].
  apply wb0_ret.
Qed.

Lemma wb_p_open : wb p_open.
Proof. unfold p_open. apply wb_with_tlf. intros t _. apply wb0_open_with_tlf. Qed.

Lemma wb_p_close : wb p_close.
Proof.
  unfold p_close. apply wb_with_tlf. intros t _. unfold close_with_tlf.
  apply wb_weaken, wb_p_opt, wb_p_octet.
Qed.

Lemma wb_p_end_of_msg : wb p_end_of_msg.
Proof.
  unfold p_end_of_msg.
  apply (wbs_bind true false take_byte (fun i b => if negb (b =? 0) then PErr MsgEndMismatch else POk i tt)).
  - apply wb_take_byte.
  - intros b. destruct (negb (b =? 0)); [apply wbs_err|apply wb0_ret].
Qed.

(* the list loop: fuel = input length suffices *)
Lemma wb0_list_loop : forall fuel n,
  forall input, ok_in input -> (length input <= fuel)%nat -> wbr false input (list_loop fuel n input).
Proof.
  induction fuel as [|f IH]; intros n input Hi Hf; cbn [list_loop].
  - destruct (n =? 0); [exists []; split; [reflexivity|discriminate]|].
    assert (input = []) by (destruct input; [reflexivity|cbn in Hf; lia]). subst.
    pose proof (wb_p_list_entry [] Hi) as H. unfold wbr in *.
    destruct (p_list_entry []) as [rest v|e|]; auto.
    destruct H as (u & E & S). destruct u; [exfalso; apply S; reflexivity|discriminate].
  - destruct (n =? 0); [exists []; split; [reflexivity|discriminate]|].
    pose proof (wb_p_list_entry input Hi) as H. unfold wbr, pbind in *.
    destruct (p_list_entry input) as [rest v|e|]; auto.
    destruct H as (u & E & S). subst input.
    assert (Hlen : (length rest <= f)%nat).
    { specialize (S eq_refl). rewrite app_length in Hf. destruct u; [congruence|cbn [length] in Hf; lia]. }
    specialize (IH (n - 1) rest (ok_in_suffix _ _ Hi) Hlen). unfold wbr in IH.
    destruct (list_loop f (n - 1) rest) as [rest2 vs|e|]; auto.
    destruct IH as (u2 & E2 & _). subst rest. exists (u ++ u2). split; [rewrite app_assoc; reflexivity|discriminate].
Qed.

Lemma wb_p_list : wb p_list.
Proof.
  unfold p_list. apply wb_with_tlf. intros t _ input Hi. apply wb0_list_loop; [exact Hi|lia].
Qed.

Lemma wb0_glr_with_tlf t : wb0 (fun i => glr_with_tlf i t).
Proof.
  unfold glr_with_tlf. apply wb_weaken.
  apply (wbs_bind true false (p_opt p_octet) _); [apply wb_p_opt, wb_p_octet|intros a].
  apply (wbs_bind false false p_octet _); [apply wb_weaken, wb_p_octet|intros b].
  apply (wbs_bind false false (p_opt p_octet) _); [apply wb_weaken, wb_p_opt, wb_p_octet|intros c].
  apply (wbs_bind false false (p_opt p_time) _); [apply wb_weaken, wb_p_opt, wb_p_time|intros d].
  apply (wbs_bind false false p_list _); [apply wb_weaken, wb_p_list|intros e].
  apply (wbs_bind false false (p_opt p_octet) _); [apply wb_weaken, wb_p_opt, wb_p_octet|intros f].
  apply (wbs_bind false false (p_opt p_time) _); [apply wb_weaken, wb_p_opt, wb_p_time|intros g].
  apply wb0_ret.
Qed.

Lemma wb_p_glr : wb p_glr.
Proof. unfold p_glr. apply wb_with_tlf. intros t _. apply wb0_glr_with_tlf. Qed.

Lemma wb_p_body : wb p_body.
Proof.
  unfold p_body. apply wb_with_tlf. intros t _. unfold body_with_tlf. apply wb_weaken.
  apply (wbs_bind true false p_u32 _); [apply wb_p_uns|intros tag].
  destruct (tag =? 0x101); [apply wbs_pmap, wb_weaken, wb_p_open|].
  destruct (tag =? 0x201); [apply wbs_pmap, wb_weaken, wb_p_close|].
  destruct (tag =? 0x701); [apply wbs_pmap, wb_weaken, wb_p_glr|apply wbs_err].
Qed.

Lemma wb_p_message : wb p_message.
Proof.
  intros input Hi. unfold p_message.
  pose proof (wb_tlf_parse input Hi) as H1. unfold wbr, pbind in *.
  destruct (tlf_parse input) as [r1 t|e|]; auto.
  destruct H1 as (u1 & E1 & S1). subst input.
  destruct (negb (ty_eqb (tty t) TList) || negb (tlen t =? 6)); [exact I|].
  pose proof (ok_in_suffix _ _ Hi) as Hi1.
  pose proof (wb_p_octet r1 Hi1) as H2. unfold wbr in H2.
  destruct (p_octet r1) as [r2 tid|e|]; auto. destruct H2 as (u2 & E2 & _). subst r1.
  pose proof (ok_in_suffix _ _ Hi1) as Hi2.
  pose proof (wb_p_uns 1 r2 Hi2) as H3. unfold wbr in H3. fold p_u8 in H3.
  destruct (p_u8 r2) as [r3 g|e|]; auto. destruct H3 as (u3 & E3 & _). subst r2.
  pose proof (ok_in_suffix _ _ Hi2) as Hi3.
  pose proof (wb_p_uns 1 r3 Hi3) as H4. unfold wbr in H4. fold p_u8 in H4.
  destruct (p_u8 r3) as [r4 a|e|]; auto. destruct H4 as (u4 & E4 & _). subst r3.
  pose proof (ok_in_suffix _ _ Hi3) as Hi4.
  pose proof (wb_p_body r4 Hi4) as H5. unfold wbr in H5.
  destruct (p_body r4) as [r5 b|e|]; auto. destruct H5 as (u5 & E5 & _). subst r4.
  pose proof (ok_in_suffix _ _ Hi4) as Hi5.
  destruct (N.ltb_spec (lenN (u1 ++ u2 ++ u3 ++ u4 ++ u5 ++ r5)) (lenN r5)) as [Hbad|_].
  { rewrite !lenN_app in Hbad. lia. }
  pose proof (wb_p_uns 2 r5 Hi5) as H6. unfold wbr in H6. fold p_u16 in H6.
  destruct (p_u16 r5) as [r6 c|e|]; auto. destruct H6 as (u6 & E6 & _). subst r5.
  pose proof (ok_in_suffix _ _ Hi5) as Hi6.
  pose proof (wb_p_end_of_msg r6 Hi6) as H7. unfold wbr in H7.
  destruct (p_end_of_msg r6) as [r7 x|e|]; auto. destruct H7 as (u7 & E7 & _). subst r6.
  match goal with |- match (if ?c then _ else _) with _ => _ end => destruct c end; [exact I|].
  exists (u1 ++ u2 ++ u3 ++ u4 ++ u5 ++ u6 ++ u7). split; [rewrite <- !app_assoc; reflexivity|].
  intros _. specialize (S1 eq_refl). destruct u1; [congruence|discriminate].
Qed.

Lemma file_loop_total : forall fuel input,
  ok_in input -> (length input <= fuel)%nat ->
  match file_loop fuel input with PPanic => False | _ => True end.
Proof.
  induction fuel as [|f IH]; intros input Hi Hf; cbn [file_loop].
  - destruct input; [exact I|cbn in Hf; lia].
  - destruct input as [|b r]; [exact I|].
    pose proof (wb_p_message (b :: r) Hi) as H. unfold wbr, pbind in *.
    destruct (p_message (b :: r)) as [rest m|e|]; auto.
    destruct H as (u & E & S).
    assert (Hlen : (length rest <= f)%nat).
    { specialize (S eq_refl). apply (f_equal (@length _)) in E. rewrite app_length in E.
      destruct u; [congruence|cbn [length] in *; lia]. }
    rewrite E in Hi. specialize (IH rest (ok_in_suffix _ _ Hi) Hlen).
    destruct (file_loop f rest); auto.
Qed.

Theorem parse_total input : ok_in input -> parse input <> FilePanic.
Proof.
  intros Hi. unfold parse. pose proof (file_loop_total (length input) input Hi ltac:(lia)) as H.
  destruct (file_loop (length input) input) as [rest f|e|]; try contradiction; [destruct rest|]; discriminate.
Qed.

(* ---------- streaming parser ---------- *)
Lemma wb_p_gs : wb p_gs.
Proof.
  unfold p_gs. apply wb_with_tlf. intros t _. unfold gs_with_tlf. apply wb_weaken.
  apply (wbs_bind true false (p_opt p_octet) _); [apply wb_p_opt, wb_p_octet|intros a].
  apply (wbs_bind false false p_octet _); [apply wb_weaken, wb_p_octet|intros b].
  apply (wbs_bind false false (p_opt p_octet) _); [apply wb_weaken, wb_p_opt, wb_p_octet|intros c].
  apply (wbs_bind false false (p_opt p_time) _); [apply wb_weaken, wb_p_opt, wb_p_time|intros d].
  apply (wbs_bind false false tlf_parse _); [apply wb_weaken, wb_tlf_parse|intros t2].
  destruct (negb (ty_eqb (tty t2) TList)); [apply wbs_err|apply wb0_ret].
Qed.

Lemma wb_p_sbody : wb p_sbody.
Proof.
  unfold p_sbody. apply wb_with_tlf. intros t _. unfold sbody_with_tlf. apply wb_weaken.
  apply (wbs_bind true false p_u32 _); [apply wb_p_uns|intros tag].
  destruct (tag =? 0x101); [apply wbs_pmap, wb_weaken, wb_p_open|].
  destruct (tag =? 0x201); [apply wbs_pmap, wb_weaken, wb_p_close|].
  destruct (tag =? 0x701); [apply wbs_pmap, wb_weaken, wb_p_gs|apply wbs_err].
Qed.

Lemma wb_p_message_start : wb p_message_start.
Proof.
  unfold p_message_start.
  apply (wbs_bind true false tlf_parse _); [apply wb_tlf_parse|intros t].
  destruct (negb (ty_eqb (tty t) TList) || negb (tlen t =? 6)); [apply wbs_err|].
  apply (wbs_bind false false p_octet _); [apply wb_weaken, wb_p_octet|intros tid].
  apply (wbs_bind false false p_u8 _); [apply wb_weaken, wb_p_uns|intros g].
  apply (wbs_bind false false p_u8 _); [apply wb_weaken, wb_p_uns|intros a].
  apply (wbs_bind false false p_sbody _); [apply wb_weaken, wb_p_sbody|intros b].
  apply wb0_ret.
Qed.

Lemma wb_p_gle : wb p_gle.
Proof.
  unfold p_gle.
  apply (wbs_bind true false (p_opt p_octet) _); [apply wb_p_opt, wb_p_octet|intros a].
  apply (wbs_bind false false (p_opt p_time) _); [apply wb_weaken, wb_p_opt, wb_p_time|intros b].
  apply wb0_ret.
Qed.

(* the list TLF announces at most 2^32 - 1 values *)
Lemma tlf_parse_len_bound input rest t :
  ok_in input -> tlf_parse input = POk rest t -> tlen t < 4294967296.
Proof.
  intros [Hb Hl] E. pose proof (tlf_parse_exact input Hb Hl) as H. rewrite E in H.
  unfold tlf_ref in H. destruct input as [|b0 r]; [discriminate|].
  destruct (if 128 <=? b0 then cont_bytes r else Some ([], r)) as [[more rest']|]; [|discriminate].
  destruct (ty_of_bits (type_bits b0)); [|discriminate].
  destruct (negb (forallb (fun b => type_bits b =? 0) more)); [discriminate|].
  destruct (ty_eqb t0 TBool && negb match more with [] => true | _ => false end); [discriminate|].
  destruct (N.leb_spec 4294967296 (nibbles (b0 :: more) 0)); [discriminate|].
  destruct (ty_eqb t0 TList).
  - injection H as _ H2 _. change (nibbles more (0 * 16 + b0 mod 16)) with (nibbles (b0 :: more) 0) in H2. lia.
  - destruct (N.ltb_spec (nibbles (b0 :: more) 0) (lenN (b0 :: more))); [discriminate|].
    injection H as _ H2 _. change (nibbles more (0 * 16 + b0 mod 16)) with (nibbles (b0 :: more) 0) in H2. lia.
Qed.

(* invariant of the iterator state *)
Definition PInv (s : sparser) : Prop :=
  ok_in (sp_input s) /\ pending s <= 4294967297 /\
  (pending s <> 0 -> ok_in (sp_msg_input s) /\ exists u, sp_msg_input s = u ++ sp_input s).

Definition shorter (s' s : sparser) : Prop := (length (sp_input s') < length (sp_input s))%nat.

(* what one call of parse_next does *)
Definition pn_post (s s' : sparser) (r : snext) : Prop :=
  match r with
  | SNone => sp_input s' = [] /\ pending s' = 0
  | SEvent _ => PInv s' /\ shorter s' s
  | SErr _ => True
  | SPanic => False
  end.

Lemma num_vals_bound input rest m :
  ok_in input -> p_message_start input = POk rest m ->
  match ms_body m with SGetList g => num_vals g < 4294967296 | _ => True end.
Proof.
  intros Hi E. unfold p_message_start, pbind in E.
  destruct (tlf_parse input) as [r1 t|e|] eqn:E1; try discriminate.
  pose proof (wb_tlf_parse input Hi) as W1. rewrite E1 in W1. destruct W1 as (u1 & -> & _).
  pose proof (ok_in_suffix _ _ Hi) as Hi1.
  destruct (negb (ty_eqb (tty t) TList) || negb (tlen t =? 6)); [discriminate|].
  destruct (p_octet r1) as [r2 tid|e|] eqn:E2; try discriminate.
  pose proof (wb_p_octet r1 Hi1) as W2. rewrite E2 in W2. destruct W2 as (u2 & -> & _).
  pose proof (ok_in_suffix _ _ Hi1) as Hi2.
  destruct (p_u8 r2) as [r3 g|e|] eqn:E3; try discriminate.
  pose proof (wb_p_uns 1 r2 Hi2) as W3. fold p_u8 in W3. rewrite E3 in W3. destruct W3 as (u3 & -> & _).
  pose proof (ok_in_suffix _ _ Hi2) as Hi3.
  destruct (p_u8 r3) as [r4 a|e|] eqn:E4; try discriminate.
  pose proof (wb_p_uns 1 r3 Hi3) as W4. fold p_u8 in W4. rewrite E4 in W4. destruct W4 as (u4 & -> & _).
  pose proof (ok_in_suffix _ _ Hi3) as Hi4.
  destruct (p_sbody r4) as [r5 b|e|] eqn:E5; try discriminate.
  inversion E; subst. cbn [ms_body].
  (* inside p_sbody *)
  unfold p_sbody, with_tlf, pbind in E5.
  destruct (tlf_parse r4) as [q1 tb|e|] eqn:F1; try discriminate.
  pose proof (wb_tlf_parse r4 Hi4) as V1. rewrite F1 in V1. destruct V1 as (v1 & -> & _).
  pose proof (ok_in_suffix _ _ Hi4) as Hj1.
  destruct (body_check tb); [|discriminate].
  unfold sbody_with_tlf, pbind in E5.
  destruct (p_u32 q1) as [q2 tag|e|] eqn:F2; try discriminate.
  pose proof (wb_p_uns 4 q1 Hj1) as V2. fold p_u32 in V2. rewrite F2 in V2. destruct V2 as (v2 & -> & _).
  pose proof (ok_in_suffix _ _ Hj1) as Hj2.
  destruct (tag =? 257); [unfold pmap in E5; destruct (p_open q2); inversion E5; exact I|].
  destruct (tag =? 513); [unfold pmap in E5; destruct (p_close q2); inversion E5; exact I|].
  destruct (tag =? 1793); [|discriminate].
  unfold pmap in E5. destruct (p_gs q2) as [q3 gs|e|] eqn:F3; inversion E5; subst. clear E5.
  (* inside p_gs *)
  unfold p_gs, with_tlf, pbind in F3.
  destruct (tlf_parse q2) as [w1 tg|e|] eqn:G1; try discriminate.
  pose proof (wb_tlf_parse q2 Hj2) as X1. rewrite G1 in X1. destruct X1 as (x1 & -> & _).
  pose proof (ok_in_suffix _ _ Hj2) as Hk1.
  destruct (list_is 7 tg); [|discriminate].
  unfold gs_with_tlf, pbind in F3.
  destruct (p_opt p_octet w1) as [w2 a1|e|] eqn:G2; try discriminate.
  pose proof (wb_p_opt p_octet wb_p_octet w1 Hk1) as X2. rewrite G2 in X2. destruct X2 as (x2 & -> & _).
  pose proof (ok_in_suffix _ _ Hk1) as Hk2.
  destruct (p_octet w2) as [w3 a2|e|] eqn:G3; try discriminate.
  pose proof (wb_p_octet w2 Hk2) as X3. rewrite G3 in X3. destruct X3 as (x3 & -> & _).
  pose proof (ok_in_suffix _ _ Hk2) as Hk3.
  destruct (p_opt p_octet w3) as [w4 a3|e|] eqn:G4; try discriminate.
  pose proof (wb_p_opt p_octet wb_p_octet w3 Hk3) as X4. rewrite G4 in X4. destruct X4 as (x4 & -> & _).
  pose proof (ok_in_suffix _ _ Hk3) as Hk4.
  destruct (p_opt p_time w4) as [w5 a4|e|] eqn:G5; try discriminate.
  pose proof (wb_p_opt p_time wb_p_time w4 Hk4) as X5. rewrite G5 in X5. destruct X5 as (x5 & -> & _).
  pose proof (ok_in_suffix _ _ Hk4) as Hk5.
  destruct (tlf_parse w5) as [w6 t2|e|] eqn:G6; try discriminate.
  destruct (negb (ty_eqb (tty t2) TList)); [discriminate|].
  inversion F3; subst. cbn [num_vals].
  eapply tlf_parse_len_bound; [exact Hk5|exact G6].
Qed.

Lemma ok_in_nil : ok_in [].
Proof. split; [constructor|unfold lenN; cbn; lia]. Qed.

Lemma parse_next_post : forall fuel s,
  PInv s -> ((2 <= fuel)%nat \/ ((1 <= fuel)%nat /\ pending s <> 1)) ->
  pn_post s (fst (sp_parse_next fuel s)) (snd (sp_parse_next fuel s)).
Proof.
  induction fuel as [|f IH]; intros s (Hi & Hp & Hm) Hf; [lia|].
  cbn [sp_parse_next].
  destruct (match sp_input s with [] => true | _ => false end && (pending s =? 0)) eqn:E0.
  { apply andb_true_iff in E0. destruct E0 as [E1 E2]. apply N.eqb_eq in E2. cbn [fst snd pn_post].
    destruct (sp_input s); [split; [reflexivity|exact E2]|discriminate]. }
  destruct (N.eqb_spec (pending s) 0) as [P0|P0].
  - (* a new message *)
    cbn [sp_input sp_msg_input pending].
    pose proof (wb_p_message_start (sp_input s) Hi) as W.
    pose proof (num_vals_bound (sp_input s)) as NB.
    destruct (p_message_start (sp_input s)) as [rest m|e|]; cbn [fst snd pn_post]; auto.
    destruct W as (u & Eu & Su). specialize (NB rest m Hi eq_refl).
    set (pend := match ms_body m with SGetList g => num_vals g + 2 | _ => 1 end).
    assert (Hpend : pend <= 4294967297 /\ pend <> 0).
    { unfold pend. destruct (ms_body m); lia. }
    unfold u64_max. destruct (N.ltb_spec 18446744073709551615 pend); [lia|].
    cbn [fst snd pn_post]. split.
    + unfold PInv. cbn [sp_input sp_msg_input pending]. assert (Hi0 := Hi). rewrite Eu in Hi.
      split; [exact (ok_in_suffix _ _ Hi)|]. split; [lia|]. intros _.
      split; [exact Hi0|]. exists u. exact Eu.
    + unfold shorter. cbn [sp_input]. rewrite Eu, app_length. specialize (Su eq_refl).
      destruct u; [congruence|cbn [length]; lia].
  - destruct (Hm P0) as (Him & u & Eu).
    destruct (N.eqb_spec (pending s) 1) as [P1|P1].
    + (* CRC and end marker, then straight on to the next message *)
      destruct (N.ltb_spec (lenN (sp_msg_input s)) (lenN (sp_input s))) as [Hbad|_].
      { rewrite Eu, lenN_app in Hbad. lia. }
      pose proof (wb_p_uns 2 (sp_input s) Hi) as W1. fold p_u16 in W1.
      destruct (p_u16 (sp_input s)) as [r1 crc|e|]; cbn [fst snd pn_post]; auto.
      destruct W1 as (u1 & E1 & S1). rewrite E1 in Hi.
      pose proof (ok_in_suffix _ _ Hi) as Hi1.
      pose proof (wb_p_end_of_msg r1 Hi1) as W2.
      destruct (p_end_of_msg r1) as [r2 x|e|]; cbn [fst snd pn_post]; auto.
      destruct W2 as (u2 & E2 & S2). rewrite E2 in Hi1.
      pose proof (ok_in_suffix _ _ Hi1) as Hi2.
      cbn [sp_input sp_msg_input pending].
      match goal with |- context [if ?c then _ else _] => destruct c end; [cbn [fst snd pn_post]; exact I|].
      set (s2 := mksp r2 (sp_msg_input s) 0).
      assert (I2 : PInv s2).
      { unfold PInv, s2. cbn [sp_input sp_msg_input pending]. split; [exact Hi2|]. split; [lia|]. intros H; congruence. }
      specialize (IH s2 I2 ltac:(right; split; [lia|cbn; lia])).
      destruct (sp_parse_next f s2) as [s3 r3]. cbn [fst snd] in *.
      destruct r3; cbn [pn_post] in *; auto.
      destruct IH as [I3 Sh]. split; [exact I3|].
      unfold shorter in *. cbn [s2 sp_input] in Sh. rewrite E1, E2, !app_length. lia.
    + assert (Hf2 : True) by exact I.
      destruct (N.eqb_spec (pending s) 2) as [P2|P2].
      * (* end of the list *)
        pose proof (wb_p_gle (sp_input s) Hi) as W.
        destruct (p_gle (sp_input s)) as [rest [sig gw]|e|]; cbn [fst snd pn_post]; auto.
        destruct W as (u1 & E1 & S1). split.
        -- unfold PInv. cbn [sp_input sp_msg_input pending]. rewrite E1 in Hi.
           split; [exact (ok_in_suffix _ _ Hi)|]. split; [lia|]. intros _.
           split; [exact Him|]. exists (u ++ u1). rewrite Eu, E1, app_assoc. reflexivity.
        -- unfold shorter. cbn [sp_input]. rewrite E1, app_length. specialize (S1 eq_refl).
           destruct u1; [congruence|cbn [length]; lia].
      * (* a list entry *)
        pose proof (wb_p_list_entry (sp_input s) Hi) as W.
        destruct (p_list_entry (sp_input s)) as [rest le|e|]; cbn [fst snd pn_post]; auto.
        destruct W as (u1 & E1 & S1). split.
        -- unfold PInv. cbn [sp_input sp_msg_input pending]. rewrite E1 in Hi.
           split; [exact (ok_in_suffix _ _ Hi)|]. split; [lia|]. intros _.
           split; [exact Him|]. exists (u ++ u1). rewrite Eu, E1, app_assoc. reflexivity.
        -- unfold shorter. cbn [sp_input]. rewrite E1, app_length. specialize (S1 eq_refl).
           destruct u1; [congruence|cbn [length]; lia].
Qed.

Definition terminal (s : sparser) : Prop := sp_input s = [] /\ pending s = 0.

Lemma PInv_terminal s : terminal s -> PInv s.
Proof.
  intros [E P]. unfold PInv. rewrite E, P. split; [apply ok_in_nil|]. split; [lia|]. intros H; congruence.
Qed.

(* Iterator::next *)
Lemma sp_next_post s :
  PInv s ->
  match snd (sp_next s) with
  | SNone => terminal (fst (sp_next s))
  | SEvent _ => PInv (fst (sp_next s)) /\ shorter (fst (sp_next s)) s
  | SErr _ => terminal (fst (sp_next s))
  | SPanic => False
  end.
Proof.
  intros I. pose proof (parse_next_post 2 s I ltac:(left; lia)) as P.
  unfold sp_next. destruct (sp_parse_next 2 s) as [s' r]. cbn [fst snd] in *.
  destruct r; cbn [fst snd pn_post] in *.
  - exact P.
  - exact P.
  - split; reflexivity.
  - exact P.
Qed.

Lemma terminal_next s : terminal s -> sp_next s = (s, SNone).
Proof.
  intros [E P]. unfold sp_next. cbn [sp_parse_next]. rewrite E, P. cbn [andb]. reflexivity.
Qed.

Lemma terminal_forever : forall k s, terminal s -> sp_calls k s = repeat SNone k.
Proof.
  induction k as [|k IH]; intros s T; cbn [sp_calls repeat]; [reflexivity|].
  rewrite (terminal_next s T). rewrite IH by exact T. reflexivity.
Qed.

(* the shape of an iteration: events, then at most one error, then None forever *)
Definition is_none (r : snext) : bool := match r with SNone => true | _ => false end.
Fixpoint well_ended (l : list snext) : bool :=
  match l with
  | [] => true
  | SEvent _ :: r => well_ended r
  | SErr _ :: r => forallb is_none r
  | SNone :: r => forallb is_none r
  | SPanic :: _ => false
  end.
Fixpoint n_items (l : list snext) : nat :=
  match l with [] => 0 | SNone :: r => n_items r | _ :: r => S (n_items r) end.

Lemma forallb_repeat_none k : forallb is_none (repeat SNone k) = true.
Proof. induction k; cbn; auto. Qed.

Lemma n_items_nones k : n_items (repeat SNone k) = 0%nat.
Proof. induction k; cbn; auto. Qed.

Theorem sp_calls_shape : forall k s,
  PInv s ->
  well_ended (sp_calls k s) = true /\ (n_items (sp_calls k s) <= length (sp_input s) + 1)%nat.
Proof.
  induction k as [|k IH]; intros s I; cbn [sp_calls]; [split; [reflexivity|cbn; lia]|].
  pose proof (sp_next_post s I) as P.
  destruct (sp_next s) as [s' r]. cbn [fst snd] in P.
  destruct r; cbn [well_ended n_items].
  - rewrite (terminal_forever k s' P), forallb_repeat_none, n_items_nones. split; [reflexivity|lia].
  - destruct P as [I' Sh]. destruct (IH s' I') as [W Nn]. split; [exact W|]. unfold shorter in Sh. lia.
  - rewrite (terminal_forever k s' P), forallb_repeat_none, n_items_nones. split; [reflexivity|lia].
  - contradiction.
Qed.

Lemma PInv_new bs : ok_in bs -> PInv (sp_new bs).
Proof.
  intros H. unfold PInv, sp_new. cbn. split; [exact H|]. split; [lia|]. intros C; congruence.
Qed.
