(* C08: a valid frame after noise, or after a cut-off frame, is delivered, and the noise /
   cut-off part is reported as discarded bytes with its exact length. *)
Require Import Sml.Base.Prelude Sml.Base.Crc Sml.Spec.Frame Sml.Model.Decode.
Require Import Sml.Proofs.DecodeInv Sml.Proofs.EncFold Sml.Proofs.DecodeGuard Sml.Proofs.DecodeSound.
Require Import Sml.Proofs.Account Sml.Proofs.Boundary Sml.Proofs.RoundTrip.

(* noise that contains the start sequence (together with the one that follows) only at its end *)
Definition only_at_end (g : list byte) : Prop :=
  forall pre suf, g ++ start_seq = pre ++ start_seq ++ suf -> suf = [].

Lemma SInv_normal_inv cs d :
  SInv cs d -> st d = Normal -> exists pre body, cs = pre ++ start_seq ++ body /\ raw d = 8 + lenN body.
Proof. intros I H. inversion I; try congruence. eauto. Qed.

(* ---------- runs of [run] from norm-equal states ---------- *)
Lemma run_norm cap : forall s d1 d2,
  norm d1 = norm d2 -> snd (run cap d1 s) = snd (run cap d2 s).
Proof.
  induction s as [|b r IH]; intros d1 d2 H; cbn [run]; [reflexivity|].
  destruct (step_norm2 cap d1 d2 b H) as (A & B & C).
  destruct (step cap d1 b) as [e1 o1], (step cap d2 b) as [e2 o2]. cbn [fst snd] in *. subst o2.
  specialize (IH e1 e2 B). destruct (run cap e1 r), (run cap e2 r). cbn [snd] in *. subst.
  destruct o1; try reflexivity. rewrite (C eq_refl). reflexivity.
Qed.

(* ---------- the start-sequence matcher is complete ---------- *)
Definition quiet (l : list byte) : list (out * list byte) := map (fun _ => (ONone, [])) l.

(* the matcher's transition on the number of matched start-sequence bytes *)
Definition delta (n : N) (b : byte) : N :=
  if ((b =? 27) && (n <? 4)) || ((b =? 1) && (4 <=? n)) then n + 1
  else if b =? 27 then (if n =? 4 then 4 else 1) else 0.

Definition traj (n : N) (bs : list byte) : N := fold_left delta bs n.

Lemma delta_le n b : n < 8 -> delta n b <= 8.
Proof.
  intros H. unfold delta.
  repeat match goal with |- context [if ?c then _ else _] => destruct c end; lia.
Qed.

(* one step in state Looking, in closed form *)
Lemma step_looking_shape cap d disc n b :
  st d = Looking disc n -> n < 8 ->
  (delta n b < 8 ->
     exists disc', step cap d b = (mkdec (raw d + 1) (crc d) (Looking disc' (delta n b)) (zc d) (rbuf d), ONone)) /\
  (delta n b = 8 ->
     n = 7 /\
     step cap d b = (mkdec 8 crc_start Normal (zc d) (rbuf d),
                     if 0 <? disc then OErr (DiscardedBytes disc) else ONone)).
Proof.
  intros Hs Hn. unfold step. rewrite Hs. cbn [st raw crc zc rbuf]. rewrite Hs.
  unfold step_looking, delta, set_st. cbn [st raw crc zc rbuf].
  destruct (((b =? 27) && (n <? 4)) || ((b =? 1) && (4 <=? n))) eqn:M.
  - destruct (N.leb_spec 255 n); [lia|].
    destruct (N.eqb_spec (n + 1) 8) as [E|NE].
    + split; [lia|]. intros _. split; [lia|]. destruct (0 <? disc); reflexivity.
    + split; [|lia]. intros _. eexists. reflexivity.
  - destruct (N.eqb_spec b 27) as [->|Hb].
    + assert (4 <= n).
      { destruct (N.ltb_spec n 4); [|assumption].
        rewrite ?N.eqb_refl in M. cbn [andb orb] in M. discriminate. }
      destruct (N.eqb_spec n 4).
      * destruct (N.ltb_spec n 4); [lia|]. split; [|lia]. intros _. eexists. reflexivity.
      * destruct (N.ltb_spec n 1); [lia|]. split; [|lia]. intros _. eexists. reflexivity.
    + split; [|lia]. intros _. eexists. reflexivity.
Qed.

(* as long as the trajectory stays below 8 the decoder keeps looking, silently *)
Lemma looking_quiet cap : forall bs d disc n,
  st d = Looking disc n -> n < 8 ->
  (forall k, (1 <= k <= length bs)%nat -> traj n (firstn k bs) < 8) ->
  exists disc', run cap d bs =
    (mkdec (raw d + lenN bs) (crc d) (Looking disc' (traj n bs)) (zc d) (rbuf d), quiet bs).
Proof.
  induction bs as [|b r IH]; intros d disc n Hs Hn Hk.
  - exists disc. cbn [run traj fold_left quiet map]. unfold lenN. cbn [length N.of_nat].
    rewrite N.add_0_r. destruct d. cbn in *. subst. reflexivity.
  - assert (Hd : delta n b < 8) by (apply (Hk 1%nat); cbn [length]; lia).
    destruct (step_looking_shape cap d disc n b Hs Hn) as [A _].
    destruct (A Hd) as [disc1 E1].
    set (d1 := mkdec (raw d + 1) (crc d) (Looking disc1 (delta n b)) (zc d) (rbuf d)) in *.
    destruct (IH d1 disc1 (delta n b) eq_refl Hd) as [disc2 E2].
    { intros k Hkr. apply (Hk (S k)). cbn [length]. lia. }
    exists disc2. cbn [run]. rewrite E1, E2. cbn [d1 raw crc zc rbuf quiet map traj fold_left].
    rewrite lenN_cons. f_equal. f_equal. lia.
Qed.

(* from ANY matcher state, the eight bytes of a start sequence complete exactly at the eighth
   byte (finite case analysis on n; the counts are settled by the accounting invariant) *)
Lemma traj_start n :
  n < 8 ->
  traj n start_seq = 8 /\ forall k, (1 <= k <= 7)%nat -> traj n (firstn k start_seq) < 8.
Proof.
  intros Hn.
  assert (n = 0 \/ n = 1 \/ n = 2 \/ n = 3 \/ n = 4 \/ n = 5 \/ n = 6 \/ n = 7) as Hc by lia.
  assert (Hk7 : forall k, (1 <= k <= 7)%nat -> k = 1%nat \/ k = 2%nat \/ k = 3%nat \/ k = 4%nat \/ k = 5%nat \/ k = 6%nat \/ k = 7%nat) by (intros; lia).
  destruct Hc as [->|[->|[->|[->|[->|[->|[->| ->]]]]]]]; (split; [vm_compute; reflexivity|]);
    intros k Hk; destruct (Hk7 k Hk) as [->|[->|[->|[->|[->|[->| ->]]]]]]; vm_compute; reflexivity.
Qed.

Lemma start_from_looking cap d disc n :
  st d = Looking disc n -> n < 8 ->
  exists disc1,
    run cap d (firstn 7 start_seq) =
      (mkdec (raw d + 7) (crc d) (Looking disc1 7) (zc d) (rbuf d), quiet (firstn 7 start_seq)) /\
    run cap d start_seq =
      (mkdec 8 crc_start Normal (zc d) (rbuf d),
       quiet (firstn 7 start_seq) ++ [(if 0 <? disc1 then OErr (DiscardedBytes disc1) else ONone, [])]).
Proof.
  intros Hs Hn. destruct (traj_start n Hn) as [T8 T7].
  destruct (looking_quiet cap (firstn 7 start_seq) d disc n Hs Hn) as [disc1 E1].
  { intros k Hk. rewrite firstn_firstn. replace (Nat.min k 7) with k by (cbn [length firstn start_seq] in Hk; lia).
    apply T7. cbn [length firstn start_seq] in Hk. lia. }
  set (d1 := mkdec (raw d + lenN (firstn 7 start_seq)) (crc d) (Looking disc1 (traj n (firstn 7 start_seq))) (zc d) (rbuf d)) in *.
  assert (Hn1 : traj n (firstn 7 start_seq) < 8) by (apply T7; lia).
  destruct (step_looking_shape cap d1 disc1 _ 1 eq_refl Hn1) as [_ B].
  assert (Hd8 : delta (traj n (firstn 7 start_seq)) 1 = 8).
  { change (delta (traj n (firstn 7 start_seq)) 1) with (traj n (firstn 7 start_seq ++ [1])).
    change (firstn 7 start_seq ++ [1]) with start_seq. exact T8. }
  destruct (B Hd8) as (H7 & E2).
  exists disc1. split.
  - rewrite E1. unfold d1. rewrite H7. reflexivity.
  - change start_seq with (firstn 7 start_seq ++ [1]) at 1.
    rewrite run_app, E1. cbn [fst snd run]. rewrite E2. cbn [d1 zc rbuf fst snd].
    destruct (0 <? disc1); reflexivity.
Qed.

(* noise that does not contain a start sequence keeps the decoder looking, silently *)
Lemma noise_quiet cap : forall g2 g1 d disc n,
  SInv g1 d -> st d = Looking disc n -> n < 8 ->
  (forall pre suf, g1 ++ g2 ++ start_seq = pre ++ start_seq ++ suf -> suf = []) ->
  exists disc' n',
    run cap d g2 = (mkdec (raw d + lenN g2) (crc d) (Looking disc' n') (zc d) (rbuf d), quiet g2) /\ n' < 8.
Proof.
  induction g2 as [|b r IH]; intros g1 d disc n I Hs Hn Honly.
  - exists disc, n. split; [|exact Hn]. cbn [run quiet map]. unfold lenN. cbn [length N.of_nat].
    rewrite N.add_0_r. destruct d. cbn in *. subst. reflexivity.
  - pose proof (step_looking_inv cap g1 d b disc n I Hs) as I1.
    destruct (step_looking_shape cap d disc n b Hs Hn) as [A B].
    pose proof (delta_le n b Hn) as Hle.
    destruct (N.eq_dec (delta n b) 8) as [E8|N8].
    + (* a completed start sequence inside the noise: impossible *)
      exfalso. destruct (B E8) as [_ E]. rewrite E in I1. cbn [fst] in I1.
      destruct (SInv_normal_inv _ _ I1 eq_refl) as (pre & body & Hcs & Hraw).
      cbn [raw] in Hraw. assert (body = []) by (destruct body; [reflexivity|rewrite lenN_cons in Hraw; lia]). subst body.
      rewrite app_nil_r in Hcs.
      specialize (Honly pre (r ++ start_seq)).
      assert (Hs2 : r ++ start_seq = []).
      { apply Honly. change (b :: r) with ([b] ++ r). rewrite <- !app_assoc.
        rewrite (app_assoc g1 [b]), Hcs, <- !app_assoc. reflexivity. }
      destruct r; discriminate.
    + destruct (A ltac:(lia)) as [disc1 E1]. rewrite E1 in I1. cbn [fst] in I1.
      set (d1 := mkdec (raw d + 1) (crc d) (Looking disc1 (delta n b)) (zc d) (rbuf d)) in *.
      destruct (IH (g1 ++ [b]) d1 disc1 (delta n b) I1 eq_refl ltac:(lia)) as (disc2 & n2 & E2 & Hn2).
      { intros pre suf Hp. apply (Honly pre suf). rewrite <- Hp, <- !app_assoc. reflexivity. }
      exists disc2, n2. split; [|exact Hn2]. cbn [run]. rewrite E1, E2.
      cbn [d1 raw crc zc rbuf quiet map]. rewrite lenN_cons. f_equal. f_equal. lia.
Qed.

(* ---------- the theorems ---------- *)
Require Import Sml.Proofs.FrontendsAgree Sml.Proofs.EndToEnd.

Lemma frame_split m : frame m = start_seq ++ skipn 8 (frame m).
Proof. unfold frame. reflexivity. Qed.

Definition d_start : dec := mkdec 8 crc_start Normal 0 [].

Lemma run_start cap : run cap init start_seq = (d_start, quiet start_seq).
Proof. apply run_feed. apply feed_start. Qed.

(* the frame body, fed to a decoder that has just seen a start sequence *)
Lemma run_after_start cap m :
  cap_ok cap (length m) ->
  snd (run cap d_start (skipn 8 (frame m))) =
  skipn 8 (quiet (removelast (frame m)) ++ [(OMsg, m)]).
Proof.
  intros Hcap. destruct (frame_roundtrip cap m Hcap) as (d' & Hrun & _).
  rewrite frame_split in Hrun at 1. rewrite run_app, run_start in Hrun. cbn [fst snd] in Hrun.
  apply (f_equal snd) in Hrun. cbn [snd] in Hrun. fold (quiet (removelast (frame m))) in Hrun.
  rewrite <- Hrun. reflexivity.
Qed.

Theorem resync_noise cap d g m :
  norm d = norm init -> only_at_end g -> cap_ok cap (length m) ->
  snd (run cap d (g ++ frame m)) =
  quiet g ++ quiet (firstn 7 start_seq) ++
  [(if 0 <? lenN g then OErr (DiscardedBytes (lenN g)) else ONone, [])] ++
  skipn 8 (quiet (removelast (frame m)) ++ [(OMsg, m)]).
Proof.
  intros Hnorm Honly Hcap. rewrite (run_norm cap _ d init Hnorm).
  rewrite frame_split at 1.
  destruct (noise_quiet cap g [] init 0 0 SInv_init eq_refl ltac:(lia)) as (disc & n & Eg & Hn).
  { intros pre suf H. apply (Honly pre suf). exact H. }
  cbn [raw crc zc rbuf init] in Eg. rewrite N.add_0_l in Eg.
  set (dg := mkdec (lenN g) crc_init (Looking disc n) 0 []) in *.
  destruct (start_from_looking cap dg disc n eq_refl Hn) as (disc1 & E7 & E8).
  (* the count: raw = disc + n in every reachable Looking state *)
  assert (Hd1 : disc1 = lenN g).
  { destruct (run_LInv cap (g ++ firstn 7 start_seq)) as [_ L].
    rewrite run_app, Eg in L. cbn [fst] in L. rewrite E7 in L. cbn [fst] in L.
    unfold LInv in L. cbn [st raw dg] in L. lia. }
  subst disc1.
  rewrite run_app, Eg. cbn [fst snd].
  rewrite run_app, E8. cbn [fst snd dg zc rbuf].
  fold d_start. rewrite (run_after_start cap m Hcap).
  rewrite <- !app_assoc. reflexivity.
Qed.

(* a transmission cut off where no 0x1b run or escape is in progress, then a complete frame *)
Lemma normal_step_27 cap d :
  st d = Normal ->
  step cap d 27 = (mkdec (raw d + 1) (crc_update (crc d) [27]) (EscChars 1) (zc d) (rbuf d), ONone).
Proof.
  intros Hs. unfold step. rewrite Hs. cbn [st raw crc zc rbuf]. rewrite Hs. rewrite N.eqb_refl. reflexivity.
Qed.

Lemma restart_from_normal cap d :
  st d = Normal -> 8 <= raw d ->
  run cap d start_seq =
  (d_start, quiet (firstn 7 start_seq) ++ [(OErr (DiscardedBytes (raw d)), [])]).
Proof.
  intros Hs Hr. unfold start_seq. cbn [run].
  rewrite (normal_step_27 cap d Hs).
  erewrite esc_step_27; [|reflexivity|lia]. cbn [raw crc zc rbuf].
  erewrite esc_step_27; [|reflexivity|lia]. cbn [raw crc zc rbuf].
  erewrite step_escchars_27; [|reflexivity|reflexivity]. cbn [raw crc zc rbuf].
  erewrite step_pay_partial; [|reflexivity|lia]. cbn [raw crc zc rbuf].
  erewrite step_pay_partial; [|reflexivity|lia]. cbn [raw crc zc rbuf].
  erewrite step_pay_partial; [|reflexivity|lia]. cbn [raw crc zc rbuf].
  erewrite step_pay_full; [|reflexivity]. cbn [raw crc zc rbuf].
  norm_nat. cbn [set_nth firstn skipn app].
  unfold step_payload_full. cbn [all27 forallb raw].
  change (1 =? 27) with false. cbn [andb]. rewrite !N.eqb_refl. cbn [andb].
  destruct (N.ltb_spec (raw d + 1 + 1 + 1 + 1 + 1 + 1 + 1 + 1) 8); [lia|].
  cbn [fst snd quiet map firstn app]. unfold d_start.
  replace (raw d + 1 + 1 + 1 + 1 + 1 + 1 + 1 + 1 - 8) with (raw d) by lia. reflexivity.
Qed.

Theorem resync_cutoff cap d q m :
  norm d = norm init -> cnt_from 0 q = 0 ->
  cap_ok cap (length q) -> cap_ok cap (length m) ->
  let x := start_seq ++ enc_from 0 q in
  snd (run cap d (x ++ frame m)) =
  quiet x ++ quiet (firstn 7 start_seq) ++ [(OErr (DiscardedBytes (lenN x)), [])] ++
  skipn 8 (quiet (removelast (frame m)) ++ [(OMsg, m)]).
Proof.
  intros Hnorm Hcnt Hcq Hcap x. rewrite (run_norm cap _ d init Hnorm).
  rewrite frame_split at 1. unfold x.
  assert (B0 : Body 0 d_start) by (unfold Body, d_start; cbn; split; [lia|reflexivity]).
  destruct (body_sim cap q 0 d_start B0 ltac:(lia)) as (d1 & F1 & B1 & L1 & D1 & R1 & C1).
  { unfold dlen, d_start. cbn. exact Hcq. }
  cbn [N.of_nat] in *. rewrite Hcnt in B1. cbn [N.to_nat] in B1. destruct B1 as [Hz1 Hs1].
  rewrite <- !app_assoc.
  rewrite run_app, run_start. cbn [fst snd].
  rewrite run_app, (run_feed cap _ d_start d1 F1). cbn [fst snd].
  rewrite run_app, (restart_from_normal cap d1 Hs1) by (rewrite R1; cbn [raw d_start]; lia). cbn [fst snd].
  rewrite (run_after_start cap m Hcap).
  rewrite R1. cbn [raw d_start].
  unfold quiet. rewrite !map_app. rewrite lenN_app. unfold lenN at 2. cbn [length start_seq N.of_nat].
  rewrite <- !app_assoc. reflexivity.
Qed.

(* a decidable form of the side condition, as the property states it: the start sequence
   occurs in g ++ start sequence at no offset below |g| *)
Definition bytes_eqb (a b : list byte) : bool := if list_eq_dec N.eq_dec a b then true else false.

Definition only_at_end_b (g : list byte) : bool :=
  forallb (fun i => negb (bytes_eqb (firstn 8 (skipn i (g ++ start_seq))) start_seq)) (seq 0 (length g)).

Lemma only_at_end_b_sound g : only_at_end_b g = true -> only_at_end g.
Proof.
  intros H pre suf E.
  destruct suf as [|x suf]; [reflexivity|]. exfalso.
  assert (Hlen : (length pre < length g)%nat).
  { apply (f_equal (@length _)) in E. rewrite !app_length in E. cbn [length] in E. lia. }
  unfold only_at_end_b in H. rewrite forallb_forall in H.
  specialize (H (length pre) ltac:(apply in_seq; lia)).
  rewrite E in H. rewrite skipn_app, skipn_all, Nat.sub_diag in H. cbn [skipn app] in H.
  rewrite firstn_app in H. change (length start_seq) with 8%nat in H.
  rewrite Nat.sub_diag in H. cbn [firstn] in H. rewrite app_nil_r in H.
  change (firstn 8 start_seq) with start_seq in H.
  unfold bytes_eqb in H. destruct (list_eq_dec N.eq_dec start_seq start_seq); [discriminate|congruence].
Qed.
