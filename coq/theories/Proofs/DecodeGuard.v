(* C05 (decoder part): no panic site of push_byte / finalize / reset is reachable.
   [GInv] is the guard invariant; every step from a state satisfying it produces an
   output different from [OPanic] and re-establishes it. *)
Require Import Sml.Base.Prelude Sml.Base.Crc Sml.Spec.Frame Sml.Model.Decode.
Require Import Sml.Proofs.DecodeInv.

Definition GInv (d : dec) : Prop :=
  zc d <= 4 /\
  match st d with
  | Looking disc n => n < 8
  | Normal => 8 <= raw d
  | EscChars n => 1 <= n <= 3 /\ 8 <= raw d
  | EscPayload k pl => k <= 3 /\ length pl = 4%nat /\ 8 <= raw d
  | Done => True
  end.

Lemma GInv_init : GInv init.
Proof. unfold GInv, init; cbn. lia. Qed.

Lemma GInv_reset d : GInv (reset_st d).
Proof. unfold GInv, reset_st; cbn. lia. Qed.

Lemma push_zc cap d b d' : zc d <= 4 -> push cap d b = Some d' ->
  zc d' <= 4 /\ raw d' = raw d /\ st d' = st d.
Proof.
  intros Hz H. apply push_spec in H; [|assumption]. tauto.
Qed.

Lemma push_many_zc cap bs d d' : zc d <= 4 -> push_many cap d bs = Some d' ->
  zc d' <= 4 /\ raw d' = raw d /\ st d' = st d.
Proof.
  intros Hz H. apply push_many_spec in H; [|assumption]. tauto.
Qed.

Lemma set_nth_length l i b : (i < length l)%nat -> length (set_nth l i b) = length l.
Proof.
  intros H. unfold set_nth. rewrite !app_length, firstn_length, skipn_length. cbn [length]. lia.
Qed.

Lemma flush_zc cap d d' : flush cap d = Some d' -> zc d' = 0 /\ raw d' = raw d /\ st d' = st d.
Proof. intros H. apply flush_spec in H. tauto. Qed.

Lemma step_payload_full_guard cap d pl :
  zc d <= 4 -> 8 <= raw d -> length pl = 4%nat ->
  snd (step_payload_full cap d pl) <> OPanic /\ GInv (fst (step_payload_full cap d pl)).
Proof.
  intros Hz Hr Hl. unfold step_payload_full.
  destruct (all27 pl).
  { destruct (push_many cap (upd_crc d pl) pl) as [d'|] eqn:E; cbn [fst snd oom].
    - apply push_many_zc in E; [|exact Hz]. destruct E as (Ez & Er & Es).
      split; [discriminate|]. unfold GInv. cbn [set_st zc st raw]. cbn [upd_crc raw] in Er. lia.
    - split; [discriminate|apply GInv_reset]. }
  destruct (forallb (fun x => x =? 1) pl).
  { destruct (N.ltb_spec (raw d) 8); [lia|]. cbn [fst snd]. split; [discriminate|].
    unfold GInv. cbn. lia. }
  destruct (nth 0 pl 0 =? 26).
  { match goal with |- context [if ?c then _ else _] => destruct c eqn:Chk end; cbn [fst snd].
    - split; [discriminate|apply GInv_reset].
    - destruct (flush cap _) as [d'|] eqn:E; cbn [fst snd oom].
      + apply flush_zc in E. destruct E as (Ez & Er & Es).
        split; [discriminate|]. unfold GInv. cbn [set_st zc st]. lia.
      + split; [discriminate|apply GInv_reset]. }
  match goal with |- context [if ?c then _ else _] => destruct c eqn:Chk end; cbn [fst snd].
  - destruct (push_many cap _ _) as [d'|] eqn:E; cbn [fst snd oom].
    + apply push_many_zc in E; [|exact Hz]. destruct E as (Ez & Er & Es).
      split; [discriminate|]. unfold GInv. cbn [set_st zc st raw]. cbn [upd_crc raw] in Er.
      set (k := N.to_nat ((4 - raw d mod 4) mod 4)) in *.
      assert (Hk : (k <= 3)%nat) by (unfold k; lia).
      rewrite app_length, !skipn_length, Hl. lia.
    + split; [discriminate|apply GInv_reset].
  - split; [discriminate|apply GInv_reset].
Qed.

Theorem step_guard cap d b :
  GInv d -> snd (step cap d b) <> OPanic /\ GInv (fst (step cap d b)).
Proof.
  intros [Hz Hs]. unfold step.
  set (d0' := match st d with Done => reset_st d | _ => d end).
  assert (G0 : GInv d0').
  { unfold d0'. destruct (st d) eqn:E; try (split; [exact Hz|rewrite E; exact Hs]). apply GInv_reset. }
  assert (ND : st d0' <> Done).
  { unfold d0'. destruct (st d) eqn:E; try (rewrite E; discriminate). cbn. discriminate. }
  destruct G0 as [Hz0 Hs0]. clearbody d0'. clear Hz Hs d.
  cbn [st raw crc zc rbuf].
  destruct (st d0') as [disc n| |n|k pl|] eqn:S0; [| | | |congruence].
  - (* Looking *)
    unfold step_looking.
    destruct (((b =? 27) && (n <? 4)) || ((b =? 1) && (4 <=? n))) eqn:M.
    + destruct (N.leb_spec 255 n); [lia|].
      destruct (N.eqb_spec (n + 1) 8).
      * destruct (0 <? disc); cbn [fst snd]; (split; [discriminate|]); unfold GInv; cbn; lia.
      * cbn [fst snd]. split; [discriminate|]. unfold GInv. cbn. lia.
    + destruct (N.eqb_spec b 27) as [->|Hb].
      * assert (4 <= n).
        { destruct (N.ltb_spec n 4); [|assumption].
          rewrite ?N.eqb_refl in M. cbn [andb orb] in M. discriminate. }
        destruct (N.eqb_spec n 4).
        -- destruct (N.ltb_spec n 4); [lia|]. cbn [fst snd]. split; [discriminate|]. unfold GInv. cbn. lia.
        -- destruct (N.ltb_spec n 1); [lia|]. cbn [fst snd]. split; [discriminate|]. unfold GInv. cbn. lia.
      * cbn [fst snd]. split; [discriminate|]. unfold GInv. cbn. lia.
  - (* Normal *)
    destruct (b =? 27).
    + cbn [fst snd]. split; [discriminate|]. unfold GInv. cbn. lia.
    + destruct (push cap _ b) as [d'|] eqn:E; cbn [fst snd oom].
      * apply push_zc in E; [|cbn; exact Hz0]. destruct E as (Ez & Er & Es).
        split; [discriminate|]. unfold GInv. rewrite Es. cbn. cbn in Er. lia.
      * split; [discriminate|apply GInv_reset].
  - (* EscChars *)
    destruct Hs0 as [Hn Hr].
    destruct (negb (b =? 27)).
    + destruct (push_many cap _ _) as [d'|] eqn:E; cbn [fst snd oom].
      * apply push_many_zc in E; [|cbn; exact Hz0]. destruct E as (Ez & Er & Es).
        split; [discriminate|]. unfold GInv. cbn [set_st zc st raw]. cbn in Er. lia.
      * split; [discriminate|apply GInv_reset].
    + destruct (N.eqb_spec n 3).
      * cbn [fst snd]. split; [discriminate|]. unfold GInv. cbn. lia.
      * destruct (N.leb_spec 255 n); [lia|]. cbn [fst snd]. split; [discriminate|]. unfold GInv. cbn. lia.
  - (* EscPayload *)
    destruct Hs0 as (Hk & Hl & Hr).
    destruct (N.ltb_spec 3 k); [lia|].
    destruct (N.ltb_spec k 3).
    + cbn [fst snd]. split; [discriminate|]. unfold GInv. cbn [set_st zc st raw].
      rewrite set_nth_length by lia. lia.
    + apply step_payload_full_guard; cbn [zc raw]; try lia.
      rewrite set_nth_length by lia. exact Hl.
Qed.

Lemma step_msg_done cap d b : snd (step cap d b) = OMsg -> st (fst (step cap d b)) = Done.
Proof.
  unfold step.
  set (d0' := match st d with Done => reset_st d | _ => d end).
  destruct (st {| raw := raw d0' + 1; crc := crc d0'; st := st d0'; zc := zc d0'; rbuf := rbuf d0' |}) eqn:S;
    cbn [st] in S; rewrite ?S.
  - unfold step_looking, panic.
    repeat match goal with |- context [if ?c then _ else _] => destruct c end; cbn [snd]; discriminate.
  - unfold panic; repeat match goal with |- context [if ?c then _ else _] => destruct c end;
      repeat match goal with |- context [match ?c with Some _ => _ | None => _ end] => destruct c end;
      cbn [snd]; discriminate.
  - unfold panic; repeat match goal with |- context [if ?c then _ else _] => destruct c end;
      repeat match goal with |- context [match ?c with Some _ => _ | None => _ end] => destruct c end;
      cbn [snd]; discriminate.
  - unfold step_payload_full, panic.
    repeat match goal with |- context [if ?c then _ else _] => destruct c end;
      repeat match goal with |- context [match ?c with Some _ => _ | None => _ end] => destruct c end;
      cbn [snd fst st set_st]; try discriminate; reflexivity.
  - cbn [snd panic]. discriminate.
Qed.

(* ---------- histories ---------- *)
Definition ev_panics (e : ev) : bool :=
  match e with EvPush OPanic _ => true | _ => false end.

Lemma do_op_guard cap d o :
  GInv d -> ev_panics (snd (do_op cap d o)) = false /\ GInv (fst (do_op cap d o)).
Proof.
  intros G. destruct o as [b| | |]; cbn [do_op].
  - pose proof (step_guard cap d b G) as [Hp Hg].
    pose proof (step_msg_done cap d b) as Hm.
    destruct (step cap d b) as [d' r]. cbn [fst snd] in *.
    destruct r; cbn [fst snd ev_panics]; try (split; [reflexivity|exact Hg]).
    + rewrite Hm by reflexivity. cbn [fst snd ev_panics]. split; [reflexivity|exact Hg].
    + congruence.
  - cbn [finalize fst snd ev_panics]. split; [reflexivity|apply GInv_reset].
  - cbn [reset fst snd ev_panics]. split; [reflexivity|apply GInv_reset].
  - cbn [fst snd ev_panics]. split; [reflexivity|apply GInv_init].
Qed.

Theorem run_ops_no_panic cap : forall ops d,
  GInv d -> forallb (fun e => negb (ev_panics e)) (snd (run_ops cap d ops)) = true /\
            GInv (fst (run_ops cap d ops)).
Proof.
  induction ops as [|o r IH]; intros d G; cbn [run_ops].
  - split; [reflexivity|exact G].
  - pose proof (do_op_guard cap d o G) as [Hp Hg].
    destruct (do_op cap d o) as [d' e]. cbn [fst snd] in *.
    specialize (IH d' Hg). destruct (run_ops cap d' r) as [d'' es]. cbn [fst snd] in *.
    destruct IH as [IH1 IH2]. split; [|exact IH2].
    cbn [forallb]. rewrite Hp, IH1. reflexivity.
Qed.
