(* Consequences for whole streams: reachable states, all front-ends on the canonical frame
   (C01), agreement of the front-ends (C15). *)
Require Import Sml.Base.Prelude Sml.Base.Crc Sml.Spec.Frame Sml.Model.Decode Sml.Model.Encode.
Require Import Sml.Model.Frontends Sml.Model.Parser Sml.Model.Reader.
Require Import Sml.Proofs.DecodeInv Sml.Proofs.EncFold Sml.Proofs.DecodeGuard Sml.Proofs.DecodeSound.
Require Import Sml.Proofs.Account Sml.Proofs.RoundTrip Sml.Proofs.FrontendsAgree Sml.Proofs.EncodeCorrect.

Lemma run_reach cap : forall s d c1 c2,
  GInv d -> TInv d c1 c2 ->
  GInv (fst (run cap d s)) /\ exists c1' c2', TInv (fst (run cap d s)) c1' c2'.
Proof.
  induction s as [|b r IH]; intros d c1 c2 G T; cbn [run].
  - cbn [fst]. split; [exact G|]. exists c1, c2. exact T.
  - pose proof (step_guard cap d b G) as [_ Hg].
    pose proof (step_tinv cap d b c1 c2 G T) as P.
    destruct (step cap d b) as [d' o]. cbn [fst snd] in *.
    assert (T' : exists a b0, TInv d' a b0).
    { destruct o as [| |e|]; cbn [step_post] in P.
      - eauto.
      - destruct P as [Pd _]. exists 0, 0. unfold TInv. rewrite Pd. reflexivity.
      - destruct e; try (destruct P as [_ P]); eauto.
      - contradiction. }
    destruct T' as (a & b0 & T').
    specialize (IH d' a b0 Hg T'). destruct (run cap d' r) as [d'' os]. cbn [fst] in *. exact IH.
Qed.

Lemma TInv_LInv d c1 c2 : GInv d -> TInv d c1 c2 -> LInv d.
Proof.
  unfold GInv, TInv, LInv. intros [_ G] T. destruct (st d); try tauto; lia.
Qed.

Lemma run_LInv cap s : GInv (fst (run cap init s)) /\ LInv (fst (run cap init s)).
Proof.
  destruct (run_reach cap s init 0 0 GInv_init (TInv_init 0)) as (G & a & b & T).
  split; [exact G|]. eapply TInv_LInv; eassumption.
Qed.

(* ---------- C15 ---------- *)
Theorem frontends_agree s :
  decode_fn s = results (snd (run None init s)) ++ fin (fst (run None init s)) /\
  (forall cap,
     snd (di_all cap (length s + 2) (di_new s)) = results (snd (run cap init s)) ++ fin (fst (run cap init s)) /\
     (forall k, di_extra cap k (fst (di_all cap (length s + 2) (di_new s))) = repeat None k)) /\
  (forall cap kind, kind <> KEh ->
     snd (rd_all cap (length s + 2) (rd_new kind (map SByte s))) =
     map to_rd (results (snd (run cap init s))) ++ map eof_of (fin (fst (run cap init s)))).
Proof.
  split; [apply decode_fn_spec|]. split.
  - intros cap. destruct (di_all_spec cap s init (length s + 2) GInv_init ltac:(lia)) as [A B].
    split; [exact A|]. intros k. apply di_done_forever. exact B.
  - intros cap kind Hk. unfold rd_new.
    rewrite (rd_all_spec cap kind Hk s init (length s + 2) GInv_init ltac:(lia)).
    rewrite leftover_fin by apply run_LInv. reflexivity.
Qed.

(* ---------- C01 ---------- *)
Lemma results_quiet (l : list byte) : results (map (fun _ => (ONone, @nil byte)) l) = [].
Proof. induction l; cbn [map results]; auto. Qed.

Theorem roundtrip_all cap p :
  cap_ok cap (length p) ->
  (* both encoders produce the frame *)
  enc_collect p = frame p /\ encode_buf None p = Some (frame p) /\
  (* push decoder: nothing until the last byte, then exactly p; finalize reports nothing *)
  (exists d', run cap init (frame p) =
              (d', map (fun _ => (ONone, [])) (removelast (frame p)) ++ [(OMsg, p)]) /\
              snd (finalize d') = None) /\
  (* decode(), decode_streaming (then None forever), readers over slice / iterator / io::Read *)
  decode_fn (frame p) = [RMsg p] /\
  (snd (di_all cap (length (frame p) + 2) (di_new (frame p))) = [RMsg p] /\
   forall k, di_extra cap k (fst (di_all cap (length (frame p) + 2) (di_new (frame p)))) = repeat None k) /\
  (forall kind, kind <> KEh ->
     snd (rd_all cap (length (frame p) + 2) (rd_new kind (map SByte (frame p)))) = [RdOk p]).
Proof.
  intros Hcap.
  destruct (frame_roundtrip cap p Hcap) as (d' & Hrun & Hd & _).
  destruct (frame_roundtrip None p I) as (d0 & Hrun0 & Hd0 & _).
  assert (Hfin : forall d, st d = Done -> snd (finalize d) = None).
  { intros d H. unfold finalize. cbn [snd]. rewrite H. reflexivity. }
  assert (Hf0 : forall d, st d = Done -> fin d = []).
  { intros d H. unfold fin. rewrite (Hfin d H). reflexivity. }
  destruct (frontends_agree (frame p)) as (A & B & C).
  split; [apply enc_collect_correct|]. split; [apply (encode_buf_correct None)|].
  split; [exists d'; split; [exact Hrun|apply Hfin; exact Hd]|].
  split.
  { rewrite A, Hrun0. cbn [fst snd]. rewrite results_app, results_quiet, (Hf0 d0 Hd0). reflexivity. }
  split.
  { destruct (B cap) as [B1 B2]. split; [|exact B2].
    rewrite B1, Hrun. cbn [fst snd]. rewrite results_app, results_quiet, (Hf0 d' Hd). reflexivity. }
  intros kind Hk. rewrite (C cap kind Hk), Hrun. cbn [fst snd].
  rewrite results_app, results_quiet, (Hf0 d' Hd). reflexivity.
Qed.
