(* C15: decode(), decode_streaming and the readers report what the push decoder reports. *)
Require Import Sml.Base.Prelude Sml.Base.Crc Sml.Spec.Frame Sml.Model.Decode Sml.Model.Frontends.
Require Import Sml.Model.Parser Sml.Model.Reader.
Require Import Sml.Proofs.DecodeInv Sml.Proofs.DecodeGuard Sml.Proofs.TransportTotal.

(* the results contained in a push-decoder run *)
Fixpoint results (os : list (out * list byte)) : list res :=
  match os with
  | [] => []
  | (ONone, _) :: r => results r
  | (OMsg, m) :: r => RMsg m :: results r
  | (OErr e, _) :: r => RErr e :: results r
  | (OPanic, _) :: r => RPanic :: results r
  end.

Definition fin (d : dec) : list res :=
  match snd (finalize d) with Some e => [RErr e] | None => [] end.

Lemma results_app a b : results (a ++ b) = results a ++ results b.
Proof.
  induction a as [|[o m] r IH]; cbn [app results]; [reflexivity|].
  destruct o; rewrite IH; reflexivity.
Qed.

(* push_res is step + the payload *)
Lemma push_res_run cap d b :
  GInv d ->
  push_res cap d b =
  (fst (step cap d b),
   match snd (step cap d b) with
   | ONone => None
   | OMsg => Some (RMsg (frev (rbuf (fst (step cap d b)))))
   | OErr e => Some (RErr e)
   | OPanic => Some RPanic
   end).
Proof.
  intros G. unfold push_res. pose proof (step_msg_done cap d b) as Hm.
  destruct (step cap d b) as [d' o]. cbn [fst snd] in *.
  destruct o; try reflexivity. rewrite Hm by reflexivity. reflexivity.
Qed.

(* ---------- decode() ---------- *)
Theorem decode_loop_spec : forall s d,
  GInv d ->
  decode_loop d s = results (snd (run None d s)) ++ fin (fst (run None d s)).
Proof.
  induction s as [|b r IH]; intros d G; cbn [decode_loop run].
  - reflexivity.
  - rewrite (push_res_run None d b G).
    pose proof (step_guard None d b G) as [Hp Hg].
    destruct (step None d b) as [d' o]. cbn [fst snd] in *.
    specialize (IH d' Hg). destruct (run None d' r) as [d'' os]. cbn [fst snd] in *.
    destruct o; cbn [results app]; try (rewrite IH; reflexivity). congruence.
Qed.

Corollary decode_fn_spec s :
  decode_fn s = results (snd (run None init s)) ++ fin (fst (run None init s)).
Proof. apply decode_loop_spec, GInv_init. Qed.

(* ---------- decode_streaming ---------- *)
(* all items the iterator yields until it returns None *)
Theorem di_all_spec cap : forall s d lim,
  GInv d -> (length s + 1 < lim)%nat ->
  snd (di_all cap lim (mkdi d s false)) = results (snd (run cap d s)) ++ fin (fst (run cap d s)) /\
  di_done (fst (di_all cap lim (mkdi d s false))) = true.
Proof.
  induction s as [|b r IH]; intros d lim G Hl.
  - destruct lim as [|[|l]]; try (cbn in Hl; lia).
    cbn [di_all di_next di_done di_dec di_bytes di_loop run fst snd results app].
    unfold fin. cbn [finalize fst snd].
    destruct (match st d with Looking 0 0 => None | Done => None | _ => Some (DiscardedBytes (raw d)) end) eqn:E.
    + cbn [di_all di_next di_done fst snd]. split; reflexivity.
    + cbn [fst snd]. split; reflexivity.
  - destruct lim as [|l]; [lia|].
    pose proof (step_guard cap d b G) as [Hp Hg].
    pose proof (IH (fst (step cap d b)) (S l) Hg ltac:(cbn [length] in Hl; lia)) as IHsame.
    pose proof (IH (fst (step cap d b)) l Hg ltac:(cbn [length] in Hl; lia)) as IHnext.
    cbn [di_all di_next di_done di_dec di_bytes di_loop run] in *.
    rewrite (push_res_run cap d b G).
    destruct (step cap d b) as [d' o]. cbn [fst snd] in *.
    destruct (run cap d' r) as [d'' os] eqn:Er. cbn [fst snd] in *.
    destruct o as [| |e|]; cbn [results app].
    + exact IHsame.
    + destruct IHnext as [IH1 IH2]. destruct (di_all cap l (mkdi d' r false)) as [it'' xs]. cbn [fst snd] in *.
      split; [rewrite IH1; reflexivity|exact IH2].
    + destruct IHnext as [IH1 IH2]. destruct (di_all cap l (mkdi d' r false)) as [it'' xs]. cbn [fst snd] in *.
      split; [rewrite IH1; reflexivity|exact IH2].
    + congruence.
Qed.

(* once it has returned None it returns None forever *)
Lemma di_done_forever cap : forall k it, di_done it = true -> di_extra cap k it = repeat None k.
Proof.
  induction k as [|k IH]; intros it H; cbn [di_extra repeat]; [reflexivity|].
  unfold di_next. rewrite H. rewrite IH by exact H. reflexivity.
Qed.

(* ---------- readers over a fault-free byte source ---------- *)
Definition to_rd (x : res) : rdres :=
  match x with RMsg m => RdOk m | RErr e => RdDecErr e | RPanic => RdPanic end.

(* call next() until it returns None (at most [lim] calls) *)
Fixpoint rd_all (cap : cap_t) (lim : nat) (r : reader) : reader * list rdres :=
  match lim with
  | O => (r, [RdPanic])
  | S l =>
      match dr_next cap r with
      | (r', Some x) => let '(r'', xs) := rd_all cap l r' in (r'', x :: xs)
      | (r', None) => (r', [])
      end
  end.

(* what end of input reports: the not yet reported bytes, if any *)
Definition leftover (d : dec) : list rdres :=
  if reset_cnt d =? 0 then [] else [RdIoErr EkEof (reset_cnt d)].

Lemma dr_read_cons cap d k b r :
  k <> KEh ->
  dr_read cap (mkrd d k (map SByte (b :: r))) =
  match snd (push_res cap d b) with
  | None => dr_read cap (mkrd (fst (push_res cap d b)) k (map SByte r))
  | Some x => (mkrd (fst (push_res cap d b)) k (map SByte r), to_rd x)
  end.
Proof.
  intros Hk. unfold dr_read. cbn [rd_src map length dr_read_loop rd_kind rd_dec src_read].
  destruct (push_res cap d b) as [d' o]. cbn [fst snd].
  destruct o as [[m|e|]|]; cbn [to_rd rd_src]; try reflexivity.
Qed.

Lemma dr_read_nil cap d k :
  k <> KEh -> dr_read cap (mkrd d k []) = (mkrd (reset_st d) k [], RdIoErr EkEof (reset_cnt d)).
Proof.
  intros Hk. unfold dr_read. cbn [rd_src length dr_read_loop rd_kind rd_dec src_read].
  destruct k; try congruence; reflexivity.
Qed.

Theorem rd_all_spec cap k : k <> KEh -> forall s d lim,
  GInv d -> (length s + 1 < lim)%nat ->
  snd (rd_all cap lim (mkrd d k (map SByte s))) =
  map to_rd (results (snd (run cap d s))) ++ leftover (fst (run cap d s)).
Proof.
  intros Hk. induction s as [|b r IH]; intros d lim G Hl.
  - destruct lim as [|[|l]]; try (cbn in Hl; lia).
    cbn [rd_all run fst snd results map app]. unfold dr_next at 1. cbn [map]. rewrite dr_read_nil by exact Hk.
    unfold leftover.
    destruct (N.eqb_spec (reset_cnt d) 0) as [E|NE].
    + rewrite E. reflexivity.
    + destruct (reset_cnt d) eqn:Ec; [congruence|].
      unfold dr_next. rewrite dr_read_nil by exact Hk. cbn [reset_cnt reset_st st raw]. reflexivity.
  - destruct lim as [|l]; [lia|].
    pose proof (step_guard cap d b G) as [Hp Hg].
    pose proof (IH (fst (step cap d b)) (S l) Hg ltac:(cbn [length] in Hl; lia)) as IHsame.
    pose proof (IH (fst (step cap d b)) l Hg ltac:(cbn [length] in Hl; lia)) as IHnext.
    cbn [rd_all run] in *. unfold dr_next in *. rewrite dr_read_cons by exact Hk.
    rewrite (push_res_run cap d b G).
    destruct (step cap d b) as [d' o]. cbn [fst snd] in *.
    destruct (run cap d' r) as [d'' os] eqn:Er. cbn [fst snd] in *.
    destruct o as [| |e|]; cbn [results map app to_rd].
    + exact IHsame.
    + destruct (rd_all cap l (mkrd d' k (map SByte r))) as [r'' xs]. cbn [fst snd] in *.
      rewrite IHnext. reflexivity.
    + destruct (rd_all cap l (mkrd d' k (map SByte r))) as [r'' xs]. cbn [fst snd] in *.
      rewrite IHnext. reflexivity.
    + congruence.
Qed.

(* finalize reports nothing iff reset/end-of-input report zero bytes, and otherwise the same count *)
Definition LInv (d : dec) : Prop :=
  match st d with
  | Looking disc n => raw d = disc + n
  | Done => True
  | _ => 8 <= raw d
  end.

Definition eof_of (x : res) : rdres :=
  match x with RErr (DiscardedBytes n) => RdIoErr EkEof n | _ => to_rd x end.

Lemma leftover_fin d : LInv d -> leftover d = map eof_of (fin d).
Proof.
  unfold LInv, leftover, fin, reset_cnt. cbn [finalize snd].
  destruct (st d) as [disc n| | | |] eqn:E; intros H.
  - destruct disc as [|pd]; [destruct n as [|pn]|].
    + rewrite H. reflexivity.
    + destruct (N.eqb_spec (raw d) 0); [lia|]. reflexivity.
    + destruct (N.eqb_spec (raw d) 0); [lia|]. reflexivity.
  - destruct (N.eqb_spec (raw d) 0); [lia|]. reflexivity.
  - destruct (N.eqb_spec (raw d) 0); [lia|]. reflexivity.
  - destruct (N.eqb_spec (raw d) 0); [lia|]. reflexivity.
  - reflexivity.
Qed.
