(* C05: no transport entry point panics or runs out of fuel, for any input and any order of
   calls.  Decoder histories: DecodeGuard.v.  Here: iterator encoder for any number of calls,
   decode / decode_streaming, and the reader front-ends (read / next / read_nb / next_nb). *)
Require Import Sml.Base.Prelude Sml.Base.Crc Sml.Spec.Frame Sml.Model.Decode Sml.Model.Encode.
Require Import Sml.Model.Frontends Sml.Model.Parser Sml.Model.Reader.
Require Import Sml.Proofs.DecodeInv Sml.Proofs.DecodeGuard Sml.Proofs.EncodeCorrect.

(* ---------- iterator encoder: any number of next() calls ---------- *)
Lemma enc_after_no_panic : forall k e, valid e -> ~ In EPanic (enc_after k e).
Proof.
  induction k as [|k IH]; intros e V; cbn [enc_after]; [intros []|].
  pose proof (next_step e V) as S. unfold step_ok in S.
  destruct (out_of e) as [|b rest].
  - rewrite S. cbn [In]. intros [H|H]; [discriminate|]. eapply IH; eassumption.
  - destruct S as (e1 & Hs & _ & V1). rewrite Hs. cbn [In].
    intros [H|H]; [discriminate|]. eapply IH; eassumption.
Qed.

(* ---------- push_res ---------- *)
Lemma push_res_guard cap d b :
  GInv d -> snd (push_res cap d b) <> Some RPanic /\ GInv (fst (push_res cap d b)).
Proof.
  intros G. unfold push_res.
  pose proof (step_guard cap d b G) as [Hp Hg].
  pose proof (step_msg_done cap d b) as Hm.
  destruct (step cap d b) as [d' o]. cbn [fst snd] in *.
  destruct o; cbn [fst snd]; try (split; [discriminate|exact Hg]).
  - rewrite Hm by reflexivity. cbn [fst snd]. split; [discriminate|exact Hg].
  - congruence.
Qed.

(* ---------- decode() ---------- *)
Lemma decode_loop_no_panic : forall s d, GInv d -> ~ In RPanic (decode_loop d s).
Proof.
  induction s as [|b r IH]; intros d G; cbn [decode_loop].
  - destruct (snd (finalize d)); cbn [In]; [intros [H|[]]; discriminate|intros []].
  - pose proof (push_res_guard None d b G) as [Hp Hg].
    destruct (push_res None d b) as [d' o]. cbn [fst snd] in *.
    destruct o as [[m|e|]|]; try congruence; cbn [In];
      try (intros [H|H]; [discriminate|eapply IH; eassumption]).
    eapply IH; eassumption.
Qed.

Theorem decode_fn_no_panic s : ~ In RPanic (decode_fn s).
Proof. apply decode_loop_no_panic, GInv_init. Qed.

(* ---------- DecodeIterator ---------- *)
Lemma di_loop_guard cap : forall s d,
  GInv d -> snd (di_loop cap d s) <> Some RPanic /\ GInv (di_dec (fst (di_loop cap d s))).
Proof.
  induction s as [|b r IH]; intros d G; cbn [di_loop].
  - cbn [finalize]. cbn [fst snd di_dec]. split; [|apply GInv_reset].
    destruct (st d) as [disc n| | | |]; try discriminate. destruct disc; try discriminate. destruct n; discriminate.
  - pose proof (push_res_guard cap d b G) as [Hp Hg].
    destruct (push_res cap d b) as [d' o]. cbn [fst snd] in *.
    destruct o as [x|]; cbn [fst snd di_dec].
    + split; [exact Hp|exact Hg].
    + apply IH. exact Hg.
Qed.

Lemma di_next_guard cap it :
  GInv (di_dec it) -> snd (di_next cap it) <> Some RPanic /\ GInv (di_dec (fst (di_next cap it))).
Proof.
  intros G. unfold di_next. destruct (di_done it); cbn [fst snd].
  - split; [discriminate|exact G].
  - apply di_loop_guard. exact G.
Qed.

Theorem di_extra_no_panic cap : forall k it, GInv (di_dec it) -> ~ In (Some RPanic) (di_extra cap k it).
Proof.
  induction k as [|k IH]; intros it G; cbn [di_extra]; [intros []|].
  pose proof (di_next_guard cap it G) as [Hp Hg].
  destruct (di_next cap it) as [it' o]. cbn [fst snd In] in *.
  intros [H|H]; [congruence|]. eapply IH; eassumption.
Qed.

(* ---------- byte sources and DecoderReader ---------- *)
Lemma src_read_shrinks k : forall evs evs' b,
  src_read k evs = (evs', inl b) -> (length evs' < length evs)%nat.
Proof.
  induction evs as [|e r IH]; intros evs' b H; cbn [src_read] in H; [discriminate|].
  destruct e; try (destruct k; inversion H; subst; cbn [length]; lia).
  destruct k; try (inversion H; fail).
  apply IH in H. cbn [length]. lia.
Qed.

Lemma dr_read_loop_guard cap : forall fuel r,
  GInv (rd_dec r) -> (length (rd_src r) < fuel)%nat ->
  snd (dr_read_loop fuel cap r) <> RdPanic /\ GInv (rd_dec (fst (dr_read_loop fuel cap r))).
Proof.
  induction fuel as [|f IH]; intros r G Hf; [lia|].
  cbn [dr_read_loop].
  destruct (src_read (rd_kind r) (rd_src r)) as [src' x] eqn:Es.
  destruct x as [b|k].
  - apply src_read_shrinks in Es.
    pose proof (push_res_guard cap (rd_dec r) b G) as [Hp Hg].
    destruct (push_res cap (rd_dec r) b) as [d' o]. cbn [fst snd] in *.
    destruct o as [[m|e|]|]; try congruence; cbn [fst snd rd_dec]; try (split; [discriminate|exact Hg]).
    apply IH; cbn [rd_dec rd_src]; [exact Hg|lia].
  - destruct k; cbn [reset fst snd rd_dec]; (split; [discriminate|]); try apply GInv_reset; exact G.
Qed.

Lemma dr_read_guard cap r :
  GInv (rd_dec r) -> snd (dr_read cap r) <> RdPanic /\ GInv (rd_dec (fst (dr_read cap r))).
Proof. intros G. unfold dr_read. apply dr_read_loop_guard; [exact G|lia]. Qed.

(* any sequence of read / next / read_nb / next_nb for raw bytes never panics *)
Definition call_panics (c : callres) : bool := match c with CItem IPanic => true | _ => false end.

Lemma sr_call_bytes_guard cap mt r :
  GInv (rd_dec r) ->
  call_panics (snd (sr_call cap mt TBytes r)) = false /\ GInv (rd_dec (fst (sr_call cap mt TBytes r))).
Proof.
  intros G. pose proof (dr_read_guard cap r G) as [Hp Hg].
  destruct mt; unfold sr_call, dr_next, dr_next_nb, dr_read_nb;
    destruct (dr_read cap r) as [r' x]; cbn [fst snd] in *.
  - (* read *)
    split; [|exact Hg]. destruct x; try congruence; reflexivity.
  - (* next *)
    destruct x as [m|e|k n|]; try congruence; cbn [fst snd]; try (split; [reflexivity|exact Hg]).
    destruct k; cbn [fst snd]; try (split; [reflexivity|exact Hg]).
    destruct n; cbn [fst snd]; (split; [reflexivity|exact Hg]).
  - (* read_nb *)
    destruct x as [m|e|k n|]; try congruence; cbn [fst snd]; try (split; [reflexivity|exact Hg]).
    destruct k; cbn [fst snd]; (split; [reflexivity|exact Hg]).
  - (* next_nb *)
    destruct x as [m|e|k n|]; try congruence; cbn [fst snd]; try (split; [reflexivity|exact Hg]).
    destruct k; cbn [fst snd]; try (split; [reflexivity|exact Hg]).
    destruct n; cbn [fst snd]; (split; [reflexivity|exact Hg]).
Qed.

Theorem sr_calls_bytes_no_panic cap : forall calls r,
  GInv (rd_dec r) -> Forall (fun c => snd c = TBytes) calls ->
  forallb (fun c => negb (call_panics c)) (sr_calls cap calls r) = true.
Proof.
  induction calls as [|[mt t] cs IH]; intros r G Hall; cbn [sr_calls]; [reflexivity|].
  inversion Hall as [|? ? Ht Hr]; subst. cbn [snd] in Ht. subst t.
  pose proof (sr_call_bytes_guard cap mt r G) as [Hp Hg].
  destruct (sr_call cap mt TBytes r) as [r' x]. cbn [fst snd] in *.
  cbn [forallb]. rewrite Hp. cbn [negb andb]. apply IH; assumption.
Qed.
