(* C02: the push decoder reports a payload only when the consumed bytes end with its
   canonical frame.  One invariant [SInv] over all decoder states, one preservation lemma
   per state. *)
Require Import Sml.Base.Prelude Sml.Base.Crc Sml.Spec.Frame Sml.Model.Decode.
Require Import Sml.Proofs.DecodeInv Sml.Proofs.EncFold.

Definition fed (d : dec) (x : list byte) : Prop :=
  crc d = crc_update crc_init (start_seq ++ x).

Inductive SInv (cs : list byte) (d : dec) : Prop :=
| SI_look disc n pre :
    st d = Looking disc n -> n < 8 -> cs = pre ++ firstn (N.to_nat n) start_seq ->
    rbuf d = [] -> zc d = 0 -> SInv cs d
| SI_normal pre body :
    st d = Normal -> cs = pre ++ start_seq ++ body ->
    enc_fold (data d) = (body, 0) -> fed d body -> raw d = 8 + lenN body -> zc d <= 4 -> SInv cs d
| SI_esc n pre body :
    st d = EscChars n -> 1 <= n <= 3 -> cs = pre ++ start_seq ++ body ++ repeat 27 (N.to_nat n) ->
    enc_fold (data d) = (body, 0) -> fed d (body ++ repeat 27 (N.to_nat n)) ->
    raw d = 8 + lenN body + n -> zc d <= 4 -> SInv cs d
| SI_pay k pl pre body c :
    st d = EscPayload k pl -> k <= 3 -> length pl = 4%nat ->
    cs = pre ++ start_seq ++ body ++ repeat 27 4 ++ firstn (N.to_nat k) pl ->
    enc_fold (data d) = (body, c) -> (c = 0 \/ (1 <= k /\ nth 0 pl 0 = 26)) ->
    fed d (body ++ repeat 27 4) -> raw d = 8 + lenN body + 4 + k -> zc d <= 4 ->
    Forall (fun b => b < 256) (firstn (N.to_nat k) pl) -> SInv cs d
| SI_done pre :
    st d = Done -> cs = pre ++ frame_enc (rev (rbuf d)) ->
    raw d = lenN (frame_enc (rev (rbuf d))) -> SInv cs d.

Lemma SInv_init : SInv [] init.
Proof. eapply SI_look with (pre := []); simpl; eauto; lia. Qed.

Lemma reset_inv cs d : SInv cs (reset_st d).
Proof. eapply SI_look with (pre := cs) (n := 0); simpl; eauto; try lia. rewrite app_nil_r; auto. Qed.

Lemma fed_snoc d x b : fed d x -> crc_update (crc d) [b] = crc_update crc_init (start_seq ++ x ++ [b]).
Proof.
  unfold fed. intros ->. rewrite <- crc_update_app, <- app_assoc. reflexivity.
Qed.

Lemma fed_step d x b x' :
  fed d x -> x' = x ++ [b] -> crc_update (crc d) [b] = crc_update crc_init (start_seq ++ x').
Proof. intros H ->. apply fed_snoc; assumption. Qed.

(* ---- Normal state ---- *)
Lemma step_normal_inv cap cs d b :
  SInv cs d -> st d = Normal ->
  SInv (cs ++ [b]) (fst (step cap d b)).
Proof.
  intros I Hst. inversion I; try congruence.
  match goal with H : cs = _ |- _ => rename H into Hcs end.
  match goal with H : enc_fold _ = _ |- _ => rename H into Henc end.
  match goal with H : fed _ _ |- _ => rename H into Hfed end.
  match goal with H : raw d = _ |- _ => rename H into Hraw end.
  match goal with H : zc d <= 4 |- _ => rename H into Hzc end.
  unfold step. rewrite Hst. cbn [st raw crc zc rbuf]. rewrite Hst.
  destruct (N.eqb_spec b 27) as [->|Hb].
  - (* first 1b *)
    cbn [fst]. eapply SI_esc with (n := 1) (pre := pre) (body := body); cbn [st set_st upd_crc raw crc zc rbuf]; auto; try lia.
    + rewrite Hcs, <- !app_assoc. reflexivity.
    + unfold fed. cbn [crc]. apply fed_snoc. exact Hfed.
  - destruct (push cap _ b) as [d'|] eqn:E.
    + cbn [fst]. apply push_spec in E; [|cbn [zc]; assumption].
      destruct E as (Ed & Er & Ec & Es & Ez).
      eapply SI_normal with (pre := pre) (body := body ++ [b]).
      * rewrite Es. reflexivity.
      * rewrite Hcs, <- !app_assoc. reflexivity.
      * rewrite Ed. unfold data at 1. cbn [rbuf zc]. fold (data d).
        eapply enc_fold_snoc_other; eauto.
      * unfold fed. rewrite Ec. cbn [crc]. apply fed_snoc. exact Hfed.
      * rewrite Er. cbn [raw upd_crc]. rewrite lenN_app. unfold lenN at 2. cbn [length]. lia.
      * exact Ez.
    + cbn [fst oom]. apply reset_inv.
Qed.

(* ---- EscChars state ---- *)
Lemma step_escchars_inv cap cs d b n :
  SInv cs d -> st d = EscChars n ->
  SInv (cs ++ [b]) (fst (step cap d b)).
Proof.
  intros I Hst. inversion I; try congruence.
  match goal with H : st d = EscChars ?m |- _ => assert (m = n) by congruence; subst m end.
  match goal with H : cs = _ |- _ => rename H into Hcs end.
  match goal with H : enc_fold _ = _ |- _ => rename H into Henc end.
  match goal with H : fed _ _ |- _ => rename H into Hfed end.
  match goal with H : raw d = _ |- _ => rename H into Hraw end.
  match goal with H : zc d <= 4 |- _ => rename H into Hzc end.
  match goal with H : 1 <= n <= 3 |- _ => rename H into Hn end.
  unfold step. rewrite Hst. cbn [st raw crc zc rbuf]. rewrite Hst.
  destruct (N.eqb_spec b 27) as [->|Hb]; cbn [negb].
  - destruct (N.eqb_spec n 3) as [->|Hn3].
    + cbn [fst]. eapply SI_pay with (k := 0) (pl := [0;0;0;0]) (pre := pre) (body := body) (c := 0);
        cbn [st set_st upd_crc raw crc zc rbuf]; auto; try lia.
      * rewrite Hcs. cbn [N.to_nat firstn]. rewrite app_nil_r, <- !app_assoc. reflexivity.
      * unfold fed. cbn [crc set_st upd_crc]. eapply fed_step; [exact Hfed|].
        rewrite <- app_assoc. reflexivity.
      * cbn [N.to_nat firstn]. constructor.
    + destruct (N.leb_spec 255 n); [lia|]. cbn [fst].
      eapply SI_esc with (n := n + 1) (pre := pre) (body := body);
        cbn [st set_st upd_crc raw crc zc rbuf]; auto; try lia.
      * rewrite Hcs. replace (N.to_nat (n + 1)) with (S (N.to_nat n)) by lia.
        rewrite <- repeat_snoc, <- !app_assoc. reflexivity.
      * unfold fed. cbn [crc set_st upd_crc]. eapply fed_step; [exact Hfed|].
        replace (N.to_nat (n + 1)) with (S (N.to_nat n)) by lia.
        rewrite <- repeat_snoc, <- app_assoc. reflexivity.
  - destruct (push_many cap _ _) as [d'|] eqn:E; cbn [fst oom]; [|apply reset_inv].
    apply push_many_spec in E; [|cbn [zc upd_crc]; assumption].
    destruct E as (Ed & Er & Ec & Es & Ez).
    eapply SI_normal with (pre := pre) (body := body ++ repeat 27 (N.to_nat n) ++ [b]).
    + reflexivity.
    + rewrite Hcs, <- !app_assoc. reflexivity.
    + rewrite data_set_st, Ed, data_upd_crc.
      assert (Hd : data {| raw := raw d + 1; crc := crc d; st := EscChars n; zc := zc d; rbuf := rbuf d |} = data d) by reflexivity.
      rewrite Hd.
      rewrite (app_assoc (data d)), (app_assoc body). eapply enc_fold_snoc_other; [|exact Hb].
      apply enc_fold_27s; [exact Henc|lia].
    + unfold fed. cbn [crc set_st]. rewrite Ec. cbn [crc upd_crc].
      eapply fed_step; [exact Hfed|]. rewrite <- app_assoc. reflexivity.
    + cbn [raw set_st]. rewrite Er. cbn [raw upd_crc].
      rewrite !lenN_app, lenN_repeat. unfold lenN at 2. cbn [length]. lia.
    + exact Ez.
Qed.

(* ---- EscPayload, not yet full ---- *)

Ltac four pl :=
  destruct pl as [|?p0 [|?p1 [|?p2 [|?p3 [|? ?]]]]]; try discriminate.

Lemma kcases k : k <= 3 -> k = 0 \/ k = 1 \/ k = 2 \/ k = 3.
Proof. lia. Qed.


Lemma step_paypart_inv cap cs d b k pl :
  SInv cs d -> st d = EscPayload k pl -> k < 3 -> b < 256 ->
  SInv (cs ++ [b]) (fst (step cap d b)).
Proof.
  intros I Hst Hk Hb. inversion I; try congruence.
  match goal with H : st d = EscPayload ?a ?b |- _ =>
    assert (a = k /\ b = pl) as [? ?] by (split; congruence); subst a b end.
  match goal with H : cs = _ |- _ => rename H into Hcs end.
  match goal with H : enc_fold _ = _ |- _ => rename H into Henc end.
  match goal with H : fed _ _ |- _ => rename H into Hfed end.
  match goal with H : raw d = _ |- _ => rename H into Hraw end.
  match goal with H : zc d <= 4 |- _ => rename H into Hzc end.
  match goal with H : _ \/ _ |- _ => rename H into Hc end.
  match goal with H : Forall _ _ |- _ => rename H into Hok end.
  match goal with H : length pl = _ |- _ => rename H into Hlen end.
  unfold step. rewrite Hst. cbn [st raw crc zc rbuf]. rewrite Hst.
  destruct (N.ltb_spec 3 k); [lia|].
  destruct (N.ltb_spec k 3); [|lia]. cbn [fst].
  four pl.
  eapply SI_pay with (k := k + 1) (pre := pre) (body := body) (c := c);
    cbn [st set_st upd_crc raw crc zc rbuf]; auto; try lia.
  - assert (k = 0 \/ k = 1 \/ k = 2) as [->|[->| ->]] by lia; reflexivity.
  - rewrite Hcs.
    assert (k = 0 \/ k = 1 \/ k = 2) as [->|[->| ->]] by lia;
      norm_nat; cbn [firstn set_nth app skipn]; rewrite <- !app_assoc; reflexivity.
  - destruct Hc as [->|[Hk1 Hp0]]; [left; reflexivity|right]. split; [lia|].
    assert (k = 1 \/ k = 2) as [->| ->] by lia; exact Hp0.
  - assert (k = 0 \/ k = 1 \/ k = 2) as [->|[->| ->]] by lia; norm_nat;
      cbn [firstn set_nth app skipn] in *;
      repeat (apply Forall_cons_iff in Hok; destruct Hok as [? Hok]);
      repeat constructor; assumption.
Qed.

(* ---- arithmetic facts for the accepting transition ---- *)

Lemma pad_align (L npad : N) :
  (8 + (L + npad) + 4 + 4) mod 4 = 0 -> npad <= 3 ->
  N.of_nat (pad_of (N.to_nat L)) = npad.
Proof.
  intros H Hn. unfold pad_of. lia.
Qed.

Lemma crc_bytes c p2 p3 :
  p2 < 256 -> p3 < 256 -> p2 + 256 * p3 = c -> p2 = N.land c 255 /\ p3 = N.shiftr c 8.
Proof.
  intros H2 H3 <-. change 255 with (N.ones 8). rewrite N.land_ones, N.shiftr_div_pow2.
  change (2 ^ 8) with 256. split; lia.
Qed.

Lemma all_eq4 v p0 p1 p2 p3 :
  forallb (fun x => x =? v) [p0;p1;p2;p3] = true -> p0 = v /\ p1 = v /\ p2 = v /\ p3 = v.
Proof.
  cbn [forallb]. rewrite !andb_true_iff, !N.eqb_eq. tauto.
Qed.


(* ---- EscPayload, fourth byte ---- *)
Lemma step_payfull_inv cap cs d b pl :
  SInv cs d -> st d = EscPayload 3 pl -> b < 256 ->
  SInv (cs ++ [b]) (fst (step cap d b)).
Proof.
  intros I Hst Hb. inversion I; try congruence.
  match goal with H : st d = EscPayload ?a ?b |- _ =>
    assert (a = 3 /\ b = pl) as [? ?] by (split; congruence); subst a b end.
  match goal with H : cs = _ |- _ => rename H into Hcs end.
  match goal with H : enc_fold _ = _ |- _ => rename H into Henc end.
  match goal with H : fed _ _ |- _ => rename H into Hfed end.
  match goal with H : raw d = _ |- _ => rename H into Hraw end.
  match goal with H : zc d <= 4 |- _ => rename H into Hzc end.
  match goal with H : _ \/ _ |- _ => rename H into Hc end.
  match goal with H : Forall _ _ |- _ => rename H into Hok end.
  match goal with H : length pl = _ |- _ => rename H into Hlen end.
  four pl. norm_nat. cbn [firstn nth] in *.
  apply Forall_cons_iff in Hok; destruct Hok as [Hp0 Hok].
  apply Forall_cons_iff in Hok; destruct Hok as [Hp1 Hok].
  apply Forall_cons_iff in Hok; destruct Hok as [Hp2 _].
  assert (Hcs' : cs ++ [b] = pre ++ start_seq ++ body ++ repeat 27 4 ++ [p0;p1;p2;b]).
  { rewrite Hcs, <- !app_assoc. reflexivity. }
  rewrite Hcs'. clear Hcs Hcs'.
  unfold step. rewrite Hst. cbn [st raw crc zc rbuf]. rewrite Hst.
  destruct (N.ltb_spec 3 3); [lia|]. norm_nat. cbn [set_nth firstn skipn app].
  destruct (N.ltb_spec 3 3); [lia|].
  unfold step_payload_full.
  (* literal escape *)
  destruct (all27 [p0;p1;p2;b]) eqn:A27.
  { apply all_eq4 in A27. destruct A27 as (-> & -> & -> & ->).
    destruct Hc as [->|[_ Hbad]]; [|discriminate].
    destruct (push_many cap _ _) as [d'|] eqn:E; cbn [fst oom]; [|apply reset_inv].
    apply push_many_spec in E; [|cbn [zc upd_crc]; assumption].
    destruct E as (Ed & Er & Ec & Es & Ez).
    eapply SI_normal with (pre := pre) (body := body ++ repeat 27 8).
    - reflexivity.
    - rewrite <- ?app_assoc; reflexivity.
    - rewrite data_set_st, Ed, data_upd_crc.
      rewrite data_mk. fold (data d).
      apply (enc_fold_four27 _ _ Henc).
    - unfold fed. cbn [crc set_st]. rewrite Ec. cbn [crc upd_crc].
      unfold fed in Hfed. rewrite Hfed, <- crc_update_app, <- !app_assoc. reflexivity.
    - cbn [raw set_st]. rewrite Er. cbn [raw upd_crc]. rewrite lenN_app, lenN_repeat. lia.
    - exact Ez. }
  (* restart *)
  destruct (forallb (fun x => x =? 1) [p0;p1;p2;b]) eqn:A1.
  { apply all_eq4 in A1. destruct A1 as (-> & -> & -> & ->).
    cbn [raw]. destruct (N.ltb_spec (raw d + 1) 8); [cbn [fst panic]; apply reset_inv|]. cbn [fst].
    eapply SI_normal with (pre := pre ++ start_seq ++ body) (body := []); cbn [st raw crc zc rbuf].
    - reflexivity.
    - rewrite <- ?app_assoc; reflexivity.
    - reflexivity.
    - unfold fed. cbn [crc]. rewrite app_nil_r. reflexivity.
    - reflexivity.
    - lia. }
  (* end sequence *)
  cbn [nth].
  destruct (N.eqb_spec p0 26) as [->|Hp026].
  { match goal with |- context [if ?c then _ else _] => destruct c eqn:Chk end;
      cbn [fst]; [apply reset_inv|].
    rewrite !orb_false_iff in Chk. destruct Chk as ((((C1 & C2) & C3) & C4) & C5).
    apply negb_false_iff, N.eqb_eq in C1. apply negb_false_iff, N.eqb_eq in C2.
    apply N.ltb_ge in C3. apply N.ltb_ge in C5. cbn [raw crc zc rbuf st] in *.
    destruct (flush cap _) as [d'|] eqn:E; cbn [fst oom]; [|apply reset_inv].
    apply flush_spec in E. destruct E as (Fb & Fz & Fr & Fc & Fs).
    unfold data in Fb. cbn [rbuf zc] in Fb.
    assert (Hdone : pre ++ start_seq ++ body ++ repeat 27 4 ++ [26; p1; p2; b] =
                    pre ++ frame_enc (rev (rbuf d')) /\ raw d' = lenN (frame_enc (rev (rbuf d')))).
    2:{ destruct Hdone as [Hd1 Hd2]. eapply SI_done with (pre := pre); [reflexivity|exact Hd1|exact Hd2]. }
    rewrite Fb.
    set (m := rev (rbuf d) ++ repeat 0 (N.to_nat (zc d - p1))).
    assert (Hdata : data d = m ++ repeat 0 (N.to_nat p1)).
    { unfold data, m. rewrite <- app_assoc, <- repeat_app. do 2 f_equal. lia. }
    rewrite Hdata in Henc. apply enc_fold_fst_zeros in Henc.
    unfold frame_enc. set (bm := fst (enc_fold m)) in *.
    assert (Hpad : N.of_nat (pad_of (length bm)) = p1).
    { rewrite <- (Nat2N.id (length bm)). apply pad_align; [|lia].
      rewrite Hraw in C2. rewrite Henc in C2. rewrite lenN_app, lenN_repeat in C2.
      unfold lenN in C2. rewrite N2Nat.id in C2. rewrite <- C2. f_equal. lia. }
    assert (Hpadn : pad_of (length bm) = N.to_nat p1) by lia.
    rewrite Hpad, Hpadn.
    set (pref := start_seq ++ bm ++ repeat 0 (N.to_nat p1) ++ [27; 27; 27; 27; 26; p1]).
    assert (Hcalc : crc_finalize (crc_update (crc d) [26; p1]) = crc16 pref).
    { unfold crc16, pref. f_equal. unfold fed in Hfed. rewrite Hfed, <- crc_update_app.
      f_equal. rewrite Henc, <- !app_assoc. reflexivity. }
    rewrite Hcalc in C1.
    destruct (crc_bytes (crc16 pref) p2 b Hp2 Hb C1) as [<- <-].
    split.
    - unfold pref. rewrite Henc, <- !app_assoc. reflexivity.
    - rewrite Fr. cbn [raw]. rewrite Hraw, Henc. unfold pref.
      rewrite !lenN_app, lenN_repeat. unfold lenN. cbn [length start_seq]. lia. }
  (* re-alignment or invalid *)
  match goal with |- context [if ?c then _ else _] => destruct c eqn:Chk end;
    [|cbn [fst]; apply reset_inv].
  rewrite !andb_true_iff in Chk. destruct Chk as ((K0 & K27) & K26).
  apply Nat.ltb_lt in K0. apply N.eqb_eq in K26.
  destruct Hc as [->|[_ Hbad]]; [|congruence].
  cbn [raw] in *.
  set (kk := N.to_nat ((4 - (raw d + 1) mod 4) mod 4)) in *.
  assert (Hkk : (kk = 1 \/ kk = 2 \/ kk = 3)%nat) by (unfold kk in *; lia).
  destruct (push_many cap _ _) as [d'|] eqn:E; cbn [fst oom]; [|apply reset_inv].
  apply push_many_spec in E; [|cbn [zc upd_crc]; assumption].
  destruct E as (Ed & Er & Ec & Es & Ez).
  rewrite data_upd_crc, data_mk in Ed. fold (data d) in Ed.
  eapply SI_pay with (k := 4 - N.of_nat kk) (pre := pre) (body := body ++ repeat 27 kk) (c := N.of_nat kk)
                     (pl := skipn kk [p0; p1; p2; b] ++ skipn (4 - kk) [p0; p1; p2; b]).
  - reflexivity.
  - lia.
  - destruct Hkk as [->|[->| ->]]; reflexivity.
  - destruct Hkk as [Hk|[Hk|Hk]]; rewrite Hk in *; norm_nat; cbn [all27 forallb firstn skipn app repeat] in *;
      rewrite ?andb_true_iff, ?N.eqb_eq in K27; cbn [nth] in K26; intuition subst;
      rewrite <- ?app_assoc; reflexivity.
  - rewrite data_set_st, Ed. apply enc_fold_27s; [exact Henc|lia].
  - right. split; [lia|].
    destruct Hkk as [Hk|[Hk|Hk]]; rewrite Hk in *; cbn [skipn app nth] in *; exact K26.
  - unfold fed. cbn [crc set_st]. rewrite Ec. cbn [crc upd_crc].
    unfold fed in Hfed. rewrite Hfed, <- crc_update_app. f_equal.
    destruct Hkk as [Hk|[Hk|Hk]]; rewrite Hk in *; cbn [all27 forallb firstn] in *;
      rewrite ?andb_true_iff, ?N.eqb_eq in K27; intuition subst;
      rewrite <- ?app_assoc; reflexivity.
  - cbn [raw set_st]. rewrite Er. cbn [raw upd_crc]. rewrite lenN_app, lenN_repeat. lia.
  - exact Ez.
  - destruct Hkk as [Hk|[Hk|Hk]]; rewrite Hk in *; norm_nat; cbn [skipn app firstn repeat];
      repeat constructor; assumption.
Qed.

(* ---- Looking state ---- *)
Lemma step_looking_inv cap cs d b disc n :
  SInv cs d -> st d = Looking disc n ->
  SInv (cs ++ [b]) (fst (step cap d b)).
Proof.
  intros I Hst. inversion I; try congruence.
  match goal with H : st d = Looking ?a ?b |- _ =>
    assert (a = disc /\ b = n) as [? ?] by (split; congruence); subst a b end.
  match goal with H : cs = _ |- _ => rename H into Hcs end.
  match goal with H : rbuf d = _ |- _ => rename H into Hrb end.
  match goal with H : zc d = _ |- _ => rename H into Hz end.
  match goal with H : n < 8 |- _ => rename H into Hn end.
  unfold step. rewrite Hst. cbn [st raw crc zc rbuf]. rewrite Hst.
  unfold step_looking.
  destruct (((b =? 27) && (n <? 4)) || ((b =? 1) && (4 <=? n))) eqn:M.
  - destruct (N.leb_spec 255 n); [lia|].
    assert (Hb : firstn (N.to_nat (n + 1)) start_seq = firstn (N.to_nat n) start_seq ++ [b]).
    { rewrite orb_true_iff, !andb_true_iff, !N.eqb_eq, N.ltb_lt, N.leb_le in M.
      assert (n = 0 \/ n = 1 \/ n = 2 \/ n = 3 \/ n = 4 \/ n = 5 \/ n = 6 \/ n = 7) as Hc by lia.
      destruct M as [[-> Hlt]|[-> Hge]];
        repeat (destruct Hc as [->|Hc]; [try lia; reflexivity|]); subst; try lia; reflexivity. }
    destruct (N.eqb_spec (n + 1) 8) as [E8|N8].
    + assert (Hfull : cs ++ [b] = pre ++ start_seq).
      { rewrite Hcs, <- app_assoc, <- Hb, E8. reflexivity. }
      destruct (0 <? disc); cbn [fst];
        (eapply SI_normal with (pre := pre) (body := []); cbn [st raw crc zc rbuf];
         [reflexivity| rewrite Hfull, app_nil_r; reflexivity
         | unfold data; cbn [rbuf zc]; rewrite Hrb, Hz; reflexivity
         | unfold fed; cbn [crc]; rewrite app_nil_r; reflexivity | reflexivity | lia]).
    + cbn [fst]. eapply SI_look with (pre := pre) (n := n + 1); cbn [st set_st rbuf zc]; eauto; try lia.
      rewrite Hcs, <- app_assoc, Hb. reflexivity.
  - destruct (N.eqb_spec b 27) as [->|Hb27].
    + (* a mismatching 0x1b: n >= 4 *)
      assert (Hn4 : 4 <= n).
      { destruct (N.ltb_spec n 4) as [Hlt|Hge]; [|exact Hge].
        rewrite ?N.eqb_refl in M. cbn [andb orb] in M. discriminate. }
      destruct (N.eqb_spec n 4) as [->|Hn4'].
      * destruct (N.ltb_spec 4 4); [lia|]. cbn [fst].
        eapply SI_look with (pre := pre ++ [27]) (n := 4); cbn [st set_st rbuf zc]; eauto; try lia.
        rewrite Hcs. norm_nat. cbn [firstn start_seq]. rewrite <- !app_assoc. reflexivity.
      * destruct (N.ltb_spec n 1); [lia|]. cbn [fst].
        eapply SI_look with (pre := cs) (n := 1); cbn [st set_st rbuf zc]; eauto; try lia.
    + cbn [fst].
      eapply SI_look with (pre := cs ++ [b]) (n := 0); cbn [st set_st rbuf zc]; eauto; try lia.
      rewrite app_nil_r. reflexivity.
Qed.

(* ---- all states ---- *)
Lemma step_done_eq cap d b : st d = Done -> step cap d b = step cap (reset_st d) b.
Proof. intros H. unfold step. rewrite H. reflexivity. Qed.

Lemma step_inv cap cs d b : SInv cs d -> b < 256 -> SInv (cs ++ [b]) (fst (step cap d b)).
Proof.
  intros I Hb. destruct (st d) eqn:Hst.
  - eapply step_looking_inv; eauto.
  - eapply step_normal_inv; eauto.
  - eapply step_escchars_inv; eauto.
  - destruct (N.ltb_spec step 3).
    + eapply step_paypart_inv; eauto.
    + inversion I; try congruence.
      match goal with H : st d = EscPayload ?a ?b |- _ =>
        assert (a = step) by congruence; subst a end.
      assert (step = 3) by lia. subst. eapply step_payfull_inv; eauto.
  - rewrite step_done_eq by assumption.
    eapply step_looking_inv with (disc := 0) (n := 0); [apply reset_inv|reflexivity].
Qed.

Lemma step_msg_done cap d b : snd (step cap d b) = OMsg -> st (fst (step cap d b)) = Done.
Proof.
  unfold step.
  set (d0' := match st d with Done => reset_st d | _ => d end).
  destruct (st {| raw := raw d0' + 1; crc := crc d0'; st := st d0'; zc := zc d0'; rbuf := rbuf d0' |}) eqn:S;
    cbn [st] in S; rewrite ?S.
  - unfold step_looking.
    repeat match goal with |- context [if ?c then _ else _] => destruct c end; cbn [snd]; discriminate.
  - repeat match goal with |- context [if ?c then _ else _] => destruct c end;
      repeat match goal with |- context [match ?c with Some _ => _ | None => _ end] => destruct c end;
      cbn [snd]; discriminate.
  - repeat match goal with |- context [if ?c then _ else _] => destruct c end;
      repeat match goal with |- context [match ?c with Some _ => _ | None => _ end] => destruct c end;
      cbn [snd]; discriminate.
  - unfold step_payload_full.
    repeat match goal with |- context [if ?c then _ else _] => destruct c end;
      repeat match goal with |- context [match ?c with Some _ => _ | None => _ end] => destruct c end;
      cbn [snd fst st set_st]; try discriminate; reflexivity.
  - cbn [snd]. discriminate.
Qed.

Theorem decoder_sound cap : forall s cs d,
  SInv cs d -> bytes_ok s ->
  forall i, fst (nth i (snd (run cap d s)) (ONone, [])) = OMsg ->
  exists pre, cs ++ firstn (S i) s = pre ++ frame_enc (snd (nth i (snd (run cap d s)) (ONone, []))).
Proof.
  induction s as [|b r IH]; intros cs d I Hs i Hi.
  - simpl in Hi. destruct i; discriminate.
  - inversion Hs as [|? ? Hb Hr]; subst.
    pose proof (step_inv cap cs d b I Hb) as I'.
    cbn [run] in *. destruct (step cap d b) as [d' o] eqn:Es. cbn [fst] in I'.
    destruct (run cap d' r) as [d'' os] eqn:Er. cbn [snd] in *.
    destruct i as [|i].
    + cbn [nth fst snd firstn] in *. subst o.
      assert (Hd : st d' = Done).
      { pose proof (step_msg_done cap d b) as Hm. rewrite Es in Hm. apply Hm. reflexivity. }
      inversion I'; try congruence.
      match goal with H : cs ++ [b] = _ |- _ => rewrite H end. rewrite frev_eq. eexists. reflexivity.
    + cbn [nth firstn] in *.
      specialize (IH (cs ++ [b]) d' I' Hr i). rewrite Er in IH. cbn [snd] in IH.
      destruct (IH Hi) as [pre Hpre]. exists pre. rewrite <- Hpre, <- app_assoc. reflexivity.
Qed.

Corollary decoder_sound_init cap s i m :
  bytes_ok s -> nth i (snd (run cap init s)) (ONone, []) = (OMsg, m) ->
  exists pre, firstn (S i) s = pre ++ frame_enc m.
Proof.
  intros Hs Hn.
  destruct (decoder_sound cap s [] init SInv_init Hs i) as [pre H]; [rewrite Hn; reflexivity|].
  rewrite Hn in H. exists pre. exact H.
Qed.


(* ---------- histories of push_byte / finalize / reset / from_buf ---------- *)
Definition op_ok (o : op) : Prop := match o with Push b => b < 256 | _ => True end.

(* the bytes pushed since the last finalize / reset / from_buf ([acc] = those pushed before [ops]) *)
Fixpoint trailing (ops : list op) (acc : list byte) : list byte :=
  match ops with
  | [] => acc
  | Push b :: r => trailing r (acc ++ [b])
  | _ :: r => trailing r []
  end.

Lemma do_op_inv cap cs d o :
  SInv cs d -> op_ok o ->
  SInv (trailing [o] cs) (fst (do_op cap d o)).
Proof.
  intros I Ho. destruct o as [b| | |]; cbn [do_op trailing].
  - pose proof (step_inv cap cs d b I Ho) as I'.
    destruct (step cap d b) as [d' r]. cbn [fst] in I'.
    destruct r; try exact I'. destruct (st d'); exact I'.
  - cbn [finalize fst]. apply reset_inv.
  - cbn [reset fst]. apply reset_inv.
  - cbn [fst]. apply SInv_init.
Qed.

Lemma trailing_cons o ops cs : trailing (o :: ops) cs = trailing ops (trailing [o] cs).
Proof. destruct o; reflexivity. Qed.

Theorem ops_sound cap : forall ops cs d,
  SInv cs d -> Forall op_ok ops ->
  forall i m, nth_error (snd (run_ops cap d ops)) i = Some (EvPush OMsg m) ->
  exists pre, trailing (firstn (S i) ops) cs = pre ++ frame_enc m.
Proof.
  induction ops as [|o r IH]; intros cs d I Hok i m Hi.
  - destruct i; discriminate.
  - inversion Hok as [|? ? Ho Hr]; subst.
    pose proof (do_op_inv cap cs d o I Ho) as I'.
    cbn [run_ops] in Hi. destruct (do_op cap d o) as [d' e] eqn:Eo. cbn [fst] in I'.
    destruct (run_ops cap d' r) as [d'' es] eqn:Er. cbn [snd] in Hi.
    destruct i as [|i].
    + cbn [nth_error] in Hi. inversion Hi; subst e. clear Hi.
      cbn [firstn]. destruct o as [b| | |]; cbn [do_op] in Eo.
      * destruct (step cap d b) as [d1 r1] eqn:Es.
        destruct r1; try (inversion Eo; fail).
        destruct (st d1) eqn:Sd; inversion Eo; subst. clear Eo.
        cbn [trailing] in *. inversion I'; try congruence.
        match goal with H : cs ++ [b] = _ |- _ => rewrite H end.
        rewrite frev_eq. eexists. reflexivity.
      * destruct (finalize d). inversion Eo.
      * destruct (reset d). inversion Eo.
      * inversion Eo.
    + cbn [nth_error] in Hi.
      specialize (IH _ _ I' Hr i m). rewrite Er in IH. cbn [snd] in IH.
      destruct (IH Hi) as [pre Hpre]. exists pre.
      change (firstn (S (S i)) (o :: r)) with (o :: firstn (S i) r).
      rewrite trailing_cons. exact Hpre.
Qed.

Corollary ops_sound_frame cap ops i m :
  Forall op_ok ops ->
  nth_error (snd (run_ops cap init ops)) i = Some (EvPush OMsg m) ->
  exists pre, trailing (firstn (S i) ops) [] = pre ++ frame m.
Proof.
  intros Hok Hi. rewrite <- frame_enc_frame.
  eapply ops_sound; [apply SInv_init|exact Hok|exact Hi].
Qed.
