(* C03 / C04: the parsers accept exactly the grammar of Spec/Grammar.v and return exactly the
   content.  For every production: soundness (a success consumed an encoding of the result)
   and completeness (every encoding of v, followed by anything, parses to v). *)
Require Import Sml.Base.Prelude Sml.Base.Crc Sml.Model.Parser Sml.Spec.TlfRef Sml.Spec.Grammar.
Require Import Sml.Proofs.TlfExact Sml.Proofs.ParserTotal.

Definition snd_of {A} (P : list byte -> pres A) (E : A -> list byte -> Prop) : Prop :=
  forall input rest v, ok_in input -> P input = POk rest v ->
    exists used, input = used ++ rest /\ E v used.
Definition cpl_of {A} (P : list byte -> pres A) (E : A -> list byte -> Prop) : Prop :=
  forall v used rest, E v used -> ok_in (used ++ rest) -> P (used ++ rest) = POk rest v.

(* ---------- type-length fields ---------- *)
Lemma cont_bytes_generic : forall r more rest rest',
  cont_bytes r = Some (more, rest) -> cont_bytes (more ++ rest') = Some (more, rest').
Proof.
  induction r as [|b r IH]; intros more rest rest' H; cbn [cont_bytes] in H; [discriminate|].
  destruct (128 <=? b) eqn:Eb.
  - destruct (cont_bytes r) as [[t rs]|] eqn:Ec; [|discriminate]. inversion H; subst.
    cbn [app cont_bytes]. rewrite Eb, (IH t rest rest' eq_refl). reflexivity.
  - inversion H; subst. cbn [app cont_bytes]. rewrite Eb. reflexivity.
Qed.

Lemma tlf_ref_generic input ty len rest :
  tlf_ref input = Some (ty, len, rest) ->
  exists u, input = u ++ rest /\ u <> [] /\ enc_tlf ty len u.
Proof.
  unfold tlf_ref. destruct input as [|b0 r]; [discriminate|].
  destruct (128 <=? b0) eqn:Eb.
  - destruct (cont_bytes r) as [[more rest0]|] eqn:Ec; [|discriminate].
    destruct (cont_bytes_app r more rest0 Ec) as [-> _]. intros H.
    assert (rest0 = rest).
    { repeat match type of H with
             | match ?c with _ => _ end = _ => destruct c; try discriminate
             | (if ?c then _ else _) = _ => destruct c; try discriminate
             end; inversion H; reflexivity. }
    subst rest0. exists (b0 :: more). split; [reflexivity|]. split; [discriminate|].
    intros rest'. unfold tlf_ref. cbn [app]. rewrite Eb, (cont_bytes_generic _ _ _ rest' Ec).
    repeat match type of H with
           | match ?c with _ => _ end = _ => destruct c; try discriminate
           | (if ?c then _ else _) = _ => destruct c; try discriminate
           end; inversion H; reflexivity.
  - intros H.
    assert (r = rest).
    { repeat match type of H with
             | match ?c with _ => _ end = _ => destruct c; try discriminate
             | (if ?c then _ else _) = _ => destruct c; try discriminate
             end; inversion H; reflexivity. }
    subst r. exists [b0]. split; [reflexivity|]. split; [discriminate|].
    intros rest'. unfold tlf_ref. cbn [app]. rewrite Eb.
    repeat match type of H with
           | match ?c with _ => _ end = _ => destruct c; try discriminate
           | (if ?c then _ else _) = _ => destruct c; try discriminate
           end; inversion H; reflexivity.
Qed.

Lemma tlf_sound input rest t :
  ok_in input -> tlf_parse input = POk rest t ->
  exists u, input = u ++ rest /\ u <> [] /\ enc_tlf (tty t) (tlen t) u.
Proof.
  intros [Hb Hl] E. pose proof (tlf_parse_exact input Hb Hl) as H. rewrite E in H.
  apply tlf_ref_generic. exact H.
Qed.

Lemma tlf_complete ty len u rest :
  enc_tlf ty len u -> ok_in (u ++ rest) -> tlf_parse (u ++ rest) = POk rest (mktlf ty len).
Proof.
  intros He [Hb Hl]. pose proof (tlf_parse_exact (u ++ rest) Hb Hl) as H. rewrite (He rest) in H.
  destruct (tlf_parse (u ++ rest)) as [r t|e|]; [|discriminate|contradiction].
  inversion H; subst. destruct t; reflexivity.
Qed.

Lemma enc_tlf_nonempty ty len u : enc_tlf ty len u -> u <> [].
Proof. intros H E. subst. specialize (H []). cbn in H. discriminate. Qed.

(* the first byte of a TLF is not 0x01 unless it is the empty byte string TLF *)
Lemma enc_tlf_hd ty len u : enc_tlf ty len u -> hd 0 u = 1 -> ty = TOctet /\ len = 0.
Proof.
  intros H Hh. destruct u as [|b0 r]; [exfalso; eapply enc_tlf_nonempty; eauto|]. cbn [hd] in Hh. subst b0.
  specialize (H []). rewrite app_nil_r in H. unfold tlf_ref in H. cbn in H. inversion H. auto.
Qed.

(* ---------- bind inversion ---------- *)
Lemma pbind_ok {A B} (r : pres A) (f : list byte -> A -> pres B) rest v :
  pbind r f = POk rest v -> exists i a, r = POk i a /\ f i a = POk rest v.
Proof. destruct r as [i a|e|]; cbn [pbind]; intros H; [eauto|discriminate|discriminate]. Qed.

Lemma with_tlf_ok {A} check (p : list byte -> tlf -> pres A) input rest v :
  with_tlf check p input = POk rest v ->
  exists i t, tlf_parse input = POk i t /\ check t = true /\ p i t = POk rest v.
Proof.
  unfold with_tlf. intros H. apply pbind_ok in H. destruct H as (i & t & E & H).
  destruct (check t) eqn:C; [eauto|discriminate].
Qed.

Lemma take_n_ok input n rest v :
  take_n input n = POk rest v -> input = v ++ rest /\ lenN v = n.
Proof.
  unfold take_n. destruct (N.ltb_spec (lenN input) n); [discriminate|]. intros E. inversion E; subst.
  split; [symmetry; apply firstn_skipn|]. unfold lenN in *. rewrite firstn_length. lia.
Qed.

(* ---------- byte strings ---------- *)
Lemma octet_sound : snd_of p_octet enc_octet.
Proof.
  intros input rest v Hi H. unfold p_octet in H. apply with_tlf_ok in H.
  destruct H as (i & t & Et & Ct & Hp). unfold octet_with_tlf in Hp.
  destruct (tlf_sound input i t Hi Et) as (u & -> & _ & Hu).
  apply take_n_ok in Hp. destruct Hp as [-> Hl].
  exists (u ++ v). split; [rewrite app_assoc; reflexivity|].
  exists u. split; [|reflexivity]. unfold octet_check in Ct. destruct (tty t) eqn:Ety; try discriminate.
  rewrite Hl. exact Hu.
Qed.

Lemma octet_complete : cpl_of p_octet enc_octet.
Proof.
  intros v used rest (t & Ht & ->) Hi. unfold p_octet, with_tlf. rewrite <- app_assoc in *.
  rewrite (tlf_complete _ _ t (v ++ rest) Ht Hi). cbn [pbind octet_check tty ty_eqb].
  unfold octet_with_tlf. cbn [tlen]. apply take_n_app.
Qed.

(* ---------- integers ---------- *)
Lemma num_check_len ity size t : num_check ity size t = true -> tty t = ity /\ 1 <= tlen t <= size.
Proof.
  unfold num_check. rewrite !andb_true_iff. intros [[H1 H2] H3].
  apply N.leb_le in H2. apply negb_true_iff, N.eqb_neq in H3.
  split; [destruct (tty t), ity; try discriminate; reflexivity|lia].
Qed.

Lemma uns_with_tlf_sound size input t rest v :
  num_check TUns size t = true -> uns_with_tlf size input t = POk rest v ->
  exists data, input = data ++ rest /\ lenN data = tlen t /\ be data = v.
Proof.
  intros Hc H. apply num_check_len in Hc. destruct Hc as [_ Hl].
  unfold uns_with_tlf, parse_num, pmap, pbind in H.
  destruct (take_n input (tlen t)) as [i data|e|] eqn:Et; try discriminate.
  apply take_n_ok in Et. destruct Et as [-> Hd].
  destruct (N.ltb_spec size (tlen t)); [lia|]. inversion H; subst.
  exists data. split; [reflexivity|]. split; [exact Hd|]. rewrite uns_of_be, be_zeros. reflexivity.
Qed.

Lemma int_with_tlf_sound size input t rest v :
  std_size size -> ok_in input ->
  num_check TInt size t = true -> int_with_tlf size input t = POk rest v ->
  exists data, input = data ++ rest /\ lenN data = tlen t /\ twos data = v.
Proof.
  intros Hs Hi Hc H. apply num_check_len in Hc. destruct Hc as [_ Hl].
  pose proof H as H0.
  unfold int_with_tlf, parse_num, pmap, pbind in H.
  destruct (take_n input (tlen t)) as [i data|e|] eqn:Et; try discriminate.
  apply take_n_ok in Et. destruct Et as [-> Hd].
  assert (Hbd : bytes_ok data).
  { destruct Hi as [Hb _]. apply bytes_ok_app in Hb. tauto. }
  rewrite (int_with_tlf_exact size data i t Hs (eq_sym Hd) ltac:(lia) Hbd) in H0.
  inversion H0; subst. exists data. split; [reflexivity|]. split; [exact Hd|reflexivity].
Qed.

Lemma uns_k_sound w : snd_of (p_uns w) (enc_uns w).
Proof.
  intros input rest v Hi H. unfold p_uns in H. apply with_tlf_ok in H.
  destruct H as (i & t & Et & Ct & Hp).
  destruct (tlf_sound input i t Hi Et) as (u & -> & _ & Hu).
  destruct (uns_with_tlf_sound w i t rest v Ct Hp) as (data & -> & Hd & Hv).
  destruct (num_check_len _ _ _ Ct) as [Hty Hl].
  exists (u ++ data). split; [rewrite app_assoc; reflexivity|].
  exists u, data. rewrite Hd. rewrite Hty in Hu. repeat split; auto; lia.
Qed.

Lemma uns_k_complete w : cpl_of (p_uns w) (enc_uns w).
Proof.
  intros v used rest (t & data & Ht & Hl & Hv & ->) Hi. unfold p_uns, with_tlf. rewrite <- app_assoc in *.
  rewrite (tlf_complete _ _ t (data ++ rest) Ht Hi). cbn [pbind].
  assert (Hc : num_check TUns w (mktlf TUns (lenN data)) = true).
  { unfold num_check. cbn [tty tlen ty_eqb andb]. destruct (N.leb_spec (lenN data) w); [|lia].
    destruct (N.eqb_spec (lenN data) 0); [lia|]. reflexivity. }
  rewrite Hc. rewrite (uns_with_tlf_exact w data rest (mktlf TUns (lenN data)) eq_refl ltac:(lia)). rewrite Hv. reflexivity.
Qed.

Lemma int_1_sound : snd_of p_i8 (enc_int 1).
Proof.
  intros input rest v Hi H. unfold p_i8, p_int in H. apply with_tlf_ok in H.
  destruct H as (i & t & Et & Ct & Hp).
  destruct (tlf_sound input i t Hi Et) as (u & -> & _ & Hu).
  destruct (int_with_tlf_sound 1 i t rest v ltac:(left; reflexivity) (ok_in_suffix _ _ Hi) Ct Hp) as (data & -> & Hd & Hv).
  destruct (num_check_len _ _ _ Ct) as [Hty Hl].
  exists (u ++ data). split; [rewrite app_assoc; reflexivity|].
  exists u, data. rewrite Hd. rewrite Hty in Hu. repeat split; auto; lia.
Qed.

Lemma int_1_complete : cpl_of p_i8 (enc_int 1).
Proof.
  intros v used rest (t & data & Ht & Hl & Hv & ->) Hi. unfold p_i8, p_int, with_tlf. rewrite <- app_assoc in *.
  rewrite (tlf_complete _ _ t (data ++ rest) Ht Hi). cbn [pbind].
  assert (Hc : num_check TInt 1 (mktlf TInt (lenN data)) = true).
  { unfold num_check. cbn [tty tlen ty_eqb andb]. destruct (N.leb_spec (lenN data) 1); [|lia].
    destruct (N.eqb_spec (lenN data) 0); [lia|]. reflexivity. }
  rewrite Hc.
  assert (Hbd : bytes_ok data).
  { destruct Hi as [Hb _]. apply bytes_ok_app in Hb. destruct Hb as [_ Hb]. apply bytes_ok_app in Hb. tauto. }
  rewrite (int_with_tlf_exact 1 data rest (mktlf TInt (lenN data)) ltac:(left; reflexivity) eq_refl ltac:(lia) Hbd). rewrite Hv. reflexivity.
Qed.

(* ---------- optional fields ---------- *)
Lemma opt_sound {A} (p : list byte -> pres A) (E : A -> list byte -> Prop) :
  snd_of p E -> snd_of (p_opt p) (enc_opt E).
Proof.
  intros Hp input rest v Hi H. unfold p_opt in H.
  destruct input as [|b r].
  - unfold pmap in H. destruct (p []) as [i a|e|] eqn:Ep; try discriminate. inversion H; subst.
    destruct (Hp [] rest a Hi Ep) as (u & E0 & He). exists u. split; [exact E0|].
    cbn [enc_opt]. split; [exact He|]. destruct u; [cbn [hd]; intros C; discriminate C|discriminate].
  - destruct (N.eq_dec b 1) as [->|Hb].
    + inversion H; subst. exists [1]. split; reflexivity.
    + assert (Eq : match b with 1 => @POk (option A) r None | _ => pmap (p (b :: r)) Some end = pmap (p (b :: r)) Some).
      { destruct b as [|[q|q|]]; try reflexivity. congruence. }
      rewrite Eq in H. unfold pmap in H. destruct (p (b :: r)) as [i a|e|] eqn:Ep; try discriminate.
      inversion H; subst. destruct (Hp (b :: r) rest a Hi Ep) as (u & E0 & He). exists u. split; [exact E0|].
      cbn [enc_opt]. split; [exact He|]. destruct u as [|x u']; [cbn [hd]; intros C; discriminate C|]. cbn [app hd] in *. inversion E0; subst. exact Hb.
Qed.

Lemma opt_complete {A} (p : list byte -> pres A) (E : A -> list byte -> Prop) :
  (forall v u, E v u -> u <> []) -> cpl_of p E -> cpl_of (p_opt p) (enc_opt E).
Proof.
  intros Hne Hp v used rest He Hi. destruct v as [a|]; cbn [enc_opt] in He.
  - destruct He as [He Hh]. unfold p_opt.
    destruct (used ++ rest) as [|b r] eqn:Eu.
    + rewrite <- Eu, (Hp a used rest He) by (rewrite Eu; exact Hi). reflexivity.
    + assert (b <> 1).
      { destruct used as [|x u']; [exfalso; exact (Hne a [] He eq_refl)|].
        cbn [app hd] in *. inversion Eu; subst. exact Hh. }
      assert (Eq : match b with 1 => @POk (option A) r None | _ => pmap (p (b :: r)) Some end = pmap (p (b :: r)) Some).
      { destruct b as [|[q|q|]]; try reflexivity. congruence. }
      rewrite Eq, <- Eu, (Hp a used rest He) by (rewrite Eu; exact Hi). reflexivity.
  - subst used. reflexivity.
Qed.

(* ---------- non-emptiness of encodings ---------- *)
Lemma enc_octet_ne v u : enc_octet v u -> u <> [].
Proof. intros (t & Ht & ->). pose proof (enc_tlf_nonempty _ _ _ Ht). destruct t; [congruence|discriminate]. Qed.
Lemma enc_uns_k_ne a b v u : enc_uns_k a b v u -> u <> [].
Proof. intros (t & d & Ht & _ & _ & ->). pose proof (enc_tlf_nonempty _ _ _ Ht). destruct t; [congruence|discriminate]. Qed.
Lemma enc_int_k_ne a b v u : enc_int_k a b v u -> u <> [].
Proof. intros (t & d & Ht & _ & _ & ->). pose proof (enc_tlf_nonempty _ _ _ Ht). destruct t; [congruence|discriminate]. Qed.
Lemma enc_time_ne v u : enc_time v u -> u <> [].
Proof.
  destruct v. intros [(t & b1 & b2 & Ht & _ & _ & ->)|(t & d & Ht & _ & _ & ->)];
    pose proof (enc_tlf_nonempty _ _ _ Ht); destruct t; try congruence; discriminate.
Qed.
Lemma enc_status_ne v u : enc_status v u -> u <> [].
Proof. destruct v; apply enc_uns_k_ne. Qed.

Lemma num_check_iff ity size t :
  num_check ity size t = true <-> (tty t = ity /\ 1 <= tlen t <= size).
Proof.
  split; [apply num_check_len|]. intros [Hty Hl]. unfold num_check. rewrite Hty.
  destruct ity; cbn [ty_eqb andb];
    (destruct (N.leb_spec (tlen t) size); [|lia]); (destruct (N.eqb_spec (tlen t) 0); [lia|]); reflexivity.
Qed.

Lemma num_check_false ity size t :
  (tty t <> ity \/ tlen t = 0 \/ size < tlen t) -> num_check ity size t = false.
Proof.
  intros H. destruct (num_check ity size t) eqn:E; [|reflexivity].
  apply num_check_iff in E. destruct E as [E1 E2]. destruct H as [H|[H|H]]; [congruence|lia|lia].
Qed.

Lemma tlf_eqb_true a b : tlf_eqb a b = true -> tty a = tty b /\ tlen a = tlen b.
Proof.
  unfold tlf_eqb. rewrite andb_true_iff, N.eqb_eq. intros [H1 H2]. split; [|exact H2].
  destruct (tty a), (tty b); try discriminate; reflexivity.
Qed.

(* ---------- time ---------- *)
Lemma time_sound : snd_of p_time enc_time.
Proof.
  intros input rest v Hi H. unfold p_time in H. apply with_tlf_ok in H.
  destruct H as (i & t & Et & Ct & Hp).
  destruct (tlf_sound input i t Hi Et) as (u & -> & _ & Hu).
  pose proof (ok_in_suffix _ _ Hi) as Hi1.
  unfold time_with_tlf in Hp.
  destruct (tlf_eqb t (mktlf TUns 4)) eqn:Ew.
  - apply tlf_eqb_true in Ew. cbn [tty tlen] in Ew. destruct Ew as [Ety Elen].
    apply pbind_ok in Hp. destruct Hp as (i2 & data & Etk & Hp). inversion Hp; subst. clear Hp.
    apply take_n_ok in Etk. destruct Etk as [-> Hd].
    exists (u ++ data). split; [rewrite app_assoc; reflexivity|].
    cbn [enc_time]. right. exists u, data. rewrite Ety, Elen in Hu.
    repeat split; auto. rewrite be_val_fold. reflexivity.
  - unfold time_check in Ct. rewrite Ew, orb_false_r in Ct. apply andb_true_iff in Ct. destruct Ct as [Cty Cl].
    apply N.eqb_eq in Cl. assert (Ety : tty t = TList) by (destruct (tty t); try discriminate; reflexivity).
    apply pbind_ok in Hp. destruct Hp as (i2 & tag & Etag & Hp).
    destruct (N.eqb_spec tag 1) as [->|]; [|discriminate].
    apply pbind_ok in Hp. destruct Hp as (i3 & x & Ex & Hp). inversion Hp; subst. clear Hp.
    destruct (uns_k_sound 1 i i2 1 Hi1 Etag) as (b1 & -> & Hb1).
    destruct (uns_k_sound 4 i2 rest x (ok_in_suffix _ _ Hi1) Ex) as (b2 & -> & Hb2).
    exists (u ++ b1 ++ b2). split; [rewrite <- !app_assoc; reflexivity|].
    cbn [enc_time]. left. exists u, b1, b2. rewrite Ety, Cl in Hu. repeat split; auto.
Qed.

Lemma time_complete : cpl_of p_time enc_time.
Proof.
  intros [v] used rest He Hi. cbn [enc_time] in He. unfold p_time, with_tlf.
  destruct He as [(t & b1 & b2 & Ht & H1 & H2 & ->)|(t & data & Ht & Hl & Hv & ->)]; rewrite <- !app_assoc in *.
  - rewrite (tlf_complete _ _ t _ Ht Hi). cbn [pbind]. unfold time_check, tlf_eqb. cbn [tty tlen ty_eqb andb orb N.eqb Pos.eqb].
    unfold time_with_tlf, tlf_eqb. cbn [tty tlen ty_eqb andb].
    pose proof (enc_tlf_nonempty _ _ _ Ht) as Hne.
    assert (Hi1 : ok_in (b1 ++ b2 ++ rest)) by exact (ok_in_suffix _ _ Hi).
    unfold p_u8. rewrite (uns_k_complete 1 1 b1 (b2 ++ rest) H1 Hi1). cbn [pbind N.eqb Pos.eqb].
    unfold p_u32. rewrite (uns_k_complete 4 v b2 rest H2 (ok_in_suffix _ _ Hi1)). reflexivity.
  - rewrite (tlf_complete _ _ t _ Ht Hi). cbn [pbind]. unfold time_check, tlf_eqb. cbn [tty tlen ty_eqb andb orb N.eqb Pos.eqb].
    unfold time_with_tlf, tlf_eqb. cbn [tty tlen ty_eqb andb N.eqb Pos.eqb].
    rewrite <- Hl, take_n_app, !N.eqb_refl. cbn [pbind]. rewrite be_val_fold. unfold be in Hv. rewrite Hv. reflexivity.
Qed.

(* ---------- status ---------- *)
Lemma status_sound : snd_of p_status enc_status.
Proof.
  intros input rest v Hi H. unfold p_status in H. apply with_tlf_ok in H.
  destruct H as (i & t & Et & _ & Hp).
  destruct (tlf_sound input i t Hi Et) as (u & -> & _ & Hu).
  unfold status_with_tlf in Hp.
  destruct (num_check TUns 1 t) eqn:C1.
  { unfold pmap in Hp. destruct (uns_with_tlf 1 i t) as [r x|e|] eqn:E; try discriminate. inversion Hp; subst.
    destruct (uns_with_tlf_sound 1 i t rest x C1 E) as (data & -> & Hd & Hv).
    apply num_check_len in C1. destruct C1 as [Hty Hl].
    exists (u ++ data). split; [rewrite app_assoc; reflexivity|]. cbn [enc_status].
    exists u, data. rewrite Hd, Hty in *. repeat split; auto; lia. }
  destruct (num_check TUns 2 t) eqn:C2.
  { unfold pmap in Hp. destruct (uns_with_tlf 2 i t) as [r x|e|] eqn:E; try discriminate. inversion Hp; subst.
    destruct (uns_with_tlf_sound 2 i t rest x C2 E) as (data & -> & Hd & Hv).
    apply num_check_len in C2. destruct C2 as [Hty Hl].
    assert (tlen t <> 1) by (intros Hc; rewrite (proj2 (num_check_iff TUns 1 t)) in C1; [discriminate|split; [exact Hty|lia]]).
    exists (u ++ data). split; [rewrite app_assoc; reflexivity|]. cbn [enc_status].
    exists u, data. rewrite Hd, Hty in *. repeat split; auto; lia. }
  destruct (num_check TUns 4 t) eqn:C4.
  { unfold pmap in Hp. destruct (uns_with_tlf 4 i t) as [r x|e|] eqn:E; try discriminate. inversion Hp; subst.
    destruct (uns_with_tlf_sound 4 i t rest x C4 E) as (data & -> & Hd & Hv).
    apply num_check_len in C4. destruct C4 as [Hty Hl].
    assert (~ tlen t <= 2) by (intros Hc; rewrite (proj2 (num_check_iff TUns 2 t)) in C2; [discriminate|split; [exact Hty|lia]]).
    exists (u ++ data). split; [rewrite app_assoc; reflexivity|]. cbn [enc_status].
    exists u, data. rewrite Hd, Hty in *. repeat split; auto; lia. }
  destruct (num_check TUns 8 t) eqn:C8; [|discriminate].
  unfold pmap in Hp. destruct (uns_with_tlf 8 i t) as [r x|e|] eqn:E; try discriminate. inversion Hp; subst.
  destruct (uns_with_tlf_sound 8 i t rest x C8 E) as (data & -> & Hd & Hv).
  apply num_check_len in C8. destruct C8 as [Hty Hl].
  assert (~ tlen t <= 4) by (intros Hc; rewrite (proj2 (num_check_iff TUns 4 t)) in C4; [discriminate|split; [exact Hty|lia]]).
  exists (u ++ data). split; [rewrite app_assoc; reflexivity|]. cbn [enc_status].
  exists u, data. rewrite Hd, Hty in *. repeat split; auto; lia.
Qed.

Lemma status_complete : cpl_of p_status enc_status.
Proof.
  intros v used rest He Hi. unfold p_status, with_tlf.
  assert (G : forall wmin w x (mk : N -> status),
             enc_uns_k wmin w x used -> 1 <= wmin -> w <= 8 ->
             (forall k, wmin <= k <= w -> status_variant k x = mk x) ->
             (let* (input, t) := tlf_parse (used ++ rest) in
              (if (fun _ => true) t then status_with_tlf input t else PErr TlfMismatch)) = POk rest (mk x)).
  { intros wmin w x mk (t & data & Ht & Hl & Hv & Eu) Hw Hw8 Hmk. subst used. rewrite <- app_assoc in *.
    rewrite (tlf_complete _ _ t _ Ht Hi). cbn [pbind].
    rewrite (status_exact data rest) by lia. rewrite Hv. rewrite (Hmk (lenN data) Hl). reflexivity. }
  destruct v as [x|x|x|x]; cbn [enc_status] in He.
  - apply (G 1 1 x Status8 He); [lia|lia|]. intros k Hk. assert (k = 1) by lia. subst. reflexivity.
  - apply (G 2 2 x Status16 He); [lia|lia|]. intros k Hk. assert (k = 2) by lia. subst. reflexivity.
  - apply (G 3 4 x Status32 He); [lia|lia|]. intros k Hk. assert (k = 3 \/ k = 4) as [->| ->] by lia; reflexivity.
  - apply (G 5 8 x Status64 He); [lia|lia|]. intros k Hk.
    assert (k = 5 \/ k = 6 \/ k = 7 \/ k = 8) as [->|[->|[->| ->]]] by lia; reflexivity.
Qed.

(* ---------- values ---------- *)
Lemma num_check_false_gt ity s t :
  num_check ity s t = false -> tty t = ity -> 1 <= tlen t -> s < tlen t.
Proof.
  intros Hf Hty Hl. destruct (N.ltb_spec s (tlen t)); [assumption|].
  rewrite (proj2 (num_check_iff ity s t)) in Hf; [discriminate|split; [exact Hty|lia]].
Qed.

Lemma enc_value_ne v u : enc_value v u -> u <> [].
Proof.
  destruct v; cbn [enc_value]; try apply enc_int_k_ne; try apply enc_uns_k_ne; try apply enc_octet_ne.
  - intros (t & x & Ht & _ & ->). pose proof (enc_tlf_nonempty _ _ _ Ht). destruct t; [congruence|discriminate].
  - intros (t0 & b1 & b2 & Ht & _ & _ & ->). pose proof (enc_tlf_nonempty _ _ _ Ht). destruct t0; [congruence|discriminate].
Qed.

Lemma value_sound : snd_of p_value enc_value.
Proof.
  intros input rest v Hi H. unfold p_value in H. apply with_tlf_ok in H.
  destruct H as (i & t & Et & _ & Hp).
  destruct (tlf_sound input i t Hi Et) as (u & -> & _ & Hu).
  pose proof (ok_in_suffix _ _ Hi) as Hi1.
  unfold value_with_tlf in Hp.
  destruct (bool_check t) eqn:Cb.
  { unfold bool_check in Cb. apply tlf_eqb_true in Cb. cbn [tty tlen] in Cb. destruct Cb as [Ety El].
    unfold pmap, bool_with_tlf, pbind, take_byte in Hp. destruct i as [|b r]; [discriminate|]. inversion Hp; subst.
    exists (u ++ [b]). split; [rewrite <- app_assoc; reflexivity|]. cbn [enc_value].
    exists u, b. rewrite Ety, El in Hu. repeat split; auto. }
  destruct (octet_check t) eqn:Co.
  { unfold octet_check in Co. assert (Ety : tty t = TOctet) by (destruct (tty t); try discriminate; reflexivity).
    unfold pmap, octet_with_tlf in Hp. destruct (take_n i (tlen t)) as [r data|e|] eqn:Etk; try discriminate.
    inversion Hp; subst. apply take_n_ok in Etk. destruct Etk as [-> Hd].
    exists (u ++ data). split; [rewrite app_assoc; reflexivity|]. cbn [enc_value]. exists u. rewrite Hd, Ety in *. auto. }
  assert (SI : forall size (mk : Z -> value) lo,
            num_check TInt size t = true -> std_size size -> lo <= tlen t ->
            pmap (int_with_tlf size i t) mk = POk rest v ->
            exists z, v = mk z /\ exists used, u ++ i = used ++ rest /\ enc_int_k lo size z used).
  { intros size mk lo C Hs Hlo Hm. unfold pmap in Hm.
    destruct (int_with_tlf size i t) as [r z|e|] eqn:E; try discriminate. inversion Hm; subst.
    destruct (int_with_tlf_sound size i t rest z Hs Hi1 C E) as (data & -> & Hd & Hv).
    apply num_check_len in C. destruct C as [Hty Hl].
    exists z. split; [reflexivity|]. exists (u ++ data). split; [rewrite app_assoc; reflexivity|].
    exists u, data. rewrite Hd, Hty in *. repeat split; auto; lia. }
  assert (SU : forall size (mk : N -> value) lo,
            num_check TUns size t = true -> lo <= tlen t ->
            pmap (uns_with_tlf size i t) mk = POk rest v ->
            exists z, v = mk z /\ exists used, u ++ i = used ++ rest /\ enc_uns_k lo size z used).
  { intros size mk lo C Hlo Hm. unfold pmap in Hm.
    destruct (uns_with_tlf size i t) as [r z|e|] eqn:E; try discriminate. inversion Hm; subst.
    destruct (uns_with_tlf_sound size i t rest z C E) as (data & -> & Hd & Hv).
    apply num_check_len in C. destruct C as [Hty Hl].
    exists z. split; [reflexivity|]. exists (u ++ data). split; [rewrite app_assoc; reflexivity|].
    exists u, data. rewrite Hd, Hty in *. repeat split; auto; lia. }
  destruct (num_check TInt 1 t) eqn:I1.
  { destruct (SI 1 VI8 1 I1 ltac:(unfold std_size; lia) ltac:(apply num_check_len in I1; lia) Hp) as (z & -> & used & E & He).
    exists used. split; [exact E|exact He]. }
  destruct (num_check TInt 2 t) eqn:I2.
  { pose proof (num_check_len _ _ _ I2) as [Hty Hl].
    pose proof (num_check_false_gt _ _ _ I1 Hty ltac:(lia)).
    destruct (SI 2 VI16 2 I2 ltac:(unfold std_size; lia) ltac:(lia) Hp) as (z & -> & used & E & He).
    exists used. split; [exact E|exact He]. }
  destruct (num_check TInt 4 t) eqn:I4.
  { pose proof (num_check_len _ _ _ I4) as [Hty Hl].
    pose proof (num_check_false_gt _ _ _ I2 Hty ltac:(lia)).
    destruct (SI 4 VI32 3 I4 ltac:(unfold std_size; lia) ltac:(lia) Hp) as (z & -> & used & E & He).
    exists used. split; [exact E|exact He]. }
  destruct (num_check TInt 8 t) eqn:I8.
  { pose proof (num_check_len _ _ _ I8) as [Hty Hl].
    pose proof (num_check_false_gt _ _ _ I4 Hty ltac:(lia)).
    destruct (SI 8 VI64 5 I8 ltac:(unfold std_size; lia) ltac:(lia) Hp) as (z & -> & used & E & He).
    exists used. split; [exact E|exact He]. }
  destruct (num_check TUns 1 t) eqn:U1.
  { destruct (SU 1 VU8 1 U1 ltac:(apply num_check_len in U1; lia) Hp) as (z & -> & used & E & He).
    exists used. split; [exact E|exact He]. }
  destruct (num_check TUns 2 t) eqn:U2.
  { pose proof (num_check_len _ _ _ U2) as [Hty Hl].
    pose proof (num_check_false_gt _ _ _ U1 Hty ltac:(lia)).
    destruct (SU 2 VU16 2 U2 ltac:(lia) Hp) as (z & -> & used & E & He).
    exists used. split; [exact E|exact He]. }
  destruct (num_check TUns 4 t) eqn:U4.
  { pose proof (num_check_len _ _ _ U4) as [Hty Hl].
    pose proof (num_check_false_gt _ _ _ U2 Hty ltac:(lia)).
    destruct (SU 4 VU32 3 U4 ltac:(lia) Hp) as (z & -> & used & E & He).
    exists used. split; [exact E|exact He]. }
  destruct (num_check TUns 8 t) eqn:U8.
  { pose proof (num_check_len _ _ _ U8) as [Hty Hl].
    pose proof (num_check_false_gt _ _ _ U4 Hty ltac:(lia)).
    destruct (SU 8 VU64 5 U8 ltac:(lia) Hp) as (z & -> & used & E & He).
    exists used. split; [exact E|exact He]. }
  destruct (listtype_check t) eqn:Cl; [|discriminate].
  unfold listtype_check in Cl. apply andb_true_iff in Cl. destruct Cl as [Cty Cn]. apply N.eqb_eq in Cn.
  assert (Ety : tty t = TList) by (destruct (tty t); try discriminate; reflexivity).
  unfold pmap in Hp. destruct (listtype_with_tlf i t) as [r tm|e|] eqn:E; try discriminate. inversion Hp; subst.
  unfold listtype_with_tlf in E. apply pbind_ok in E. destruct E as (i2 & tag & Etag & E).
  destruct (N.eqb_spec tag 1) as [->|]; [|discriminate].
  destruct (uns_k_sound 1 i i2 1 Hi1 Etag) as (b1 & -> & Hb1).
  destruct (time_sound i2 rest tm (ok_in_suffix _ _ Hi1) E) as (b2 & -> & Hb2).
  exists (u ++ b1 ++ b2). split; [rewrite <- !app_assoc; reflexivity|]. cbn [enc_value].
  exists u, b1, b2. rewrite Ety, Cn in Hu. repeat split; auto.
Qed.

Lemma value_complete : cpl_of p_value enc_value.
Proof.
  intros v used rest He Hi. unfold p_value, with_tlf.
  assert (GI : forall lo hi z (mk : Z -> value),
            enc_int_k lo hi z used -> 1 <= lo -> hi <= 8 ->
            (forall k, lo <= k <= hi -> int_variant k z = mk z) ->
            (let* (input, t) := tlf_parse (used ++ rest) in
             (if (fun _ => true) t then value_with_tlf input t else PErr TlfMismatch)) = POk rest (mk z)).
  { intros lo hi z mk (t & data & Ht & Hl & Hv & Eu) Hlo Hhi Hmk. subst used. rewrite <- app_assoc in *.
    rewrite (tlf_complete _ _ t _ Ht Hi). cbn [pbind].
    assert (Hbd : bytes_ok data).
    { destruct Hi as [Hb _]. apply bytes_ok_app in Hb. destruct Hb as [_ Hb]. apply bytes_ok_app in Hb. tauto. }
    rewrite (value_int_exact data rest) by (try lia; exact Hbd). rewrite Hv, (Hmk (lenN data) Hl). reflexivity. }
  assert (GU : forall lo hi z (mk : N -> value),
            enc_uns_k lo hi z used -> 1 <= lo -> hi <= 8 ->
            (forall k, lo <= k <= hi -> uns_variant k z = mk z) ->
            (let* (input, t) := tlf_parse (used ++ rest) in
             (if (fun _ => true) t then value_with_tlf input t else PErr TlfMismatch)) = POk rest (mk z)).
  { intros lo hi z mk (t & data & Ht & Hl & Hv & Eu) Hlo Hhi Hmk. subst used. rewrite <- app_assoc in *.
    rewrite (tlf_complete _ _ t _ Ht Hi). cbn [pbind].
    assert (Hbd : bytes_ok data).
    { destruct Hi as [Hb _]. apply bytes_ok_app in Hb. destruct Hb as [_ Hb]. apply bytes_ok_app in Hb. tauto. }
    rewrite (value_uns_exact data rest) by (try lia; exact Hbd). rewrite Hv, (Hmk (lenN data) Hl). reflexivity. }
  destruct v as [b|data|z|z|z|z|x|x|x|x|tm]; cbn [enc_value] in He.
  - destruct He as (t & x & Ht & Hb & ->). rewrite <- app_assoc in *.
    rewrite (tlf_complete _ _ t _ Ht Hi). cbn [pbind app]. rewrite value_bool_exact, Hb. reflexivity.
  - destruct He as (t & Ht & ->). rewrite <- app_assoc in *.
    rewrite (tlf_complete _ _ t _ Ht Hi). cbn [pbind]. apply value_octet_exact.
  - apply (GI 1 1 z VI8 He); [lia|lia|]. intros k Hk. assert (k = 1) by lia. subst. reflexivity.
  - apply (GI 2 2 z VI16 He); [lia|lia|]. intros k Hk. assert (k = 2) by lia. subst. reflexivity.
  - apply (GI 3 4 z VI32 He); [lia|lia|]. intros k Hk. assert (k = 3 \/ k = 4) as [->| ->] by lia; reflexivity.
  - apply (GI 5 8 z VI64 He); [lia|lia|]. intros k Hk.
    assert (k = 5 \/ k = 6 \/ k = 7 \/ k = 8) as [->|[->|[->| ->]]] by lia; reflexivity.
  - apply (GU 1 1 x VU8 He); [lia|lia|]. intros k Hk. assert (k = 1) by lia. subst. reflexivity.
  - apply (GU 2 2 x VU16 He); [lia|lia|]. intros k Hk. assert (k = 2) by lia. subst. reflexivity.
  - apply (GU 3 4 x VU32 He); [lia|lia|]. intros k Hk. assert (k = 3 \/ k = 4) as [->| ->] by lia; reflexivity.
  - apply (GU 5 8 x VU64 He); [lia|lia|]. intros k Hk.
    assert (k = 5 \/ k = 6 \/ k = 7 \/ k = 8) as [->|[->|[->| ->]]] by lia; reflexivity.
  - destruct He as (t & b1 & b2 & Ht & H1 & H2 & ->). rewrite <- !app_assoc in *.
    rewrite (tlf_complete _ _ t _ Ht Hi). cbn [pbind].
    unfold value_with_tlf, bool_check, octet_check, num_check, listtype_check, tlf_eqb.
    cbn [tty tlen ty_eqb andb N.eqb Pos.eqb].
    assert (Hi1 : ok_in (b1 ++ b2 ++ rest)) by exact (ok_in_suffix _ _ Hi).
    unfold listtype_with_tlf, p_u8. rewrite (uns_k_complete 1 1 b1 (b2 ++ rest) H1 Hi1). cbn [pbind N.eqb Pos.eqb].
    rewrite (time_complete tm b2 rest H2 (ok_in_suffix _ _ Hi1)). reflexivity.
Qed.

(* ---------- records ---------- *)
Definition so_octet := opt_sound p_octet enc_octet octet_sound.
Definition so_status := opt_sound p_status enc_status status_sound.
Definition so_time := opt_sound p_time enc_time time_sound.
Definition so_u8 := opt_sound (p_uns 1) (enc_uns 1) (uns_k_sound 1).
Definition so_i8 := opt_sound p_i8 (enc_int 1) int_1_sound.
Definition co_octet := opt_complete p_octet enc_octet enc_octet_ne octet_complete.
Definition co_status := opt_complete p_status enc_status enc_status_ne status_complete.
Definition co_time := opt_complete p_time enc_time enc_time_ne time_complete.
Definition co_u8 := opt_complete (p_uns 1) (enc_uns 1) (enc_uns_k_ne 1 1) (uns_k_complete 1).
Definition co_i8 := opt_complete p_i8 (enc_int 1) (enc_int_k_ne 1 1) int_1_complete.

Ltac field H Hi S :=
  let i := fresh "i" in let a := fresh "a" in let E := fresh "E" in
  let b := fresh "b" in let Hb := fresh "Hb" in
  apply pbind_ok in H; destruct H as (i & a & E & H);
  destruct (S _ _ _ Hi E) as (b & -> & Hb);
  apply ok_in_suffix in Hi.

Lemma list_entry_sound : snd_of p_list_entry enc_list_entry.
Proof.
  intros input rest v Hi H. unfold p_list_entry in H. apply with_tlf_ok in H.
  destruct H as (i & t & Et & Ct & Hp).
  destruct (tlf_sound input i t Hi Et) as (u & -> & _ & Hu).
  apply ok_in_suffix in Hi.
  unfold list_is in Ct. apply tlf_eqb_true in Ct. cbn [tty tlen] in Ct. destruct Ct as [Ety El]. rewrite Ety, El in Hu.
  unfold le_with_tlf in Hp.
  field Hp Hi octet_sound. field Hp Hi so_status. field Hp Hi so_time. field Hp Hi so_u8.
  field Hp Hi so_i8. field Hp Hi value_sound. field Hp Hi so_octet.
  inversion Hp; subst. clear Hp.
  eexists. split; [|exists u; do 7 eexists; cbn [obj_name le_status val_time le_unit scaler le_value value_signature];
                    repeat split; eauto].
  rewrite <- !app_assoc. reflexivity.
Qed.

Lemma list_entry_complete : cpl_of p_list_entry enc_list_entry.
Proof.
  intros [a b c d e f g] used rest (t & b1 & b2 & b3 & b4 & b5 & b6 & b7 & Ht & H1 & H2 & H3 & H4 & H5 & H6 & H7 & ->) Hi.
  cbn [obj_name le_status val_time le_unit scaler le_value value_signature] in *.
  unfold p_list_entry, with_tlf. rewrite <- !app_assoc in *.
  rewrite (tlf_complete _ _ t _ Ht Hi). cbn [pbind]. unfold list_is, tlf_eqb. cbn [tty tlen ty_eqb andb N.eqb Pos.eqb].
  apply ok_in_suffix in Hi. unfold le_with_tlf.
  rewrite (octet_complete _ _ _ H1 Hi). cbn [pbind]. apply ok_in_suffix in Hi.
  rewrite (co_status _ _ _ H2 Hi). cbn [pbind]. apply ok_in_suffix in Hi.
  rewrite (co_time _ _ _ H3 Hi). cbn [pbind]. apply ok_in_suffix in Hi.
  unfold p_u8. rewrite (co_u8 _ _ _ H4 Hi). cbn [pbind]. apply ok_in_suffix in Hi.
  rewrite (co_i8 _ _ _ H5 Hi). cbn [pbind]. apply ok_in_suffix in Hi.
  rewrite (value_complete _ _ _ H6 Hi). cbn [pbind]. apply ok_in_suffix in Hi.
  rewrite <- (app_nil_r b7) at 1. rewrite <- app_assoc. cbn [app].
  rewrite (co_octet _ _ _ H7 Hi). reflexivity.
Qed.

Lemma open_sound : snd_of p_open enc_open.
Proof.
  intros input rest v Hi H. unfold p_open in H. apply with_tlf_ok in H.
  destruct H as (i & t & Et & Ct & Hp).
  destruct (tlf_sound input i t Hi Et) as (u & -> & _ & Hu).
  apply ok_in_suffix in Hi.
  unfold list_is in Ct. apply tlf_eqb_true in Ct. cbn [tty tlen] in Ct. destruct Ct as [Ety El]. rewrite Ety, El in Hu.
  unfold open_with_tlf in Hp.
  field Hp Hi so_octet. field Hp Hi so_octet. field Hp Hi octet_sound. field Hp Hi octet_sound.
  field Hp Hi so_time. field Hp Hi so_u8.
  inversion Hp; subst. clear Hp.
  eexists. split; [|exists u; do 6 eexists; cbn [codepage o_client_id req_file_id o_server_id ref_time sml_version];
                    repeat split; eauto].
  rewrite <- !app_assoc. reflexivity.
Qed.

Lemma open_complete : cpl_of p_open enc_open.
Proof.
  intros [a b c d e f] used rest (t & b1 & b2 & b3 & b4 & b5 & b6 & Ht & H1 & H2 & H3 & H4 & H5 & H6 & ->) Hi.
  cbn [codepage o_client_id req_file_id o_server_id ref_time sml_version] in *.
  unfold p_open, with_tlf. rewrite <- !app_assoc in *.
  rewrite (tlf_complete _ _ t _ Ht Hi). cbn [pbind]. unfold list_is, tlf_eqb. cbn [tty tlen ty_eqb andb N.eqb Pos.eqb].
  apply ok_in_suffix in Hi. unfold open_with_tlf.
  rewrite (co_octet _ _ _ H1 Hi). cbn [pbind]. apply ok_in_suffix in Hi.
  rewrite (co_octet _ _ _ H2 Hi). cbn [pbind]. apply ok_in_suffix in Hi.
  rewrite (octet_complete _ _ _ H3 Hi). cbn [pbind]. apply ok_in_suffix in Hi.
  rewrite (octet_complete _ _ _ H4 Hi). cbn [pbind]. apply ok_in_suffix in Hi.
  rewrite (co_time _ _ _ H5 Hi). cbn [pbind]. apply ok_in_suffix in Hi.
  unfold p_u8. rewrite (co_u8 _ _ _ H6 Hi). reflexivity.
Qed.

Lemma close_sound : snd_of p_close enc_close.
Proof.
  intros input rest v Hi H. unfold p_close in H. apply with_tlf_ok in H.
  destruct H as (i & t & Et & Ct & Hp).
  destruct (tlf_sound input i t Hi Et) as (u & -> & _ & Hu).
  apply ok_in_suffix in Hi.
  unfold list_is in Ct. apply tlf_eqb_true in Ct. cbn [tty tlen] in Ct. destruct Ct as [Ety El]. rewrite Ety, El in Hu.
  unfold close_with_tlf in Hp. destruct (so_octet _ _ _ Hi Hp) as (b1 & -> & Hb1).
  exists (u ++ b1). split; [rewrite app_assoc; reflexivity|]. exists u, b1. auto.
Qed.

Lemma close_complete : cpl_of p_close enc_close.
Proof.
  intros v used rest (t & b1 & Ht & H1 & ->) Hi. unfold p_close, with_tlf. rewrite <- !app_assoc in *.
  rewrite (tlf_complete _ _ t _ Ht Hi). cbn [pbind]. unfold list_is, tlf_eqb. cbn [tty tlen ty_eqb andb N.eqb Pos.eqb].
  apply ok_in_suffix in Hi. unfold close_with_tlf. apply (co_octet _ _ _ H1 Hi).
Qed.

(* ---------- the list of entries ---------- *)
Lemma entries_sound : forall fuel n input rest es,
  ok_in input -> list_loop fuel n input = POk rest es ->
  exists used, input = used ++ rest /\ enc_entries es used /\ lenN es = n.
Proof.
  induction fuel as [|f IH]; intros n input rest es Hi H; cbn [list_loop] in H.
  - destruct (N.eqb_spec n 0) as [->|N0].
    + inversion H; subst. exists []. repeat split; constructor.
    + destruct (p_list_entry input); discriminate.
  - destruct (N.eqb_spec n 0) as [->|N0].
    + inversion H; subst. exists []. repeat split; constructor.
    + apply pbind_ok in H. destruct H as (i1 & e & E1 & H).
      destruct (list_entry_sound _ _ _ Hi E1) as (b1 & -> & Hb1).
      apply pbind_ok in H. destruct H as (i2 & xs & E2 & H). inversion H; subst. clear H.
      destruct (IH (n - 1) i1 rest xs (ok_in_suffix _ _ Hi) E2) as (b2 & -> & Hb2 & Hn).
      exists (b1 ++ b2). split; [rewrite app_assoc; reflexivity|]. split; [constructor; assumption|].
      rewrite lenN_cons, Hn. lia.
Qed.

Lemma enc_list_entry_ne e u : enc_list_entry e u -> u <> [].
Proof.
  intros (t & b1 & b2 & b3 & b4 & b5 & b6 & b7 & Ht & _ & _ & _ & _ & _ & _ & _ & ->).
  pose proof (enc_tlf_nonempty _ _ _ Ht). destruct t; [congruence|discriminate].
Qed.

Lemma entries_complete : forall es used rest fuel,
  enc_entries es used -> ok_in (used ++ rest) -> (length (used ++ rest) <= fuel)%nat ->
  list_loop fuel (lenN es) (used ++ rest) = POk rest es.
Proof.
  intros es used rest fuel He. revert rest fuel.
  induction He as [|e es b1 b2 H1 H2 IH]; intros rest fuel Hi Hf.
  - destruct fuel; reflexivity.
  - rewrite lenN_cons. rewrite <- app_assoc in *.
    pose proof (enc_list_entry_ne _ _ H1) as Hne.
    destruct fuel as [|f].
    { exfalso. rewrite app_length in Hf. destruct b1; [congruence|cbn [length] in Hf; lia]. }
    cbn [list_loop]. destruct (N.eqb_spec (1 + lenN es) 0); [lia|].
    rewrite (list_entry_complete e b1 (b2 ++ rest) H1 Hi). cbn [pbind].
    replace (1 + lenN es - 1) with (lenN es) by lia.
    rewrite IH; [reflexivity|exact (ok_in_suffix _ _ Hi)|].
    rewrite app_length in Hf. destruct b1; [congruence|cbn [length] in Hf; lia].
Qed.

(* ---------- get-list response, body, message, file ---------- *)
Lemma glr_sound : snd_of p_glr enc_glr.
Proof.
  intros input rest v Hi H. unfold p_glr in H. apply with_tlf_ok in H.
  destruct H as (i & t & Et & Ct & Hp).
  destruct (tlf_sound input i t Hi Et) as (u & -> & _ & Hu).
  apply ok_in_suffix in Hi.
  unfold list_is in Ct. apply tlf_eqb_true in Ct. cbn [tty tlen] in Ct. destruct Ct as [Ety El]. rewrite Ety, El in Hu.
  unfold glr_with_tlf in Hp.
  field Hp Hi so_octet. field Hp Hi octet_sound. field Hp Hi so_octet. field Hp Hi so_time.
  (* the list *)
  apply pbind_ok in Hp. destruct Hp as (i5 & es & El5 & Hp).
  unfold p_list in El5. apply with_tlf_ok in El5. destruct El5 as (i6 & tl & Etl & Ctl & Hll).
  destruct (tlf_sound _ i6 tl Hi Etl) as (ul & -> & _ & Hul).
  apply ok_in_suffix in Hi.
  assert (Etyl : tty tl = TList) by (destruct (tty tl); try discriminate; reflexivity). rewrite Etyl in Hul.
  destruct (entries_sound _ _ _ _ _ Hi Hll) as (b5 & -> & Hb5 & Hn5).
  apply ok_in_suffix in Hi.
  field Hp Hi so_octet. field Hp Hi so_time.
  inversion Hp; subst. clear Hp.
  eexists. split; [|exists u; do 8 eexists;
                    cbn [g_client_id g_server_id list_name act_sensor_time val_list list_signature act_gateway_time];
                    repeat split; eauto; try (rewrite Hn5; exact Hul)].
  rewrite <- !app_assoc. reflexivity.
Qed.

Lemma glr_complete : cpl_of p_glr enc_glr.
Proof.
  intros [a b c d es f g] used rest (t & b1 & b2 & b3 & b4 & tl & b5 & b6 & b7 & Ht & H1 & H2 & H3 & H4 & Htl & H5 & H6 & H7 & ->) Hi.
  cbn [g_client_id g_server_id list_name act_sensor_time val_list list_signature act_gateway_time] in *.
  unfold p_glr, with_tlf. rewrite <- !app_assoc in *.
  rewrite (tlf_complete _ _ t _ Ht Hi). cbn [pbind]. unfold list_is, tlf_eqb. cbn [tty tlen ty_eqb andb N.eqb Pos.eqb].
  apply ok_in_suffix in Hi. unfold glr_with_tlf.
  rewrite (co_octet _ _ _ H1 Hi). cbn [pbind]. apply ok_in_suffix in Hi.
  rewrite (octet_complete _ _ _ H2 Hi). cbn [pbind]. apply ok_in_suffix in Hi.
  rewrite (co_octet _ _ _ H3 Hi). cbn [pbind]. apply ok_in_suffix in Hi.
  rewrite (co_time _ _ _ H4 Hi). cbn [pbind]. apply ok_in_suffix in Hi.
  unfold p_list, with_tlf. rewrite (tlf_complete _ _ tl _ Htl Hi). cbn [pbind tty tlen ty_eqb].
  apply ok_in_suffix in Hi.
  rewrite (entries_complete es b5 (b6 ++ b7 ++ rest) _ H5 Hi (le_n _)). cbn [pbind]. apply ok_in_suffix in Hi.
  rewrite (co_octet _ _ _ H6 Hi). cbn [pbind]. apply ok_in_suffix in Hi.
  rewrite (co_time _ _ _ H7 Hi). reflexivity.
Qed.

Lemma body_sound : snd_of p_body enc_body.
Proof.
  intros input rest v Hi H. unfold p_body in H. apply with_tlf_ok in H.
  destruct H as (i & t & Et & Ct & Hp).
  destruct (tlf_sound input i t Hi Et) as (u & -> & _ & Hu).
  apply ok_in_suffix in Hi.
  unfold body_check in Ct. apply andb_true_iff in Ct. destruct Ct as [Cty Cn]. apply N.eqb_eq in Cn.
  assert (Ety : tty t = TList) by (destruct (tty t); try discriminate; reflexivity). rewrite Ety, Cn in Hu.
  unfold body_with_tlf in Hp. apply pbind_ok in Hp. destruct Hp as (i2 & tag & Etag & Hp).
  destruct (uns_k_sound 4 _ _ _ Hi Etag) as (bt & -> & Hbt). apply ok_in_suffix in Hi.
  destruct (N.eqb_spec tag 257) as [->|N1].
  { unfold pmap in Hp. destruct (p_open i2) as [r o|e|] eqn:E; try discriminate. inversion Hp; subst.
    destruct (open_sound _ _ _ Hi E) as (bb & -> & Hbb).
    exists (u ++ bt ++ bb). split; [rewrite <- !app_assoc; reflexivity|]. exists u, bt, bb. repeat split; auto. }
  destruct (N.eqb_spec tag 513) as [->|N2].
  { unfold pmap in Hp. destruct (p_close i2) as [r o|e|] eqn:E; try discriminate. inversion Hp; subst.
    destruct (close_sound _ _ _ Hi E) as (bb & -> & Hbb).
    exists (u ++ bt ++ bb). split; [rewrite <- !app_assoc; reflexivity|]. exists u, bt, bb. repeat split; auto. }
  destruct (N.eqb_spec tag 1793) as [->|N3]; [|discriminate].
  unfold pmap in Hp. destruct (p_glr i2) as [r o|e|] eqn:E; try discriminate. inversion Hp; subst.
  destruct (glr_sound _ _ _ Hi E) as (bb & -> & Hbb).
  exists (u ++ bt ++ bb). split; [rewrite <- !app_assoc; reflexivity|]. exists u, bt, bb. repeat split; auto.
Qed.

Lemma body_complete : cpl_of p_body enc_body.
Proof.
  intros v used rest (t & bt & bb & Ht & Hb & ->) Hi. unfold p_body, with_tlf. rewrite <- !app_assoc in *.
  rewrite (tlf_complete _ _ t _ Ht Hi). cbn [pbind]. unfold body_check. cbn [tty tlen ty_eqb andb N.eqb Pos.eqb].
  apply ok_in_suffix in Hi. unfold body_with_tlf, p_u32.
  destruct v as [o|s|g]; destruct Hb as [Htag Hbody];
    rewrite (uns_k_complete 4 _ bt (bb ++ rest) Htag Hi); cbn [pbind N.eqb Pos.eqb]; apply ok_in_suffix in Hi.
  - rewrite (open_complete _ _ _ Hbody Hi). reflexivity.
  - rewrite (close_complete _ _ _ Hbody Hi). reflexivity.
  - rewrite (glr_complete _ _ _ Hbody Hi). reflexivity.
Qed.

Lemma firstn_len_sub (a b : list byte) : firstn (length (a ++ b) - length b) (a ++ b) = a.
Proof.
  rewrite app_length, Nat.add_sub, firstn_app, Nat.sub_diag, firstn_all. cbn [firstn]. apply app_nil_r.
Qed.

Lemma message_sound : snd_of p_message enc_message.
Proof.
  intros input rest v Hi H. unfold p_message in H.
  apply pbind_ok in H. destruct H as (i1 & t & Et & H).
  destruct (tlf_sound input i1 t Hi Et) as (u & Ein & _ & Hu).
  destruct (negb (ty_eqb (tty t) TList) || negb (tlen t =? 6)) eqn:Ck; [discriminate|].
  apply orb_false_iff in Ck. destruct Ck as [C1 C2]. apply negb_false_iff in C1. apply negb_false_iff, N.eqb_eq in C2.
  assert (Ety : tty t = TList) by (destruct (tty t); try discriminate; reflexivity). rewrite Ety, C2 in Hu.
  assert (Hi0 := Hi). rewrite Ein in Hi. apply ok_in_suffix in Hi.
  apply pbind_ok in H. destruct H as (i2 & tid & E2 & H).
  destruct (octet_sound _ _ _ Hi E2) as (b1 & E1' & Hb1). rewrite E1' in Hi. apply ok_in_suffix in Hi.
  apply pbind_ok in H. destruct H as (i3 & g & E3 & H).
  destruct (uns_k_sound 1 _ _ _ Hi E3) as (b2 & E2' & Hb2). rewrite E2' in Hi. apply ok_in_suffix in Hi.
  apply pbind_ok in H. destruct H as (i4 & a & E4 & H).
  destruct (uns_k_sound 1 _ _ _ Hi E4) as (b3 & E3' & Hb3). rewrite E3' in Hi. apply ok_in_suffix in Hi.
  apply pbind_ok in H. destruct H as (i5 & b & E5 & H).
  destruct (body_sound _ _ _ Hi E5) as (b4 & E4' & Hb4). rewrite E4' in Hi. apply ok_in_suffix in Hi.
  destruct (N.ltb_spec (lenN input) (lenN i5)); [discriminate|].
  apply pbind_ok in H. destruct H as (i6 & crc & E6 & H).
  destruct (uns_k_sound 2 _ _ _ Hi E6) as (bc & E5' & Hbc). rewrite E5' in Hi. apply ok_in_suffix in Hi.
  apply pbind_ok in H. destruct H as (i7 & x & E7 & H).
  unfold p_end_of_msg, pbind, take_byte in E7. destruct i6 as [|z i6']; [discriminate|].
  destruct (N.eqb_spec z 0) as [->|]; [|discriminate]. cbn [negb] in E7. inversion E7; subst i7 x.
  match type of H with (if ?c then _ else _) = _ => destruct c eqn:Ecrc end; [discriminate|].
  injection H as Hr Hv. subst i6' v. apply negb_false_iff, N.eqb_eq in Ecrc.
  (* assemble *)
  assert (Einput : input = (u ++ b1 ++ b2 ++ b3 ++ b4) ++ bc ++ [0] ++ rest).
  { rewrite Ein, E1', E2', E3', E4', E5', <- !app_assoc. reflexivity. }
  exists ((u ++ b1 ++ b2 ++ b3 ++ b4) ++ bc ++ [0]). split; [rewrite Einput, <- !app_assoc; reflexivity|].
  exists u, b1, b2, b3, b4, bc. cbn [transaction_id group_no abort_on_error message_body].
  repeat split; auto.
  (* the checksum ranges over exactly the bytes before the crc field *)
  assert (Hfirst : firstn (length input - length i5) input = u ++ b1 ++ b2 ++ b3 ++ b4).
  { rewrite Einput, E5'. apply firstn_len_sub. }
  rewrite Hfirst in Ecrc. rewrite Ecrc. exact Hbc.
Qed.

Lemma message_complete : cpl_of p_message enc_message.
Proof.
  intros [tid g a b] used rest (t & b1 & b2 & b3 & b4 & bc & Ht & H1 & H2 & H3 & H4 & Hc & ->) Hi.
  cbn [transaction_id group_no abort_on_error message_body] in *.
  unfold p_message. rewrite <- !app_assoc in *.
  set (whole := t ++ b1 ++ b2 ++ b3 ++ b4 ++ bc ++ [0] ++ rest) in *.
  assert (Hi0 := Hi).
  unfold whole at 1. rewrite (tlf_complete _ _ t _ Ht Hi). cbn [pbind tty tlen ty_eqb negb orb N.eqb Pos.eqb].
  unfold whole in Hi. apply ok_in_suffix in Hi.
  rewrite (octet_complete _ _ _ H1 Hi). cbn [pbind]. apply ok_in_suffix in Hi.
  unfold p_u8. rewrite (uns_k_complete 1 _ _ _ H2 Hi). cbn [pbind]. apply ok_in_suffix in Hi.
  rewrite (uns_k_complete 1 _ _ _ H3 Hi). cbn [pbind]. apply ok_in_suffix in Hi.
  rewrite (body_complete _ _ _ H4 Hi). cbn [pbind]. apply ok_in_suffix in Hi.
  destruct (N.ltb_spec (lenN whole) (lenN (bc ++ [0] ++ rest))) as [Hbad|_].
  { unfold whole in Hbad. rewrite !lenN_app in Hbad. lia. }
  unfold p_u16. rewrite (uns_k_complete 2 _ _ _ Hc Hi). cbn [pbind]. apply ok_in_suffix in Hi.
  cbn [app p_end_of_msg pbind take_byte N.eqb negb].
  assert (Hfirst : firstn (length whole - length (bc ++ 0 :: rest)) whole = t ++ b1 ++ b2 ++ b3 ++ b4).
  { replace whole with ((t ++ b1 ++ b2 ++ b3 ++ b4) ++ bc ++ 0 :: rest)
      by (unfold whole; rewrite <- !app_assoc; reflexivity).
    apply firstn_len_sub. }
  change (bc ++ [0] ++ rest) with (bc ++ 0 :: rest). rewrite Hfirst, !N.eqb_refl. reflexivity.
Qed.

Lemma enc_message_ne m u : enc_message m u -> u <> [].
Proof.
  intros (t & b1 & b2 & b3 & b4 & bc & Ht & _ & _ & _ & _ & _ & ->).
  pose proof (enc_tlf_nonempty _ _ _ Ht). destruct t; [congruence|discriminate].
Qed.

Theorem file_sound : forall fuel input rest f,
  ok_in input -> file_loop fuel input = POk rest f -> rest = [] /\ enc_file f input.
Proof.
  induction fuel as [|fl IH]; intros input rest f Hi H; cbn [file_loop] in H.
  - destruct input; [|discriminate]. inversion H; subst. split; [reflexivity|constructor].
  - destruct input as [|b r] eqn:Ei; [inversion H; subst; split; [reflexivity|constructor]|].
    rewrite <- Ei in *. apply pbind_ok in H. destruct H as (i1 & m & E1 & H).
    destruct (message_sound _ _ _ Hi E1) as (b1 & Eb & Hb1).
    apply pbind_ok in H. destruct H as (i2 & ms & E2 & H). inversion H; subst i2 f. clear H.
    rewrite Eb in Hi. destruct (IH i1 rest ms (ok_in_suffix _ _ Hi) E2) as [-> Hms].
    split; [reflexivity|]. rewrite Eb. constructor; assumption.
Qed.

Theorem file_complete : forall f used fuel,
  enc_file f used -> ok_in used -> (length used <= fuel)%nat -> file_loop fuel used = POk [] f.
Proof.
  intros f used fuel He. revert fuel. induction He as [|m ms b1 b2 H1 H2 IH]; intros fuel Hi Hf.
  - destruct fuel; reflexivity.
  - pose proof (enc_message_ne _ _ H1) as Hne.
    destruct fuel as [|fl]; [exfalso; rewrite app_length in Hf; destruct b1; [congruence|cbn [length] in Hf; lia]|].
    destruct (b1 ++ b2) as [|x r] eqn:E; [destruct b1; [congruence|discriminate]|].
    cbn [file_loop]. rewrite <- E in *.
    rewrite (message_complete m b1 b2 H1 Hi). cbn [pbind].
    rewrite IH; [reflexivity|exact (ok_in_suffix _ _ Hi)|].
    rewrite app_length in Hf. destruct b1; [congruence|cbn [length] in Hf; lia].
Qed.

(* ---------- C04 / C03 at the level of complete::parse ---------- *)
Theorem parse_sound bs f : ok_in bs -> parse bs = FileOk f -> enc_file f bs.
Proof.
  intros Hi H. unfold parse in H.
  destruct (file_loop (length bs) bs) as [rest f'|e|] eqn:E; [|discriminate|discriminate].
  destruct (file_sound _ _ _ _ Hi E) as [-> Hf]. inversion H; subst. exact Hf.
Qed.

Theorem parse_complete bs f : ok_in bs -> enc_file f bs -> parse bs = FileOk f.
Proof.
  intros Hi He. unfold parse. rewrite (file_complete f bs (length bs) He Hi (le_n _)). reflexivity.
Qed.

(* the content of a byte string is unique *)
Corollary enc_file_functional bs f1 f2 : ok_in bs -> enc_file f1 bs -> enc_file f2 bs -> f1 = f2.
Proof.
  intros Hi H1 H2. pose proof (parse_complete bs f1 Hi H1) as P1. pose proof (parse_complete bs f2 Hi H2) as P2.
  congruence.
Qed.

(* "any other byte string yields an error" *)
Theorem parse_rejects bs : ok_in bs -> (forall f, ~ enc_file f bs) -> exists e, parse bs = FileErr e.
Proof.
  intros Hi Hn. pose proof (parse_total bs Hi) as Ht.
  destruct (parse bs) as [f|e|] eqn:E.
  - exfalso. exact (Hn f (parse_sound bs f Hi E)).
  - exists e. reflexivity.
  - contradiction.
Qed.

(* ---------- the streaming parser, through C09 ---------- *)
Require Import Sml.Proofs.ParsersAgree.

Theorem streaming_complete bs f k :
  ok_in bs -> enc_file f bs ->
  sp_calls k (sp_new bs) = firstn k (map SEvent (flat_map flatten_msg f) ++ repeat SNone k).
Proof.
  intros Hi He. pose proof (parsers_agree bs k Hi) as H. rewrite (parse_complete bs f Hi He) in H. exact H.
Qed.

Lemma events_then_none : forall evs F n,
  (length evs < n)%nat ->
  firstn (S (length evs)) (map SEvent F ++ repeat SNone n) = map SEvent evs ++ [SNone] -> F = evs.
Proof.
  induction evs as [|e evs IH]; intros F n Hn H.
  - destruct F as [|x F]; [reflexivity|]. cbn in H. discriminate H.
  - destruct F as [|x F].
    + destruct n; [cbn [length] in Hn; lia|]. cbn in H. discriminate H.
    + cbn [map app length firstn] in H. injection H as Hx H. subst x. f_equal.
      apply (IH F n); [cbn [length] in Hn; lia|exact H].
Qed.

Lemma events_then_err : forall evs E e n,
  firstn (S (length evs)) (map SEvent E ++ [SErr e] ++ repeat SNone n) = map SEvent evs ++ [SNone] -> False.
Proof.
  induction evs as [|a evs IH]; intros E e n H.
  - destruct E as [|x E]; cbn in H; discriminate H.
  - destruct E as [|x E].
    + cbn in H. discriminate H.
    + cbn [map app length firstn] in H. injection H as _ H. exact (IH E e n H).
Qed.

(* the streaming parser's events, once it has reported the end of the input without an
   error, are exactly the content of a grammatical file *)
Theorem streaming_sound bs evs :
  ok_in bs ->
  sp_calls (S (length evs)) (sp_new bs) = map SEvent evs ++ [SNone] ->
  exists f, enc_file f bs /\ flat_map flatten_msg f = evs.
Proof.
  intros Hi H. pose proof (parsers_agree bs (S (length evs)) Hi) as A.
  destruct (parse bs) as [f|e|] eqn:E.
  - exists f. split; [exact (parse_sound bs f Hi E)|].
    rewrite H in A. symmetry in A. apply events_then_none in A; [exact A|lia].
  - exfalso. destruct A as (evs' & A). rewrite H in A. symmetry in A. exact (events_then_err _ _ _ _ A).
  - contradiction.
Qed.

Theorem streaming_rejects bs :
  ok_in bs -> (forall f, ~ enc_file f bs) ->
  exists e, forall k, exists evs, sp_calls k (sp_new bs) = firstn k (map SEvent evs ++ [SErr e] ++ repeat SNone k).
Proof.
  intros Hi Hn. destruct (parse_rejects bs Hi Hn) as (e & E). exists e. intros k.
  pose proof (parsers_agree bs k Hi) as A. rewrite E in A. exact A.
Qed.
