(* C16 (second half) and buffer independence: a decoder with a fixed buffer of N bytes
   behaves exactly like the one with a growable buffer until a write would exceed N, and at
   that very byte it reports OutOfMemory and resets. *)
Require Import Sml.Base.Prelude Sml.Base.Crc Sml.Spec.Frame Sml.Model.Decode.
Require Import Sml.Proofs.DecodeInv Sml.Proofs.DecodeGuard Sml.Proofs.RoundTrip Sml.Proofs.Boundary.

(* [f] is a buffer-writing action: with a growable buffer it succeeds with [d1], the buffer
   only grows, and with capacity N it succeeds (identically) iff the result fits *)
Definition grows (f : cap_t -> option dec) (d : dec) (N : nat) : Prop :=
  exists d1, f None = Some d1 /\ (length (rbuf d) <= length (rbuf d1))%nat /\
             ((length (rbuf d) <= N)%nat ->
              f (Some N) = if Nat.leb (length (rbuf d1)) N then Some d1 else None).

Lemma grows_pure d d' N : rbuf d' = rbuf d -> grows (fun _ => Some d') d N.
Proof.
  intros Hr. exists d'. rewrite Hr. split; [reflexivity|]. split; [lia|].
  intros Hn. destruct (Nat.leb_spec (length (rbuf d)) N); [reflexivity|lia].
Qed.

Lemma grows_push_inner d b N : grows (fun c => push_inner c d b) d N.
Proof.
  unfold grows, push_inner, fits. eexists. split; [reflexivity|]. cbn [rbuf length]. split; [lia|].
  intros _.
  destruct (Nat.ltb_spec (length (rbuf d)) N), (Nat.leb_spec (S (length (rbuf d))) N); try reflexivity; lia.
Qed.

Lemma grows_bind (f : cap_t -> option dec) (g : dec -> cap_t -> option dec) d N :
  grows f d N -> (forall d1, grows (g d1) d1 N) ->
  grows (fun c => match f c with Some x => g x c | None => None end) d N.
Proof.
  intros (d1 & F0 & L1 & FN) G. destruct (G d1) as (d2 & G0 & L2 & GN).
  exists d2. rewrite F0. split; [exact G0|]. split; [lia|].
  intros Hn. rewrite (FN Hn). destruct (Nat.leb_spec (length (rbuf d1)) N) as [H|H].
  - exact (GN H).
  - destruct (Nat.leb_spec (length (rbuf d2)) N); [lia|reflexivity].
Qed.

Lemma grows_ext f g d N : (forall c, f c = g c) -> grows f d N -> grows g d N.
Proof. intros E (d1 & A & B & C). exists d1. rewrite <- !E. auto. Qed.

Lemma grows_map (f : cap_t -> option dec) (h : dec -> dec) d N :
  (forall x, rbuf (h x) = rbuf x) -> grows f d N ->
  grows (fun c => match f c with Some x => Some (h x) | None => None end) d N.
Proof.
  intros Hh (d1 & F0 & L1 & FN). exists (h d1). rewrite F0, Hh. split; [reflexivity|]. split; [exact L1|].
  intros Hn. rewrite (FN Hn). destruct (Nat.leb (length (rbuf d1)) N); reflexivity.
Qed.

Lemma grows_flush_n N : forall n d, grows (fun c => flush_n c n d) d N.
Proof.
  induction n as [|n IH]; intros d; cbn [flush_n].
  - apply grows_pure. reflexivity.
  - apply (grows_bind (fun c => push_inner c d 0) (fun d1 c => flush_n c n d1)).
    + apply grows_push_inner.
    + intros d1. apply IH.
Qed.

Lemma grows_flush N d : grows (fun c => flush c d) d N.
Proof.
  unfold flush.
  apply (grows_map (fun c => flush_n c (N.to_nat (zc d)) d) (fun d' => mkdec (raw d') (crc d') (st d') 0 (rbuf d'))).
  - reflexivity.
  - apply grows_flush_n.
Qed.

Lemma grows_push N d b : grows (fun c => push c d b) d N.
Proof.
  unfold push. destruct (b =? 0).
  - destruct (zc d <=? 3).
    + apply grows_pure. reflexivity.
    + apply grows_push_inner.
  - apply (grows_bind (fun c => flush c d) (fun d1 c => push_inner c d1 b)).
    + apply grows_flush.
    + intros d1. apply grows_push_inner.
Qed.

Lemma grows_push_many N : forall bs d, grows (fun c => push_many c d bs) d N.
Proof.
  induction bs as [|b r IH]; intros d; cbn [push_many].
  - apply grows_pure. reflexivity.
  - apply (grows_bind (fun c => push c d b) (fun d1 c => push_many c d1 r)).
    + apply grows_push.
    + intros d1. apply IH.
Qed.

(* a branch of push_byte that writes to the buffer and then continues or reports OOM *)
Lemma grows_branch (P : cap_t -> option dec) d dd (h : dec -> dec) (o : out) N :
  grows P d N -> (length (rbuf d) <= N)%nat -> (forall x, rbuf (h x) = rbuf x) ->
  let R := fun c => match P c with Some d' => (h d', o) | None => oom dd end in
  (R (Some N) = R None /\ (length (rbuf (fst (R None))) <= N)%nat /\ snd (R None) = o) \/
  ((N < length (rbuf (fst (R None))))%nat /\ R (Some N) = oom dd /\ snd (R None) = o).
Proof.
  intros (d1 & P0 & L & PN) Hn Hh R. unfold R. rewrite P0, (PN Hn). cbn [fst snd]. rewrite Hh.
  destruct (Nat.leb_spec (length (rbuf d1)) N); [left|right]; auto.
Qed.

Definition step_cap_ok (N : nat) (d : dec) (b : byte) : Prop :=
  (step (Some N) d b = step None d b /\ (length (rbuf (fst (step None d b))) <= N)%nat) \/
  ((N < length (rbuf (fst (step None d b))))%nat /\
   (exists dd, step (Some N) d b = oom dd) /\
   (snd (step None d b) = ONone \/ snd (step None d b) = OMsg)).

Ltac leaf_same := left; split; [reflexivity|cbn [fst snd reset_st set_st upd_crc panic oom rbuf length]; lia].

Theorem step_cap N d b : (length (rbuf d) <= N)%nat -> step_cap_ok N d b.
Proof.
  intros Hn. unfold step_cap_ok, step.
  set (d0' := match st d with Done => reset_st d | _ => d end).
  assert (Hn0 : (length (rbuf d0') <= N)%nat).
  { unfold d0'. destruct (st d); try exact Hn; cbn; lia. }
  clearbody d0'. clear Hn d.
  cbn [st raw crc zc rbuf].
  destruct (st d0') as [disc n| |n|k pl|] eqn:S0.
  - (* Looking: no buffer access *)
    unfold step_looking, panic.
    repeat match goal with |- context [if ?c then _ else _] => destruct c end; leaf_same.
  - (* Normal *)
    destruct (b =? 27); [leaf_same|].
    set (dd := upd_crc (mkdec (raw d0' + 1) (crc d0') Normal (zc d0') (rbuf d0')) [b]).
    destruct (grows_branch (fun c => push c dd b) dd dd (fun x => x) ONone N (grows_push N dd b) Hn0 (fun _ => eq_refl))
      as [(E & L & _)|(L & E & Ho)].
    + left. split; [exact E|exact L].
    + right. split; [exact L|]. split; [exists dd; exact E|].
      left. exact Ho.
  - (* EscChars *)
    destruct (negb (b =? 27)).
    + set (dd := upd_crc (mkdec (raw d0' + 1) (crc d0') (EscChars n) (zc d0') (rbuf d0')) [b]).
      destruct (grows_branch (fun c => push_many c dd (repeat 27 (N.to_nat n) ++ [b])) dd dd (fun x => set_st x Normal) ONone N
                  (grows_push_many N _ dd) Hn0 (fun _ => eq_refl)) as [(E & L & _)|(L & E & Ho)].
      * left. split; [exact E|exact L].
      * right. split; [exact L|]. split; [exists dd; exact E|].
        left. exact Ho.
    + repeat match goal with |- context [if ?c then _ else _] => destruct c end; leaf_same.
  - (* EscPayload *)
    destruct (3 <? k); [leaf_same|].
    destruct (k <? 3); [leaf_same|].
    set (dd := mkdec (raw d0' + 1) (crc d0') (EscPayload k pl) (zc d0') (rbuf d0')).
    set (pl' := set_nth pl (N.to_nat k) b).
    unfold step_payload_full.
    destruct (all27 pl').
    { destruct (grows_branch (fun c => push_many c (upd_crc dd pl') pl') (upd_crc dd pl') dd (fun x => set_st x Normal) ONone N
                  (grows_push_many N _ _) Hn0 (fun _ => eq_refl)) as [(E & L & _)|(L & E & Ho)].
      - left. split; [exact E|exact L].
      - right. split; [exact L|]. split; [exists dd; exact E|].
        left. exact Ho. }
    destruct (forallb (fun x => x =? 1) pl').
    { unfold panic. destruct (raw dd <? 8); leaf_same. }
    destruct (nth 0 pl' 0 =? 26).
    { match goal with |- context [if ?c then _ else _] => destruct c end; [leaf_same|].
      set (d1 := mkdec (raw dd) crc_init (st dd) (zc dd) (rbuf dd)).
      set (df := mkdec (raw d1) (crc d1) (st d1) (zc d1 - nth 1 pl' 0) (rbuf d1)).
      destruct (grows_branch (fun c => flush c df) df d1 (fun x => set_st x Done) OMsg N
                  (grows_flush N df) Hn0 (fun _ => eq_refl)) as [(E & L & _)|(L & E & Ho)].
      - left. split; [exact E|exact L].
      - right. split; [exact L|]. split; [exists d1; exact E|].
        right. exact Ho. }
    match goal with |- context [if ?c then _ else _] => destruct c end; [|leaf_same].
    set (kk := N.to_nat ((4 - raw dd mod 4) mod 4)).
    destruct (grows_branch (fun c => push_many c (upd_crc dd (firstn kk pl')) (repeat 27 kk)) (upd_crc dd (firstn kk pl')) dd
                (fun x => set_st x (EscPayload (4 - N.of_nat kk) (skipn kk pl' ++ skipn (4 - kk) pl'))) ONone N
                (grows_push_many N _ _) Hn0 (fun _ => eq_refl)) as [(E & L & _)|(L & E & Ho)].
    + left. split; [exact E|exact L].
    + right. split; [exact L|]. split; [exists dd; exact E|].
      left. exact Ho.
  - (* Done: unreachable after the reset *)
    unfold panic. leaf_same.
Qed.

(* ---------- whole streams ---------- *)
Theorem run_cap N : forall s d,
  (length (rbuf d) <= N)%nat ->
  (run (Some N) d s = run None d s /\ (length (rbuf (fst (run None d s))) <= N)%nat) \/
  (exists s1 b s2 dd,
      s = s1 ++ b :: s2 /\ run (Some N) d s1 = run None d s1 /\
      step (Some N) (fst (run None d s1)) b = oom dd /\
      (snd (step None (fst (run None d s1)) b) = ONone \/ snd (step None (fst (run None d s1)) b) = OMsg)).
Proof.
  induction s as [|b r IH]; intros d Hn.
  - left. split; [reflexivity|exact Hn].
  - destruct (step_cap N d b Hn) as [[E L]|(L & [dd E] & Ho)].
    + destruct (IH (fst (step None d b)) L) as [[E2 L2]|(s1 & b2 & s2 & dd & Hs & E2 & E3 & Ho)].
      * left. cbn [run]. rewrite E. destruct (step None d b) as [d1 o]. cbn [fst] in *.
        rewrite E2. destruct (run None d1 r) as [d2 os]. cbn [fst] in *. split; [reflexivity|exact L2].
      * right. exists (b :: s1), b2, s2, dd. split; [rewrite Hs; reflexivity|].
        cbn [run]. rewrite E. destruct (step None d b) as [d1 o]. cbn [fst] in *.
        rewrite E2. destruct (run None d1 s1) as [d2 os]. cbn [fst] in *.
        split; [reflexivity|]. split; [exact E3|exact Ho].
    + right. exists [], b, r, dd. cbn [app run fst]. repeat split; try assumption.
Qed.

Lemma run_length cap : forall s d, length (snd (run cap d s)) = length s.
Proof.
  induction s as [|b r IH]; intros d; cbn [run]; [reflexivity|].
  destruct (step cap d b) as [d1 o]. specialize (IH d1). destruct (run cap d1 r). cbn [snd length] in *. lia.
Qed.

(* C16: a frame whose payload does not fit the buffer yields OutOfMemory - nothing before it,
   no payload - and leaves the decoder like new *)
Theorem oom_when_too_small (n : nat) m :
  (n < length m)%nat ->
  exists s1 b s2 d1,
    frame m = s1 ++ b :: s2 /\
    run (Some n) init s1 = (d1, map (fun _ => (ONone, [])) s1) /\
    snd (step (Some n) d1 b) = OErr OutOfMemory /\
    norm (fst (step (Some n) d1 b)) = norm init.
Proof.
  intros Hlt.
  destruct (frame_roundtrip None m I) as (d' & Hrun & Hd & Hr).
  destruct (run_cap n (frame m) init ltac:(cbn; lia)) as [[E L]|(s1 & b & s2 & dd & Hs & E1 & E2 & Ho)].
  - exfalso. rewrite Hrun in L. cbn [fst] in L.
    rewrite <- (rev_length (rbuf d')), Hr in L. lia.
  - exists s1, b, s2, (fst (run None init s1)). split; [exact Hs|]. split.
    + rewrite E1.
      (* the outputs of the prefix are a prefix of the (quiet) outputs of the whole run *)
      pose proof (run_app None s1 (b :: s2) init) as Ha. rewrite <- Hs, Hrun in Ha.
      apply (f_equal snd) in Ha. cbn [snd] in Ha. rename Ha into Hsnd.
      assert (Hq : snd (run None init s1) = map (fun _ => (ONone, [])) s1).
      { set (q := map (fun _ : N => (ONone, @nil N)) (removelast (frame m))) in *.
        pose proof (run_length None s1 init) as Hl1.
        pose proof (run_length None (b :: s2) (fst (run None init s1))) as Hl2.
        assert (Hlq : length q = (length s1 + length s2)%nat).
        { assert (length (q ++ [(OMsg, m)]) = length (snd (run None init s1) ++ snd (run None (fst (run None init s1)) (b :: s2))))
            by (rewrite Hsnd; reflexivity).
          rewrite !app_length, Hl1, Hl2 in H. cbn [length] in H. lia. }
        assert (Hpre : snd (run None init s1) = firstn (length s1) q).
        { assert (firstn (length s1) (q ++ [(OMsg, m)]) = firstn (length s1) (snd (run None init s1) ++ snd (run None (fst (run None init s1)) (b :: s2))))
            by (rewrite Hsnd; reflexivity).
          rewrite firstn_app in H. replace (length s1 - length q)%nat with 0%nat in H by lia.
          cbn [firstn] in H. rewrite app_nil_r in H.
          rewrite <- Hl1 in H at 2. rewrite firstn_app, Nat.sub_diag, firstn_all in H. cbn [firstn] in H.
          rewrite app_nil_r in H. symmetry. exact H. }
        rewrite Hpre. unfold q. rewrite firstn_map.
        assert (Hrm : removelast (frame m) = s1 ++ removelast (b :: s2)).
        { rewrite Hs. apply removelast_app. discriminate. }
        rewrite Hrm, firstn_app, Nat.sub_diag, firstn_all. cbn [firstn]. rewrite app_nil_r. reflexivity. }
      destruct (run None init s1) as [dx ox]. cbn [fst snd] in *. rewrite Hq. reflexivity.
    + rewrite E2. unfold oom. cbn [fst snd]. split; reflexivity.
Qed.
