(* C09: the allocating and the streaming parser agree on every input.
   [s_message] reads ONE message the way the streaming parser does (message start, list entries
   one by one, end of list, checksum) and returns the events emitted and the outcome.  It is
   shown equal to what the iterator produces (state machine) and to what complete::parse
   computes (recursive descent). *)
Require Import Sml.Base.Prelude Sml.Base.Crc Sml.Model.Parser Sml.Spec.TlfRef.
Require Import Sml.Proofs.TlfExact Sml.Proofs.ParserTotal.

Inductive souts := SOk (rest : list byte) | SFail (e : perr) | SPan.

(* the events a complete message corresponds to *)
Definition flatten_msg (m : message) : list event :=
  let ms b := EMessageStart (mkms (transaction_id m) (group_no m) (abort_on_error m) b) in
  match message_body m with
  | BOpen o => [ms (SOpen o)]
  | BClose s => [ms (SClose s)]
  | BGetList g =>
      ms (SGetList (mkgs (g_client_id g) (g_server_id g) (list_name g) (act_sensor_time g) (lenN (val_list g))))
      :: map EListEntry (val_list g) ++ [EGetListEnd (list_signature g) (act_gateway_time g)]
  end.

(* n list entries, one at a time *)
Fixpoint s_entries (fuel : nat) (n : N) (input : list byte) : list list_entry * souts :=
  if n =? 0 then ([], SOk input)
  else
    match fuel with
    | O => match p_list_entry input with
           | PErr e => ([], SFail e)
           | _ => ([], SPan)
           end
    | S f =>
        match p_list_entry input with
        | POk r le => let '(es, o) := s_entries f (n - 1) r in (le :: es, o)
        | PErr e => ([], SFail e)
        | PPanic => ([], SPan)
        end
    end.

(* checksum and end marker of the message that started at [orig] *)
Definition s_trailer (orig input : list byte) : souts :=
  match p_u16 input with
  | POk r2 crc =>
      match p_end_of_msg r2 with
      | POk r3 _ =>
          if negb (swap16 (crc16 (firstn (length orig - length input) orig)) =? crc)
          then SFail CrcMismatch else SOk r3
      | PErr e => SFail e
      | PPanic => SPan
      end
  | PErr e => SFail e
  | PPanic => SPan
  end.

Definition s_message (input : list byte) : list event * souts :=
  match p_message_start input with
  | PErr e => ([], SFail e)
  | PPanic => ([], SPan)
  | POk r1 ms =>
      match ms_body ms with
      | SGetList g =>
          let '(es, o) := s_entries (length r1) (num_vals g) r1 in
          match o with
          | SOk r2 =>
              match p_gle r2 with
              | POk r3 (sig, gw) =>
                  (EMessageStart ms :: map EListEntry es ++ [EGetListEnd sig gw], s_trailer input r3)
              | PErr e => (EMessageStart ms :: map EListEntry es, SFail e)
              | PPanic => (EMessageStart ms :: map EListEntry es, SPan)
              end
          | SFail e => (EMessageStart ms :: map EListEntry es, SFail e)
          | SPan => (EMessageStart ms :: map EListEntry es, SPan)
          end
      | _ => ([EMessageStart ms], s_trailer input r1)
      end
  end.

(* the whole file, as a stream of iterator results (without the trailing Nones) *)
Fixpoint s_file (fuel : nat) (input : list byte) : list snext :=
  match input with
  | [] => []
  | _ :: _ =>
      match fuel with
      | O => [SPanic]
      | S f =>
          let '(evs, o) := s_message input in
          map SEvent evs ++
          match o with
          | SOk rest => s_file f rest
          | SFail e => [SErr e]
          | SPan => [SPanic]
          end
      end
  end.

(* ---------- Iterator::next, state by state ---------- *)
Definition pend_of (ms : message_start) : N :=
  match ms_body ms with SGetList g => num_vals g + 2 | _ => 1 end.

Lemma next_start_ok i m r ms :
  i <> [] -> p_message_start i = POk r ms -> pend_of ms <= u64_max ->
  sp_next (mksp i m 0) = (mksp r i (pend_of ms), SEvent (EMessageStart ms)).
Proof.
  intros Hi E Hp. destruct i as [|b i']; [congruence|].
  unfold sp_next. cbn [sp_parse_next sp_input sp_msg_input pending andb]. rewrite E.
  fold (pend_of ms). destruct (N.ltb_spec u64_max (pend_of ms)); [lia|]. reflexivity.
Qed.

Lemma next_start_err i m e :
  i <> [] -> p_message_start i = PErr e -> sp_next (mksp i m 0) = (mksp [] i 0, SErr e).
Proof.
  intros Hi E. destruct i as [|b i']; [congruence|].
  unfold sp_next. cbn [sp_parse_next sp_input sp_msg_input pending andb]. rewrite E. reflexivity.
Qed.

Lemma next_entry_ok i m p r le :
  3 <= p -> p_list_entry i = POk r le ->
  sp_next (mksp i m p) = (mksp r m (p - 1), SEvent (EListEntry le)).
Proof.
  intros Hp E. unfold sp_next. cbn [sp_parse_next sp_input sp_msg_input pending].
  destruct (N.eqb_spec p 0); [lia|]. rewrite andb_false_r.
  destruct (N.eqb_spec p 1); [lia|]. destruct (N.eqb_spec p 2); [lia|]. rewrite E. reflexivity.
Qed.

Lemma next_entry_err i m p e :
  3 <= p -> p_list_entry i = PErr e -> sp_next (mksp i m p) = (mksp [] m 0, SErr e).
Proof.
  intros Hp E. unfold sp_next. cbn [sp_parse_next sp_input sp_msg_input pending].
  destruct (N.eqb_spec p 0); [lia|]. rewrite andb_false_r.
  destruct (N.eqb_spec p 1); [lia|]. destruct (N.eqb_spec p 2); [lia|]. rewrite E. reflexivity.
Qed.

Lemma next_gle_ok i m r sig gw :
  p_gle i = POk r (sig, gw) -> sp_next (mksp i m 2) = (mksp r m 1, SEvent (EGetListEnd sig gw)).
Proof.
  intros E. unfold sp_next. cbn [sp_parse_next sp_input sp_msg_input pending]. rewrite andb_false_r.
  cbn [N.eqb Pos.eqb]. rewrite E. reflexivity.
Qed.

Lemma next_gle_err i m e :
  p_gle i = PErr e -> sp_next (mksp i m 2) = (mksp [] m 0, SErr e).
Proof.
  intros E. unfold sp_next. cbn [sp_parse_next sp_input sp_msg_input pending]. rewrite andb_false_r.
  cbn [N.eqb Pos.eqb]. rewrite E. reflexivity.
Qed.

(* pending = 0: one level of fuel is enough *)
Lemma parse_next_fuel0 f1 f2 i m :
  sp_parse_next (S f1) (mksp i m 0) = sp_parse_next (S f2) (mksp i m 0).
Proof. reflexivity. Qed.

Lemma next_trailer_ok i m r :
  lenN i <= lenN m -> s_trailer m i = SOk r ->
  fst (sp_next (mksp i m 1)) = fst (sp_next (mksp r m 0)) /\ snd (sp_next (mksp i m 1)) = snd (sp_next (mksp r m 0)).
Proof.
  intros Hl E. unfold s_trailer in E. unfold sp_next at 1 3.
  cbn [sp_parse_next sp_input sp_msg_input pending]. rewrite andb_false_r. cbn [N.eqb Pos.eqb].
  destruct (N.ltb_spec (lenN m) (lenN i)); [lia|].
  destruct (p_u16 i) as [r2 crc|e|]; try discriminate.
  destruct (p_end_of_msg r2) as [r3 x|e|]; try discriminate.
  cbn [sp_input sp_msg_input pending].
  destruct (negb (swap16 (crc16 (firstn (length m - length i) m)) =? crc)); [discriminate|].
  inversion E; subst r3.
  unfold sp_next. split; reflexivity.
Qed.

Lemma next_trailer_err i m e :
  lenN i <= lenN m -> s_trailer m i = SFail e ->
  snd (sp_next (mksp i m 1)) = SErr e /\ sp_input (fst (sp_next (mksp i m 1))) = [] /\ pending (fst (sp_next (mksp i m 1))) = 0.
Proof.
  intros Hl E. unfold s_trailer in E. unfold sp_next.
  cbn [sp_parse_next sp_input sp_msg_input pending]. rewrite andb_false_r. cbn [N.eqb Pos.eqb].
  destruct (N.ltb_spec (lenN m) (lenN i)); [lia|].
  destruct (p_u16 i) as [r2 crc|e2|]; try discriminate.
  2:{ inversion E; subst. cbn [fst snd sp_input pending]. auto. }
  destruct (p_end_of_msg r2) as [r3 x|e3|]; try discriminate.
  2:{ inversion E; subst. cbn [fst snd sp_input pending]. auto. }
  cbn [sp_input sp_msg_input pending].
  destruct (negb (swap16 (crc16 (firstn (length m - length i) m)) =? crc)); [|discriminate].
  inversion E; subst. cbn [fst snd sp_input pending]. auto.
Qed.

(* ---------- the complete output of an iterator state ---------- *)
Inductive streams : sparser -> list snext -> Prop :=
| st_none s : snd (sp_next s) = SNone -> streams s []
| st_event s e l : snd (sp_next s) = SEvent e -> streams (fst (sp_next s)) l -> streams s (SEvent e :: l)
| st_err s e : snd (sp_next s) = SErr e -> streams s [SErr e].

Lemma firstn_pad {A} (x : A) : forall k l n m,
  (k <= n)%nat -> (k <= m)%nat -> firstn k (l ++ repeat x n) = firstn k (l ++ repeat x m).
Proof.
  induction k as [|k IH]; intros l n m Hn Hm; [reflexivity|].
  destruct l as [|y l]; cbn [app].
  - destruct n as [|n]; [lia|]. destruct m as [|m]; [lia|]. cbn [repeat firstn]. f_equal.
    apply (IH [] n m); lia.
  - cbn [firstn]. f_equal. apply IH; lia.
Qed.

Lemma streams_calls s l :
  PInv s -> streams s l -> forall k, sp_calls k s = firstn k (l ++ repeat SNone k).
Proof.
  intros I H. revert I. induction H as [s Hn|s e l He Hs IH|s e He]; intros I k.
  - destruct k as [|k]; [reflexivity|]. cbn [sp_calls app repeat firstn].
    pose proof (sp_next_post s I) as P. destruct (sp_next s) as [s' r]. cbn [fst snd] in *. subst r.
    rewrite (terminal_forever k s' P). f_equal. rewrite firstn_all2 by (rewrite repeat_length; lia). reflexivity.
  - destruct k as [|k]; [reflexivity|]. cbn [sp_calls app firstn].
    pose proof (sp_next_post s I) as P. destruct (sp_next s) as [s' r]. cbn [fst snd] in *. subst r.
    destruct P as [I' _]. rewrite (IH I' k). f_equal. apply firstn_pad; lia.
  - destruct k as [|k]; [reflexivity|]. cbn [sp_calls app firstn].
    pose proof (sp_next_post s I) as P. destruct (sp_next s) as [s' r]. cbn [fst snd] in *. subst r.
    rewrite (terminal_forever k s' P). f_equal.
    transitivity (firstn k ([] ++ repeat SNone k)).
    + cbn [app]. rewrite firstn_all2 by (rewrite repeat_length; lia). reflexivity.
    + apply (firstn_pad SNone k [] k (S k)); lia.
Qed.

Lemma streams_ext s1 s2 l :
  snd (sp_next s1) = snd (sp_next s2) ->
  (forall e, snd (sp_next s1) = SEvent e -> fst (sp_next s1) = fst (sp_next s2)) ->
  streams s2 l -> streams s1 l.
Proof.
  intros Hs Hf H. inversion H; subst.
  - apply st_none. congruence.
  - apply st_event; [congruence|]. rewrite (Hf e) by congruence. assumption.
  - apply st_err. congruence.
Qed.

(* when no message is in progress the remembered message start is irrelevant *)
Lemma streams_msg_irrelevant i x y l : streams (mksp i x 0) l -> streams (mksp i y 0) l.
Proof.
  apply streams_ext.
  - unfold sp_next. cbn [sp_parse_next sp_input sp_msg_input pending N.eqb].
    destruct i as [|b i']; [reflexivity|]. cbn [andb].
    destruct (p_message_start (b :: i')) as [r ms|e|]; reflexivity.
  - intros e. unfold sp_next. cbn [sp_parse_next sp_input sp_msg_input pending N.eqb].
    destruct i as [|b i']; [discriminate|]. cbn [andb].
    destruct (p_message_start (b :: i')) as [r ms|e'|]; try discriminate.
    intros _. reflexivity.
Qed.

Lemma wb_list_entry_cases i :
  ok_in i ->
  (exists r le u, p_list_entry i = POk r le /\ i = u ++ r /\ u <> []) \/ (exists e, p_list_entry i = PErr e).
Proof.
  intros Hi. pose proof (wb_p_list_entry i Hi) as W. unfold wbr in W.
  destruct (p_list_entry i) as [r le|e|]; [left|right; eauto|contradiction].
  destruct W as (u & E & S). exists r, le, u. repeat split; auto.
Qed.

(* the list entries, one call each *)
Lemma streams_entries : forall fuel n i m l,
  ok_in i -> n < 4294967296 -> (length i <= fuel)%nat ->
  (forall r, snd (s_entries fuel n i) = SOk r -> streams (mksp r m 2) l) ->
  snd (s_entries fuel n i) <> SPan /\
  streams (mksp i m (n + 2))
          (map (fun le => SEvent (EListEntry le)) (fst (s_entries fuel n i)) ++
           match snd (s_entries fuel n i) with SOk _ => l | SFail e => [SErr e] | SPan => [] end).
Proof.
  induction fuel as [|f IH]; intros n i m l Hi Hn Hf Hk; cbn [s_entries] in *.
  - destruct (N.eqb_spec n 0) as [->|N0].
    + cbn [fst snd map app] in *. split; [discriminate|]. apply (Hk i eq_refl).
    + assert (i = []) by (destruct i; [reflexivity|cbn in Hf; lia]). subst i.
      destruct (wb_list_entry_cases [] Hi) as [(r & le & u & E & Eu & Nu)|[e E]].
      * destruct u; [congruence|discriminate].
      * rewrite E. cbn [fst snd map app]. split; [discriminate|].
        apply st_err. rewrite (next_entry_err [] m (n + 2) e) by (try lia; exact E). reflexivity.
  - destruct (N.eqb_spec n 0) as [->|N0].
    + cbn [fst snd map app] in *. split; [discriminate|]. apply (Hk i eq_refl).
    + destruct (wb_list_entry_cases i Hi) as [(r & le & u & E & Eu & Nu)|[e E]].
      * rewrite E in *. subst i.
        assert (Hr : (length r <= f)%nat).
        { rewrite app_length in Hf. destruct u; [congruence|cbn [length] in Hf; lia]. }
        specialize (IH (n - 1) r m l (ok_in_suffix _ _ Hi) ltac:(lia) Hr).
        destruct (s_entries f (n - 1) r) as [es o]. cbn [fst snd] in *.
        destruct (IH Hk) as [Np St]. split; [exact Np|].
        cbn [map app]. apply st_event.
        -- rewrite (next_entry_ok (u ++ r) m (n + 2) r le) by (try lia; exact E). reflexivity.
        -- rewrite (next_entry_ok (u ++ r) m (n + 2) r le) by (try lia; exact E). cbn [fst].
           replace (n + 2 - 1) with (n - 1 + 2) by lia. exact St.
      * rewrite E. cbn [fst snd map app]. split; [discriminate|].
        apply st_err. rewrite (next_entry_err i m (n + 2) e) by (try lia; exact E). reflexivity.
Qed.

Lemma s_entries_suffix : forall fuel n i r,
  ok_in i -> snd (s_entries fuel n i) = SOk r -> exists u, i = u ++ r.
Proof.
  induction fuel as [|f IH]; intros n i r Hi H; cbn [s_entries] in H.
  - destruct (n =? 0); [cbn in H; inversion H; exists []; reflexivity|].
    destruct (p_list_entry i); discriminate.
  - destruct (n =? 0); [cbn in H; inversion H; exists []; reflexivity|].
    destruct (wb_list_entry_cases i Hi) as [(r1 & le & u & E & Eu & Nu)|[e E]]; rewrite E in H.
    + subst i. destruct (s_entries f (n - 1) r1) as [es o] eqn:Es. cbn [snd] in H. subst o.
      destruct (IH (n - 1) r1 r (ok_in_suffix _ _ Hi)) as [u2 ->]; [rewrite Es; reflexivity|].
      exists (u ++ u2). rewrite app_assoc. reflexivity.
    + discriminate.
Qed.

(* the trailer call *)
Lemma streams_trailer i m r3 l :
  lenN r3 <= lenN i ->
  s_trailer i r3 <> SPan ->
  (forall r, s_trailer i r3 = SOk r -> streams (mksp r m 0) l) ->
  streams (mksp r3 i 1) (match s_trailer i r3 with SOk _ => l | SFail e => [SErr e] | SPan => [] end).
Proof.
  intros Hl Hp Hk. destruct (s_trailer i r3) as [r|e|] eqn:E; [| |congruence].
  - destruct (next_trailer_ok r3 i r Hl E) as [F S].
    apply (streams_ext _ (mksp r i 0)); [exact S|intros; exact F|].
    apply (streams_msg_irrelevant r m i). apply Hk. reflexivity.
  - destruct (next_trailer_err r3 i e Hl E) as (S & _). apply st_err. exact S.
Qed.

Lemma s_trailer_no_panic i r3 : ok_in r3 -> s_trailer i r3 <> SPan.
Proof.
  intros Hi. unfold s_trailer.
  pose proof (wb_p_uns 2 r3 Hi) as W1. fold p_u16 in W1. unfold wbr in W1.
  destruct (p_u16 r3) as [r2 crc|e|]; try discriminate; [|contradiction].
  destruct W1 as (u & -> & _).
  pose proof (wb_p_end_of_msg r2 (ok_in_suffix _ _ Hi)) as W2. unfold wbr in W2.
  destruct (p_end_of_msg r2) as [r4 x|e|]; try discriminate; [|contradiction].
  destruct (negb _); discriminate.
Qed.

(* one message *)
Lemma streams_message i m l :
  i <> [] -> ok_in i ->
  (forall r, snd (s_message i) = SOk r -> streams (mksp r m 0) l) ->
  snd (s_message i) <> SPan /\
  streams (mksp i m 0)
          (map SEvent (fst (s_message i)) ++
           match snd (s_message i) with SOk _ => l | SFail e => [SErr e] | SPan => [] end).
Proof.
  intros Hne Hi Hk. unfold s_message in *.
  pose proof (wb_p_message_start i Hi) as W. unfold wbr in W.
  pose proof (num_vals_bound i) as NB.
  destruct (p_message_start i) as [r1 ms|e|] eqn:E; [| |contradiction].
  2:{ cbn [fst snd map app]. split; [discriminate|]. apply st_err. rewrite (next_start_err i m e Hne E). reflexivity. }
  destruct W as (u1 & Eu1 & _). specialize (NB r1 ms Hi eq_refl).
  assert (Hi1 : ok_in r1) by (rewrite Eu1 in Hi; exact (ok_in_suffix _ _ Hi)).
  assert (Hpend : pend_of ms <= u64_max).
  { unfold pend_of, u64_max. destruct (ms_body ms); lia. }
  pose proof (next_start_ok i m r1 ms Hne E Hpend) as Nx.
  destruct (ms_body ms) as [o|sg|g] eqn:Eb.
  - (* open response *)
    cbn [fst snd map app].
    assert (Hl : lenN r1 <= lenN i) by (rewrite Eu1, lenN_app; lia).
    pose proof (s_trailer_no_panic i r1 Hi1) as Np. split; [exact Np|].
    apply st_event; [rewrite Nx; reflexivity|]. rewrite Nx. cbn [fst]. unfold pend_of. rewrite Eb.
    apply (streams_trailer i m r1 l Hl Np). exact Hk.
  - cbn [fst snd map app].
    assert (Hl : lenN r1 <= lenN i) by (rewrite Eu1, lenN_app; lia).
    pose proof (s_trailer_no_panic i r1 Hi1) as Np. split; [exact Np|].
    apply st_event; [rewrite Nx; reflexivity|]. rewrite Nx. cbn [fst]. unfold pend_of. rewrite Eb.
    apply (streams_trailer i m r1 l Hl Np). exact Hk.
  - (* get-list response: entries, end of list, trailer *)
    pose proof (s_entries_suffix (length r1) (num_vals g) r1) as Suf.
    pose proof (streams_entries (length r1) (num_vals g) r1 i) as SE.
    destruct (s_entries (length r1) (num_vals g) r1) as [es o] eqn:Es. cbn [fst snd] in *.
    destruct o as [r2|e|].
    + destruct (Suf r2 Hi1 eq_refl) as [u2 Eu2].
      assert (Hi2 : ok_in r2) by (rewrite Eu2 in Hi1; exact (ok_in_suffix _ _ Hi1)).
      pose proof (wb_p_gle r2 Hi2) as W3. unfold wbr in W3.
      destruct (p_gle r2) as [r3 [sig gw]|e|] eqn:Eg; [| |contradiction].
      * destruct W3 as (u3 & Eu3 & _).
        assert (Hi3 : ok_in r3) by (rewrite Eu3 in Hi2; exact (ok_in_suffix _ _ Hi2)).
        assert (Hl : lenN r3 <= lenN i) by (rewrite Eu1, Eu2, Eu3, !lenN_app; lia).
        pose proof (s_trailer_no_panic i r3 Hi3) as Np.
        cbn [fst snd]. split; [exact Np|].
        cbn [map app]. apply st_event; [rewrite Nx; reflexivity|]. rewrite Nx. cbn [fst]. unfold pend_of. rewrite Eb.
        rewrite map_app, map_map, <- app_assoc. cbn [map app].
        destruct (SE (SEvent (EGetListEnd sig gw) :: match s_trailer i r3 with SOk _ => l | SFail e => [SErr e] | SPan => [] end)
                     Hi1 NB ltac:(lia)) as [_ St].
        { intros r Hr. inversion Hr; subst r.
          apply st_event; [rewrite (next_gle_ok r2 i r3 sig gw Eg); reflexivity|].
          rewrite (next_gle_ok r2 i r3 sig gw Eg). cbn [fst].
          apply (streams_trailer i m r3 l Hl Np). exact Hk. }
        exact St.
      * cbn [fst snd]. split; [discriminate|].
        cbn [map app]. apply st_event; [rewrite Nx; reflexivity|]. rewrite Nx. cbn [fst]. unfold pend_of. rewrite Eb.
        rewrite map_map.
        destruct (SE [SErr e] Hi1 NB ltac:(lia)) as [_ St].
        { intros r Hr. inversion Hr; subst r. apply st_err. rewrite (next_gle_err r2 i e Eg). reflexivity. }
        exact St.
    + cbn [fst snd]. split; [discriminate|].
      cbn [map app]. apply st_event; [rewrite Nx; reflexivity|]. rewrite Nx. cbn [fst]. unfold pend_of. rewrite Eb.
      rewrite map_map.
      destruct (SE l Hi1 NB ltac:(lia)) as [_ St]; [intros r Hr; discriminate|]. exact St.
    + exfalso. destruct (SE l Hi1 NB ltac:(lia)) as [Np _]; [intros r Hr; discriminate|]. congruence.
Qed.

(* the whole file *)
Theorem streams_file : forall fuel i m,
  ok_in i -> (length i <= fuel)%nat ->
  ~ In SPanic (s_file fuel i) /\ streams (mksp i m 0) (s_file fuel i).
Proof.
  induction fuel as [|f IH]; intros i m Hi Hf.
  - destruct i; [|cbn in Hf; lia]. cbn [s_file]. split; [intros []|]. apply st_none. reflexivity.
  - destruct i as [|b i'] eqn:Ei; [cbn [s_file]; split; [intros []|apply st_none; reflexivity]|].
    rewrite <- Ei in *. assert (Hne : i <> []) by (rewrite Ei; discriminate).
    replace (s_file (S f) i) with
      (let '(evs, o) := s_message i in map SEvent evs ++ match o with SOk rest => s_file f rest | SFail e => [SErr e] | SPan => [SPanic] end)
      by (rewrite Ei; reflexivity).
    (* the rest of the file, if the message is complete *)
    assert (Hrest : forall r, snd (s_message i) = SOk r -> ok_in r /\ (length r <= f)%nat).
    { intros r Hr. unfold s_message in Hr.
      pose proof (wb_p_message_start i Hi) as W. unfold wbr in W.
      destruct (p_message_start i) as [r1 ms|e|]; [|cbn in Hr; discriminate|contradiction].
      destruct W as (u1 & Eu1 & Su1). specialize (Su1 eq_refl).
      assert (Hi1 : ok_in r1) by (rewrite Eu1 in Hi; exact (ok_in_suffix _ _ Hi)).
      assert (Hl1 : (length r1 < length i)%nat).
      { rewrite Eu1, app_length. destruct u1; [congruence|cbn [length]; lia]. }
      assert (Htr : forall r3, ok_in r3 -> (length r3 <= length r1)%nat -> s_trailer i r3 = SOk r ->
                    ok_in r /\ (length r <= f)%nat).
      { intros r3 Hi3 Hl3 Ht. unfold s_trailer in Ht.
        pose proof (wb_p_uns 2 r3 Hi3) as W1. fold p_u16 in W1. unfold wbr in W1.
        destruct (p_u16 r3) as [r4 crc|e|]; try discriminate. destruct W1 as (u4 & -> & _).
        pose proof (wb_p_end_of_msg r4 (ok_in_suffix _ _ Hi3)) as W2. unfold wbr in W2.
        destruct (p_end_of_msg r4) as [r5 x|e|]; try discriminate. destruct W2 as (u5 & -> & _).
        destruct (negb _); [discriminate|]. inversion Ht; subst r5.
        split; [exact (ok_in_suffix _ _ (ok_in_suffix _ _ Hi3))|].
        rewrite !app_length in Hl3. lia. }
      destruct (ms_body ms) as [o|sg|g].
      - cbn [snd] in Hr. apply (Htr r1 Hi1 ltac:(lia) Hr).
      - cbn [snd] in Hr. apply (Htr r1 Hi1 ltac:(lia) Hr).
      - pose proof (s_entries_suffix (length r1) (num_vals g) r1) as Suf.
        destruct (s_entries (length r1) (num_vals g) r1) as [es o]. cbn [snd] in *.
        destruct o as [r2|e|]; try (cbn in Hr; discriminate).
        destruct (Suf r2 Hi1 eq_refl) as [u2 Eu2].
        assert (Hi2 : ok_in r2) by (rewrite Eu2 in Hi1; exact (ok_in_suffix _ _ Hi1)).
        pose proof (wb_p_gle r2 Hi2) as W3. unfold wbr in W3.
        destruct (p_gle r2) as [r3 [sig gw]|e|]; try (cbn in Hr; discriminate).
        destruct W3 as (u3 & Eu3 & _). cbn [snd] in Hr.
        apply (Htr r3); [rewrite Eu3 in Hi2; exact (ok_in_suffix _ _ Hi2)| |exact Hr].
        rewrite Eu2, Eu3, !app_length. lia. }
    pose proof (streams_message i m) as SM.
    destruct (s_message i) as [evs o] eqn:Em. cbn [fst snd] in *.
    destruct o as [r|e|].
    + destruct (Hrest r eq_refl) as [Hir Hlr].
      destruct (IH r m Hir Hlr) as [Np St].
      destruct (SM (s_file f r) Hne Hi) as [_ S2]; [intros r' Hr'; inversion Hr'; subst; exact St|].
      split; [|exact S2].
      intros Hin. apply in_app_or in Hin. destruct Hin as [Hin|Hin]; [|exact (Np Hin)].
      apply in_map_iff in Hin. destruct Hin as (x & Hx & _). discriminate.
    + destruct (SM [] Hne Hi) as [_ S2]; [intros r' Hr'; discriminate|].
      split; [|exact S2].
      intros Hin. apply in_app_or in Hin. destruct Hin as [Hin|[Hin|[]]]; [|discriminate].
      apply in_map_iff in Hin. destruct Hin as (x & Hx & _). discriminate.
    + exfalso. destruct (SM [] Hne Hi) as [Np _]; [intros r' Hr'; discriminate|]. congruence.
Qed.

(* ====================================================================================== *)
(* complete::parse computes the same thing                                                  *)
(* ====================================================================================== *)
Lemma list_entries_agree : forall fuel n i,
  match list_loop fuel n i with
  | POk r es => s_entries fuel n i = (es, SOk r) /\ lenN es = n
  | PErr e => exists es, s_entries fuel n i = (es, SFail e)
  | PPanic => snd (s_entries fuel n i) = SPan
  end.
Proof.
  induction fuel as [|f IH]; intros n i; cbn [list_loop s_entries].
  - destruct (N.eqb_spec n 0) as [->|N0]; [split; reflexivity|].
    destruct (p_list_entry i) as [r le|e|]; [reflexivity|exists []; reflexivity|reflexivity].
  - destruct (N.eqb_spec n 0) as [->|N0]; [split; reflexivity|].
    destruct (p_list_entry i) as [r le|e|]; cbn [pbind]; [|exists []; reflexivity|reflexivity].
    specialize (IH (n - 1) r).
    destruct (list_loop f (n - 1) r) as [r2 es|e|]; cbn [pbind].
    + destruct IH as [E L]. rewrite E. split; [reflexivity|]. rewrite lenN_cons, L. lia.
    + destruct IH as [es E]. rewrite E. exists (le :: es). reflexivity.
    + destruct (s_entries f (n - 1) r) as [es o]. cbn [snd] in *. subst. reflexivity.
Qed.

Lemma body_agree i :
  match p_sbody i with
  | POk r1 (SOpen o) => p_body i = POk r1 (BOpen o)
  | POk r1 (SClose s) => p_body i = POk r1 (BClose s)
  | POk r1 (SGetList g) =>
      p_body i =
      match list_loop (length r1) (num_vals g) r1 with
      | POk r2 es =>
          match p_gle r2 with
          | POk r3 (sig, gw) =>
              POk r3 (BGetList (mkglr (s_client_id g) (s_server_id g) (s_list_name g) (s_act_sensor_time g) es sig gw))
          | PErr e => PErr e
          | PPanic => PPanic
          end
      | PErr e => PErr e
      | PPanic => PPanic
      end
  | PErr e => p_body i = PErr e
  | PPanic => p_body i = PPanic
  end.
Proof.
  unfold p_sbody, p_body, with_tlf, pbind.
  destruct (tlf_parse i) as [i1 t|e|]; try reflexivity.
  destruct (body_check t); [|reflexivity].
  unfold sbody_with_tlf, body_with_tlf, pbind.
  destruct (p_u32 i1) as [i2 tag|e|]; try reflexivity.
  destruct (tag =? 257).
  { unfold pmap. destruct (p_open i2); reflexivity. }
  destruct (tag =? 513).
  { unfold pmap. destruct (p_close i2); reflexivity. }
  destruct (tag =? 1793); [|reflexivity].
  unfold pmap, p_gs, p_glr, with_tlf, pbind.
  destruct (tlf_parse i2) as [i3 t3|e|]; try reflexivity.
  destruct (list_is 7 t3); [|reflexivity].
  unfold gs_with_tlf, glr_with_tlf, pbind.
  destruct (p_opt p_octet i3) as [i4 a|e|]; try reflexivity.
  destruct (p_octet i4) as [i5 b|e|]; try reflexivity.
  destruct (p_opt p_octet i5) as [i6 c|e|]; try reflexivity.
  destruct (p_opt p_time i6) as [i7 d|e|]; try reflexivity.
  unfold p_list, with_tlf, pbind.
  destruct (tlf_parse i7) as [i8 t8|e|]; try reflexivity.
  destruct (ty_eqb (tty t8) TList); cbn [negb]; [|reflexivity].
  cbn [num_vals s_client_id s_server_id s_list_name s_act_sensor_time].
  destruct (list_loop (length i8) (tlen t8) i8) as [i9 es|e|]; try reflexivity.
  unfold p_gle, pbind.
  destruct (p_opt p_octet i9) as [i10 f|e|]; try reflexivity.
  destruct (p_opt p_time i10) as [i11 g|e|]; reflexivity.
Qed.

Lemma msg_agree i :
  ok_in i ->
  match p_message i with
  | POk rest m => s_message i = (flatten_msg m, SOk rest)
  | PErr e => exists evs, s_message i = (evs, SFail e)
  | PPanic => False
  end.
Proof.
  intros Hi. pose proof (wb_p_message i Hi) as Wm. unfold wbr in Wm.
  unfold p_message, s_message, p_message_start, pbind in *.
  destruct (tlf_parse i) as [i1 t|e|] eqn:E1; [|exists []; reflexivity|contradiction].
  pose proof (wb_tlf_parse i Hi) as W1. rewrite E1 in W1. destruct W1 as (u1 & Eu1 & _).
  assert (Hi1 : ok_in i1) by (rewrite Eu1 in Hi; exact (ok_in_suffix _ _ Hi)).
  destruct (negb (ty_eqb (tty t) TList) || negb (tlen t =? 6)); [exists []; reflexivity|].
  destruct (p_octet i1) as [i2 tid|e|] eqn:E2; [|exists []; reflexivity|contradiction].
  pose proof (wb_p_octet i1 Hi1) as W2. rewrite E2 in W2. destruct W2 as (u2 & Eu2 & _).
  assert (Hi2 : ok_in i2) by (rewrite Eu2 in Hi1; exact (ok_in_suffix _ _ Hi1)).
  destruct (p_u8 i2) as [i3 g|e|] eqn:E3; [|exists []; reflexivity|contradiction].
  pose proof (wb_p_uns 1 i2 Hi2) as W3. fold p_u8 in W3. rewrite E3 in W3. destruct W3 as (u3 & Eu3 & _).
  assert (Hi3 : ok_in i3) by (rewrite Eu3 in Hi2; exact (ok_in_suffix _ _ Hi2)).
  destruct (p_u8 i3) as [i4 a|e|] eqn:E4; [|exists []; reflexivity|contradiction].
  pose proof (wb_p_uns 1 i3 Hi3) as W4. fold p_u8 in W4. rewrite E4 in W4. destruct W4 as (u4 & Eu4 & _).
  assert (Hi4 : ok_in i4) by (rewrite Eu4 in Hi3; exact (ok_in_suffix _ _ Hi3)).
  pose proof (body_agree i4) as BA.
  pose proof (wb_p_sbody i4 Hi4) as W5. unfold wbr in W5.
  (* the trailer, shared by all message kinds *)
  assert (Trailer : forall i5 (b : body) (evs : list event),
            (exists u5, i4 = u5 ++ i5) ->
            match (if lenN i <? lenN i5 then PPanic
                   else match p_u16 i5 with
                        | POk i6 crc =>
                            match p_end_of_msg i6 with
                            | POk i7 _ =>
                                if negb (swap16 (crc16 (firstn (length i - length i5) i)) =? crc)
                                then PErr CrcMismatch else POk i7 (mkmsg tid g a b)
                            | PErr e => PErr e
                            | PPanic => PPanic
                            end
                        | PErr e => PErr e
                        | PPanic => PPanic
                        end) with
            | POk rest m => (evs, s_trailer i i5) = (evs, SOk rest) /\ m = mkmsg tid g a b
            | PErr e => (evs, s_trailer i i5) = (evs, SFail e)
            | PPanic => s_trailer i i5 = SPan \/ lenN i < lenN i5
            end).
  { intros i5 b evs [u5 Eu5]. unfold s_trailer.
    destruct (N.ltb_spec (lenN i) (lenN i5)); [right; assumption|].
    destruct (p_u16 i5) as [i6 crc|e|]; [|reflexivity|left; reflexivity].
    destruct (p_end_of_msg i6) as [i7 x|e|]; [|reflexivity|left; reflexivity].
    destruct (negb _); [reflexivity|split; reflexivity]. }
  destruct (p_sbody i4) as [i5 sb|e|] eqn:E5; [| |contradiction].
  2:{ rewrite BA. exists []. reflexivity. }
  destruct W5 as (u5 & Eu5 & _).
  assert (Hlen5 : lenN i5 <= lenN i) by (rewrite Eu1, Eu2, Eu3, Eu4, Eu5, !lenN_app; lia).
  cbn [ms_body].
  destruct sb as [o|sg|gs].
  - rewrite BA in Wm |- *. specialize (Trailer i5 (BOpen o) [EMessageStart (mkms tid g a (SOpen o))] (ex_intro _ u5 Eu5)).
    destruct (N.ltb_spec (lenN i) (lenN i5)); [lia|].
    destruct (p_u16 i5) as [i6 crc|e|]; [|exists [EMessageStart (mkms tid g a (SOpen o))]; exact Trailer|].
    + destruct (p_end_of_msg i6) as [i7 x|e|]; [|exists [EMessageStart (mkms tid g a (SOpen o))]; exact Trailer|].
      * destruct (negb _); [exists [EMessageStart (mkms tid g a (SOpen o))]; exact Trailer|].
        destruct Trailer as [T _]. exact T.
      * exact Wm.
    + exact Wm.
  - rewrite BA in Wm |- *. specialize (Trailer i5 (BClose sg) [EMessageStart (mkms tid g a (SClose sg))] (ex_intro _ u5 Eu5)).
    destruct (N.ltb_spec (lenN i) (lenN i5)); [lia|].
    destruct (p_u16 i5) as [i6 crc|e|]; [|exists [EMessageStart (mkms tid g a (SClose sg))]; exact Trailer|].
    + destruct (p_end_of_msg i6) as [i7 x|e|]; [|exists [EMessageStart (mkms tid g a (SClose sg))]; exact Trailer|].
      * destruct (negb _); [exists [EMessageStart (mkms tid g a (SClose sg))]; exact Trailer|].
        destruct Trailer as [T _]. exact T.
      * exact Wm.
    + exact Wm.
  - (* get-list response *)
    rewrite BA in Wm |- *. clear BA.
    pose proof (list_entries_agree (length i5) (num_vals gs) i5) as LA.
    destruct (list_loop (length i5) (num_vals gs) i5) as [i6 es|e|].
    + destruct LA as [LA Ln]. rewrite LA.
      assert (Hi5 : ok_in i5) by (rewrite Eu5 in Hi4; exact (ok_in_suffix _ _ Hi4)).
      destruct (s_entries_suffix (length i5) (num_vals gs) i5 i6 Hi5) as [u6 Eu6]; [rewrite LA; reflexivity|].
      assert (Hi6 : ok_in i6) by (rewrite Eu6 in Hi5; exact (ok_in_suffix _ _ Hi5)).
      pose proof (wb_p_gle i6 Hi6) as W7. unfold wbr in W7.
      destruct (p_gle i6) as [i7 [sig gw]|e|] eqn:E7; [| |contradiction].
      * destruct W7 as (u7 & Eu7 & _).
        set (evs := EMessageStart (mkms tid g a (SGetList gs)) :: map EListEntry es ++ [EGetListEnd sig gw]).
        specialize (Trailer i7 (BGetList (mkglr (s_client_id gs) (s_server_id gs) (s_list_name gs) (s_act_sensor_time gs) es sig gw)) evs).
        assert (Hlen7 : lenN i7 <= lenN i) by (rewrite Eu1, Eu2, Eu3, Eu4, Eu5, Eu6, Eu7, !lenN_app; lia).
        destruct (N.ltb_spec (lenN i) (lenN i7)); [lia|].
        assert (Hex : exists u, i4 = u ++ i7).
        { exists (u5 ++ u6 ++ u7). rewrite Eu5, Eu6, Eu7, <- ?app_assoc. reflexivity. }
        specialize (Trailer Hex).
        destruct (p_u16 i7) as [i8 crc|e|]; [|exists evs; exact Trailer|exact Wm].
        destruct (p_end_of_msg i8) as [i9 x|e|]; [|exists evs; exact Trailer|exact Wm].
        destruct (negb _); [exists evs; exact Trailer|].
        destruct Trailer as [T _]. rewrite T. unfold evs, flatten_msg.
        cbn [message_body transaction_id group_no abort_on_error g_client_id g_server_id list_name act_sensor_time val_list list_signature act_gateway_time].
        rewrite Ln. destruct gs. reflexivity.
      * eexists. reflexivity.
    + destruct LA as [es LA]. rewrite LA. eexists. reflexivity.
    + exact Wm.
Qed.

Lemma file_agree : forall fuel i,
  ok_in i -> (length i <= fuel)%nat ->
  match file_loop fuel i with
  | POk rest f => rest = [] /\ s_file fuel i = map SEvent (flat_map flatten_msg f)
  | PErr e => exists evs, s_file fuel i = map SEvent evs ++ [SErr e]
  | PPanic => False
  end.
Proof.
  induction fuel as [|f IH]; intros i Hi Hf.
  - destruct i; [|cbn in Hf; lia]. cbn [file_loop s_file flat_map map]. split; reflexivity.
  - destruct i as [|b i'] eqn:Ei; [cbn [file_loop s_file flat_map map]; split; reflexivity|].
    rewrite <- Ei in *.
    replace (file_loop (S f) i) with
      (pbind (p_message i) (fun input m => pbind (file_loop f input) (fun input ms => POk input (m :: ms))))
      by (rewrite Ei; reflexivity).
    replace (s_file (S f) i) with
      (let '(evs, o) := s_message i in map SEvent evs ++ match o with SOk rest => s_file f rest | SFail e => [SErr e] | SPan => [SPanic] end)
      by (rewrite Ei; reflexivity).
    pose proof (msg_agree i Hi) as MA. pose proof (wb_p_message i Hi) as W. unfold wbr in W.
    unfold pbind.
    destruct (p_message i) as [rest m|e|]; [| |contradiction].
    + rewrite MA. destruct W as (u & Eu & Su). specialize (Su eq_refl).
      assert (Hr : ok_in rest) by (rewrite Eu in Hi; exact (ok_in_suffix _ _ Hi)).
      assert (Hl : (length rest <= f)%nat).
      { rewrite Eu, app_length in Hf. destruct u; [congruence|cbn [length] in Hf; lia]. }
      specialize (IH rest Hr Hl).
      destruct (file_loop f rest) as [rest2 ms|e|]; [| |contradiction].
      * destruct IH as [-> E]. split; [reflexivity|]. rewrite E. cbn [flat_map]. rewrite map_app. reflexivity.
      * destruct IH as [evs E]. exists (flatten_msg m ++ evs). rewrite E, map_app, <- app_assoc. reflexivity.
    + destruct MA as [evs E]. rewrite E. exists evs. reflexivity.
Qed.

(* C09 *)
Theorem parsers_agree bs k :
  ok_in bs ->
  match parse bs with
  | FileOk f =>
      sp_calls k (sp_new bs) = firstn k (map SEvent (flat_map flatten_msg f) ++ repeat SNone k)
  | FileErr e =>
      exists evs, sp_calls k (sp_new bs) = firstn k (map SEvent evs ++ [SErr e] ++ repeat SNone k)
  | FilePanic => False
  end.
Proof.
  intros Hi.
  destruct (streams_file (length bs) bs [] Hi ltac:(lia)) as [_ St].
  pose proof (streams_calls (sp_new bs) (s_file (length bs) bs) (PInv_new bs Hi) St k) as Hc.
  pose proof (file_agree (length bs) bs Hi ltac:(lia)) as FA.
  unfold parse. destruct (file_loop (length bs) bs) as [rest f|e|]; [| |contradiction].
  - destruct FA as [-> E]. rewrite Hc, E. reflexivity.
  - destruct FA as [evs E]. exists evs. rewrite Hc, E, <- app_assoc. reflexivity.
Qed.

(* every announced list length is followed by exactly that many value events and one end event *)
Theorem list_events_count m :
  match message_body m with
  | BGetList g =>
      exists ms sig gw,
        flatten_msg m = EMessageStart ms :: map EListEntry (val_list g) ++ [EGetListEnd sig gw] /\
        (match ms_body ms with SGetList gs => num_vals gs = lenN (val_list g) | _ => False end)
  | _ => exists ms, flatten_msg m = [EMessageStart ms]
  end.
Proof.
  unfold flatten_msg. destruct (message_body m) as [o|s|g]; [eexists; reflexivity|eexists; reflexivity|].
  eexists _, _, _. split; [reflexivity|]. reflexivity.
Qed.
