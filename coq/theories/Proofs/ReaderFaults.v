(* C11: I/O faults.  Would-block and interrupted conditions are transparent; any other read
   error costs exactly the frame in flight; end of input ends the iteration. *)
Require Import Sml.Base.Prelude Sml.Base.Crc Sml.Spec.Frame Sml.Model.Decode Sml.Model.Frontends.
Require Import Sml.Model.Parser Sml.Model.Reader.
Require Import Sml.Proofs.DecodeInv Sml.Proofs.DecodeGuard Sml.Proofs.TransportTotal Sml.Proofs.Boundary.
Require Import Sml.Proofs.FrontendsAgree.

(* ---------- one call of read(), event by event (io::Read source) ---------- *)
Lemma dr_read_loop_fuel cap k : forall f1 f2 d evs,
  (length evs < f1)%nat -> (length evs < f2)%nat ->
  dr_read_loop f1 cap (mkrd d k evs) = dr_read_loop f2 cap (mkrd d k evs).
Proof.
  induction f1 as [|f1 IH]; intros f2 d evs H1 H2; [lia|].
  destruct f2 as [|f2]; [lia|].
  cbn [dr_read_loop rd_kind rd_src rd_dec].
  destruct (src_read k evs) as [src' x] eqn:Es.
  destruct x as [b|e]; [|reflexivity].
  apply src_read_shrinks in Es.
  destruct (push_res cap d b) as [d' o].
  destruct o as [[m|e|]|]; try reflexivity.
  apply IH; lia.
Qed.

Lemma dr_read_byte cap k d b evs :
  dr_read cap (mkrd d k (SByte b :: evs)) =
  match snd (push_res cap d b) with
  | None => dr_read cap (mkrd (fst (push_res cap d b)) k evs)
  | Some x => (mkrd (fst (push_res cap d b)) k evs, to_rd x)
  end.
Proof.
  unfold dr_read. cbn [rd_src length dr_read_loop rd_kind rd_dec src_read].
  destruct (push_res cap d b) as [d' o]. cbn [fst snd].
  destruct o as [[m|e|]|]; cbn [to_rd rd_src]; reflexivity.
Qed.

Lemma dr_read_wb cap k d evs :
  dr_read cap (mkrd d k (SWouldBlock :: evs)) = (mkrd d k evs, RdIoErr EkWouldBlock 0).
Proof. reflexivity. Qed.

Lemma dr_read_loop_S f cap r :
  dr_read_loop (S f) cap r =
  let '(src', x) := src_read (rd_kind r) (rd_src r) in
  match x with
  | inl b =>
      let '(d', o) := push_res cap (rd_dec r) b in
      let r' := mkrd d' (rd_kind r) src' in
      match o with
      | None => dr_read_loop f cap r'
      | Some (RMsg m) => (r', RdOk m)
      | Some (RErr e) => (r', RdDecErr e)
      | Some RPanic => (r', RdPanic)
      end
  | inr k =>
      match k with
      | EkWouldBlock => (mkrd (rd_dec r) (rd_kind r) src', RdIoErr k 0)
      | _ => let '(d', n) := reset (rd_dec r) in (mkrd d' (rd_kind r) src', RdIoErr k n)
      end
  end.
Proof. reflexivity. Qed.

Lemma dr_read_int cap d evs :
  dr_read cap (mkrd d KIo (SInterrupted :: evs)) = dr_read cap (mkrd d KIo evs).
Proof.
  unfold dr_read. cbn [rd_src length].
  rewrite (dr_read_loop_S (S (length evs))), (dr_read_loop_S (length evs)).
  cbn [rd_kind rd_src rd_dec src_read].
  destruct (src_read KIo evs) as [src' x] eqn:Es.
  destruct x as [b|e]; [|reflexivity].
  apply src_read_shrinks in Es. destruct (push_res cap d b) as [d' o].
  destruct o as [[m|e|]|]; try reflexivity.
  apply dr_read_loop_fuel; lia.
Qed.

Lemma dr_read_other cap k d evs :
  dr_read cap (mkrd d k (SOther :: evs)) = (mkrd (reset_st d) k evs, RdIoErr EkOther (reset_cnt d)).
Proof. reflexivity. Qed.

Lemma dr_read_zero cap d evs :
  dr_read cap (mkrd d KIo (SZero :: evs)) = (mkrd (reset_st d) KIo evs, RdIoErr EkEof (reset_cnt d)).
Proof. reflexivity. Qed.

(* ---------- would-block and interrupted are transparent ---------- *)
Definition transparent (e : sev) : bool :=
  match e with SWouldBlock => true | SInterrupted => true | _ => false end.
Definition strip (evs : list sev) : list sev := filter (fun e => negb (transparent e)) evs.
Definition is_wb (x : rdres) : bool :=
  match x with RdIoErr EkWouldBlock _ => true | _ => false end.
Definition drop_wb (l : list rdres) : list rdres := filter (fun x => negb (is_wb x)) l.

Lemma strip_length evs : (length (strip evs) <= length evs)%nat.
Proof.
  unfold strip. induction evs as [|e r IH]; cbn [filter length]; [lia|].
  destruct (negb (transparent e)); cbn [length]; lia.
Qed.

Lemma push_res_not_wb cap d b x : snd (push_res cap d b) = Some x -> is_wb (to_rd x) = false.
Proof. intros _. destruct x; reflexivity. Qed.

Theorem wouldblock_transparent cap : forall evs d lim1 lim2,
  (length evs + 1 < lim1)%nat -> (length (strip evs) + 1 < lim2)%nat ->
  drop_wb (snd (rd_all cap lim1 (mkrd d KIo evs))) = snd (rd_all cap lim2 (mkrd d KIo (strip evs))).
Proof.
  induction evs as [|e r IH]; intros d lim1 lim2 H1 H2.
  - destruct lim1 as [|[|l1]]; try (cbn in H1; lia). destruct lim2 as [|[|l2]]; try (cbn in H2; lia).
    cbn [strip filter rd_all]. unfold dr_next. rewrite (dr_read_nil cap d KIo ltac:(discriminate)).
    destruct (reset_cnt d) eqn:Ec; [reflexivity|].
    cbn [rd_all]; unfold dr_next;
      rewrite ?(dr_read_nil cap (reset_st d) KIo ltac:(discriminate)); cbn [reset_cnt reset_st st raw drop_wb filter is_wb negb snd];
      reflexivity.
  - destruct lim1 as [|l1]; [lia|]. cbn [length] in H1.
    destruct e; cbn [strip filter transparent negb] in *; fold (strip r) in *; cbn [length] in *.
    + (* a byte *)
      destruct lim2 as [|l2]; [lia|].
      pose proof (IH (fst (push_res cap d b)) (S l1) (S l2) ltac:(lia) ltac:(lia)) as IHsame.
      pose proof (IH (fst (push_res cap d b)) l1 l2) as IHnext.
      cbn [rd_all] in *. unfold dr_next in *. rewrite !dr_read_byte.
      destruct (push_res cap d b) as [d' o] eqn:Ep. cbn [fst snd] in *.
      destruct o as [x|].
      * assert (Hx : is_wb (to_rd x) = false) by (destruct x; reflexivity).
        assert (Hn : (match to_rd x with RdIoErr EkEof 0 => true | _ => false end) = false) by (destruct x; reflexivity).
        destruct (to_rd x) as [m|e|k n|] eqn:Et; try (destruct x; discriminate).
        -- destruct (rd_all cap l1 (mkrd d' KIo r)) as [r1 xs1], (rd_all cap l2 (mkrd d' KIo (strip r))) as [r2 xs2].
           cbn [snd drop_wb filter is_wb negb] in *. rewrite (IHnext ltac:(lia) ltac:(lia)). reflexivity.
        -- destruct (rd_all cap l1 (mkrd d' KIo r)) as [r1 xs1], (rd_all cap l2 (mkrd d' KIo (strip r))) as [r2 xs2].
           cbn [snd drop_wb filter is_wb negb] in *. rewrite (IHnext ltac:(lia) ltac:(lia)). reflexivity.
        -- destruct (rd_all cap l1 (mkrd d' KIo r)) as [r1 xs1], (rd_all cap l2 (mkrd d' KIo (strip r))) as [r2 xs2].
           cbn [snd drop_wb filter is_wb negb] in *. rewrite (IHnext ltac:(lia) ltac:(lia)). reflexivity.
      * exact IHsame.
    + (* would-block: surfaces once, then reading resumes where it stopped *)
      cbn [rd_all]. unfold dr_next. rewrite dr_read_wb.
      pose proof (IH d l1 lim2 ltac:(lia) H2) as IH1.
      destruct (rd_all cap l1 (mkrd d KIo r)) as [r1 xs1]. cbn [snd drop_wb filter is_wb negb] in *. exact IH1.
    + (* interrupted: retried inside read_exact *)
      pose proof (IH d (S l1) lim2 ltac:(lia) H2) as IH1.
      cbn [rd_all] in *. unfold dr_next in *. rewrite dr_read_int. exact IH1.
    + (* another error: returned in both runs *)
      destruct lim2 as [|l2]; [lia|].
      cbn [rd_all]. unfold dr_next. rewrite !dr_read_other.
      pose proof (IH (reset_st d) l1 l2 ltac:(lia) ltac:(lia)) as IH1.
      destruct (rd_all cap l1 (mkrd (reset_st d) KIo r)) as [r1 xs1], (rd_all cap l2 (mkrd (reset_st d) KIo (strip r))) as [r2 xs2].
      cbn [snd drop_wb filter is_wb negb] in *. rewrite IH1. reflexivity.
    + (* a zero-length read: end of file *)
      destruct lim2 as [|l2]; [lia|].
      cbn [rd_all]. unfold dr_next. rewrite !dr_read_zero.
      destruct (reset_cnt d) eqn:Ec; [reflexivity|].
      pose proof (IH (reset_st d) l1 l2 ltac:(lia) ltac:(lia)) as IH1.
      destruct (rd_all cap l1 (mkrd (reset_st d) KIo r)) as [r1 xs1], (rd_all cap l2 (mkrd (reset_st d) KIo (strip r))) as [r2 xs2].
      cbn [snd drop_wb filter is_wb negb] in *. rewrite IH1. reflexivity.
Qed.

(* each would-block surfaces exactly once (streams whose only faults are would-block / interrupted) *)
Definition only_transparent_faults (evs : list sev) : Prop :=
  Forall (fun e => match e with SByte _ | SWouldBlock | SInterrupted => True | _ => False end) evs.

Theorem wouldblock_count cap : forall evs d lim,
  only_transparent_faults evs -> (length evs + 1 < lim)%nat ->
  length (filter is_wb (snd (rd_all cap lim (mkrd d KIo evs)))) =
  length (filter (fun e => match e with SWouldBlock => true | _ => false end) evs).
Proof.
  induction evs as [|e r IH]; intros d lim Hall Hl.
  - destruct lim as [|[|l]]; try (cbn in Hl; lia).
    cbn [rd_all]. unfold dr_next. rewrite (dr_read_nil cap d KIo ltac:(discriminate)).
    destruct (reset_cnt d) eqn:Ec; [reflexivity|].
    cbn [rd_all]. unfold dr_next. rewrite (dr_read_nil cap (reset_st d) KIo ltac:(discriminate)).
    cbn [reset_cnt reset_st st raw snd filter is_wb length]. reflexivity.
  - inversion Hall as [|? ? He Hr]; subst. destruct lim as [|l]; [lia|]. cbn [length] in Hl.
    destruct e; try contradiction; cbn [filter length].
    + pose proof (IH (fst (push_res cap d b)) (S l) Hr ltac:(lia)) as IHsame.
      pose proof (IH (fst (push_res cap d b)) l Hr) as IHnext.
      cbn [rd_all] in *. unfold dr_next in *. rewrite dr_read_byte.
      destruct (push_res cap d b) as [d' o]. cbn [fst snd] in *.
      destruct o as [x|]; [|exact IHsame].
      destruct x as [m|e|]; cbn [to_rd];
        destruct (rd_all cap l (mkrd d' KIo r)) as [r1 xs1]; cbn [snd filter is_wb] in *; apply IHnext; lia.
    + cbn [rd_all]. unfold dr_next. rewrite dr_read_wb.
      pose proof (IH d l Hr ltac:(lia)) as IH1.
      destruct (rd_all cap l (mkrd d KIo r)) as [r1 xs1]. cbn [snd filter is_wb length] in *. rewrite IH1. reflexivity.
    + pose proof (IH d (S l) Hr ltac:(lia)) as IH1.
      cbn [rd_all] in *. unfold dr_next in *. rewrite dr_read_int. exact IH1.
Qed.

(* ---------- readers with norm-equal decoders behave alike ---------- *)
Lemma push_res_norm cap d1 d2 b :
  norm d1 = norm d2 ->
  snd (push_res cap d1 b) = snd (push_res cap d2 b) /\
  norm (fst (push_res cap d1 b)) = norm (fst (push_res cap d2 b)).
Proof.
  intros H. destruct (step_norm2 cap d1 d2 b H) as (A & B & C). unfold push_res.
  destruct (step cap d1 b) as [e1 o1], (step cap d2 b) as [e2 o2]. cbn [fst snd] in *. subst o2.
  destruct o1; cbn [fst snd]; try (split; [reflexivity|exact B]).
  specialize (C eq_refl). subst e2. split; reflexivity.
Qed.

Lemma dr_read_loop_norm cap k : forall fuel d1 d2 evs,
  norm d1 = norm d2 ->
  snd (dr_read_loop fuel cap (mkrd d1 k evs)) = snd (dr_read_loop fuel cap (mkrd d2 k evs)) /\
  norm (rd_dec (fst (dr_read_loop fuel cap (mkrd d1 k evs)))) = norm (rd_dec (fst (dr_read_loop fuel cap (mkrd d2 k evs)))) /\
  rd_src (fst (dr_read_loop fuel cap (mkrd d1 k evs))) = rd_src (fst (dr_read_loop fuel cap (mkrd d2 k evs))) /\
  rd_kind (fst (dr_read_loop fuel cap (mkrd d1 k evs))) = k /\ rd_kind (fst (dr_read_loop fuel cap (mkrd d2 k evs))) = k.
Proof.
  induction fuel as [|f IH]; intros d1 d2 evs H.
  - cbn [dr_read_loop fst snd rd_dec rd_src rd_kind]. auto.
  - rewrite !dr_read_loop_S. cbn [rd_kind rd_src rd_dec].
    destruct (src_read k evs) as [src' x]. destruct x as [b|e].
    + destruct (push_res_norm cap d1 d2 b H) as [A B].
      destruct (push_res cap d1 b) as [e1 o1], (push_res cap d2 b) as [e2 o2]. cbn [fst snd] in *. subst o2.
      destruct o1 as [[m|e|]|]; cbn [fst snd rd_dec rd_src rd_kind]; auto.
    + destruct e; cbn [reset fst snd rd_dec rd_src rd_kind]; rewrite ?(norm_reset_cnt d1 d2 H); auto.
Qed.

Theorem rd_all_norm cap k : forall lim d1 d2 evs,
  norm d1 = norm d2 ->
  snd (rd_all cap lim (mkrd d1 k evs)) = snd (rd_all cap lim (mkrd d2 k evs)).
Proof.
  induction lim as [|l IH]; intros d1 d2 evs H; [reflexivity|].
  cbn [rd_all]. unfold dr_next, dr_read. cbn [rd_src].
  destruct (dr_read_loop_norm cap k (S (length evs)) d1 d2 evs H) as (A & B & C & K1 & K2).
  destruct (dr_read_loop (S (length evs)) cap (mkrd d1 k evs)) as [r1 x1],
           (dr_read_loop (S (length evs)) cap (mkrd d2 k evs)) as [r2 x2].
  cbn [fst snd] in *. subst x2.
  destruct r1 as [e1 k1 s1], r2 as [e2 k2 s2]. cbn [rd_dec rd_src rd_kind] in *. subst.
  specialize (IH e1 e2 s2 B).
  destruct x1 as [m|e|kk n|]; try (destruct (rd_all cap l (mkrd e1 k s2)), (rd_all cap l (mkrd e2 k s2)); cbn [snd] in *; subst; reflexivity).
  destruct kk; try (destruct (rd_all cap l (mkrd e1 k s2)), (rd_all cap l (mkrd e2 k s2)); cbn [snd] in *; subst; reflexivity).
  destruct n; [reflexivity|].
  destruct (rd_all cap l (mkrd e1 k s2)), (rd_all cap l (mkrd e2 k s2)); cbn [snd] in *; subst; reflexivity.
Qed.

(* any other read error: the count of not yet reported bytes, then like a fresh reader *)
Theorem other_error_costs_frame_in_flight cap k d evs lim :
  snd (rd_all cap (S lim) (mkrd d k (SOther :: evs))) =
  RdIoErr EkOther (reset_cnt d) :: snd (rd_all cap lim (rd_new k evs)).
Proof.
  cbn [rd_all]. unfold dr_next. rewrite dr_read_other.
  pose proof (rd_all_norm cap k lim (reset_st d) init evs (norm_reset d)) as H. unfold rd_new.
  destruct (rd_all cap lim (mkrd (reset_st d) k evs)), (rd_all cap lim (mkrd init k evs)). cbn [snd] in *. subst. reflexivity.
Qed.

(* end of input: next returns None iff nothing is pending, and then keeps returning None *)
Fixpoint dr_nexts (cap : cap_t) (j : nat) (r : reader) : list (option rdres) :=
  match j with
  | O => []
  | S j' => let '(r', x) := dr_next cap r in x :: dr_nexts cap j' r'
  end.

Theorem eof_behaviour cap k d j :
  k <> KEh ->
  dr_nexts cap (S j) (mkrd d k []) =
  (if reset_cnt d =? 0 then None else Some (RdIoErr EkEof (reset_cnt d))) :: repeat None j.
Proof.
  intros Hk. cbn [dr_nexts]. unfold dr_next at 1. rewrite (dr_read_nil cap d k Hk).
  assert (Hrest : forall j, dr_nexts cap j (mkrd (reset_st d) k []) = repeat None j).
  { clear j. induction j as [|j IH]; [reflexivity|]. cbn [dr_nexts repeat]. unfold dr_next.
    rewrite (dr_read_nil cap (reset_st d) k Hk). change (reset_st (reset_st d)) with (reset_st d).
    cbn [reset_cnt reset_st st raw N.eqb]. rewrite IH. reflexivity. }
  destruct (reset_cnt d) eqn:E; cbn [N.eqb]; rewrite Hrest; reflexivity.
Qed.
