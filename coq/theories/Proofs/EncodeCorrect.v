(* C07: both encoders produce exactly [frame p]; the buffer encoder reports OutOfMemory
   exactly when the frame does not fit; the iterator encoder ends for good. *)
Require Import Sml.Base.Prelude Sml.Base.Crc Sml.Spec.Frame Sml.Model.Decode Sml.Model.Encode.
Require Import Sml.Proofs.EncFold.

(* ---------- lengths of the escaped body ---------- *)
Lemma enc_from_length_mod p : forall c, (length (enc_from c p) mod 4 = length p mod 4)%nat.
Proof.
  induction p as [|b r IH]; intros c; cbn [enc_from]; [reflexivity|].
  destruct ((if b =? 27 then c + 1 else 0) =? 4); cbn [length]; rewrite ?IH.
  - specialize (IH 0). lia.
  - specialize (IH (if b =? 27 then c + 1 else 0)). lia.
Qed.

Lemma enc_from_length_le p : forall c, (length (enc_from c p) <= 5 * length p)%nat.
Proof.
  induction p as [|b r IH]; intros c; cbn [enc_from]; [cbn; lia|].
  destruct ((if b =? 27 then c + 1 else 0) =? 4); cbn [length].
  - specialize (IH 0). lia.
  - specialize (IH (if b =? 27 then c + 1 else 0)). lia.
Qed.


(* ====================================================================================== *)
(* buffer encoder                                                                          *)
(* ====================================================================================== *)
Definition cap_le (cap : cap_t) (n : nat) : bool :=
  match cap with None => true | Some c => Nat.leb n c end.

Lemma bpush_spec cap rb b :
  bpush cap rb b = if cap_le cap (S (length rb)) then Some (b :: rb) else None.
Proof.
  unfold bpush, fits, cap_le. destruct cap as [c|]; [|reflexivity].
  destruct (Nat.ltb_spec (length rb) c), (Nat.leb_spec (S (length rb)) c); try reflexivity; lia.
Qed.

Lemma bextend_spec cap rb l :
  bextend cap rb l = if cap_le cap (length rb + length l) then Some (rev l ++ rb) else None.
Proof.
  unfold bextend, cap_le. destruct cap as [c|]; rewrite rev_append_rev; reflexivity.
Qed.

Lemma cap_le_mono cap a b : (a <= b)%nat -> cap_le cap b = true -> cap_le cap a = true.
Proof.
  unfold cap_le. destruct cap as [c|]; [|reflexivity].
  intros H Hb. apply Nat.leb_le in Hb. apply Nat.leb_le. lia.
Qed.

Lemma if_cap_eq {A} cap x y (a b : A) :
  x = y -> a = b ->
  (if cap_le cap x then Some a else None) = (if cap_le cap y then Some b else None).
Proof. intros -> ->. reflexivity. Qed.

Lemma enc_loop_spec cap p : forall rb c,
  cap_le cap (length rb) = true ->
  enc_loop cap rb c p =
    if cap_le cap (length rb + length (enc_from c p)) then Some (rev (enc_from c p) ++ rb) else None.
Proof.
  induction p as [|b r IH]; intros rb c Hrb; cbn [enc_loop enc_from].
  - cbn [length rev app]. rewrite Nat.add_0_r, Hrb. reflexivity.
  - rewrite bpush_spec.
    set (n := if b =? 27 then c + 1 else 0).
    destruct (cap_le cap (S (length rb))) eqn:C1.
    + destruct (n =? 4).
      * rewrite bextend_spec. cbn [length].
        destruct (cap_le cap (S (length rb) + 4)) eqn:C2.
        -- rewrite IH by (rewrite app_length; cbn [length rev app]; rewrite <- C2; f_equal; lia).
           apply if_cap_eq.
           ++ rewrite app_length. cbn [length rev app]. lia.
           ++ cbn [rev app]. rewrite <- !app_assoc. reflexivity.
        -- destruct (cap_le cap (length rb + S (S (S (S (S (length (enc_from 0 r)))))))) eqn:C3; [|reflexivity].
           apply (cap_le_mono cap (S (length rb) + 4)) in C3; [congruence|lia].
      * rewrite IH by exact C1. apply if_cap_eq.
        -- cbn [length]. lia.
        -- cbn [rev]. rewrite <- app_assoc. reflexivity.
    + destruct (n =? 4); cbn [length];
        match goal with |- None = (if cap_le cap ?x then _ else _) =>
          destruct (cap_le cap x) eqn:C3; [|reflexivity];
          apply (cap_le_mono cap (S (length rb))) in C3; [congruence|lia] end.
Qed.

Lemma firstn_zeros n : (n <= 3)%nat -> firstn n [0;0;0] = repeat 0 n.
Proof. intros H. destruct n as [|[|[|[|n]]]]; try lia; reflexivity. Qed.

Theorem encode_buf_correct cap p :
  encode_buf cap p = if cap_le cap (length (frame p)) then Some (frame p) else None.
Proof.
  unfold encode_buf. rewrite bextend_spec. cbn [length Nat.add].
  destruct (cap_le cap (length start_seq)) eqn:C0.
  2:{ destruct (cap_le cap (length (frame p))) eqn:C; [|reflexivity].
      apply (cap_le_mono cap (length start_seq)) in C; [congruence|].
      unfold frame. rewrite !app_length. lia. }
  rewrite app_nil_r.
  rewrite enc_loop_spec by (rewrite rev_length; exact C0).
  rewrite rev_length.
  set (body := enc_from 0 p).
  assert (Hframe : frame p =
    let pad := pad_of (length body) in
    let pre := start_seq ++ body ++ repeat 0 pad ++ [27;27;27;27;26; N.of_nat pad] in
    pre ++ [N.land (crc16 pre) 255; N.shiftr (crc16 pre) 8]).
  { unfold frame. rewrite esc_as_enc_from. reflexivity. }
  assert (Hlen : length (frame p) = (length start_seq + length body + pad_of (length body) + 8)%nat).
  { rewrite Hframe. cbv zeta. rewrite !app_length, repeat_length. cbn [length]. lia. }
  destruct (cap_le cap (length start_seq + length body)) eqn:C1.
  2:{ destruct (cap_le cap (length (frame p))) eqn:C; [|reflexivity].
      apply (cap_le_mono cap (length start_seq + length body)) in C; [congruence|lia]. }
  set (rb1 := rev body ++ rev start_seq).
  assert (L1 : length rb1 = (length start_seq + length body)%nat).
  { unfold rb1. rewrite app_length, !rev_length. lia. }
  assert (Hpad : ((4 - length rb1 mod 4) mod 4 = pad_of (length body))%nat).
  { rewrite L1. unfold pad_of. cbn [length start_seq]. lia. }
  rewrite Hpad.
  set (pad := pad_of (length body)) in *.
  assert (Hp3 : (pad <= 3)%nat) by (unfold pad, pad_of; lia).
  rewrite firstn_zeros by exact Hp3.
  rewrite bextend_spec, repeat_length, L1.
  destruct (cap_le cap (length start_seq + length body + pad)) eqn:C2.
  2:{ destruct (cap_le cap (length (frame p))) eqn:C; [|reflexivity].
      apply (cap_le_mono cap (length start_seq + length body + pad)) in C; [congruence|lia]. }
  rewrite bextend_spec. rewrite app_length, rev_length, repeat_length, L1. cbn [length].
  destruct (cap_le cap (pad + (length start_seq + length body) + 6)) eqn:C3.
  2:{ destruct (cap_le cap (length (frame p))) eqn:C; [|reflexivity].
      apply (cap_le_mono cap (pad + (length start_seq + length body) + 6)) in C; [congruence|lia]. }
  set (rb3 := rev [27; 27; 27; 27; 26; N.of_nat pad] ++ rev (repeat 0 pad) ++ rb1).
  assert (R3 : rev rb3 = start_seq ++ body ++ repeat 0 pad ++ [27;27;27;27;26; N.of_nat pad]).
  { unfold rb3, rb1. rewrite !rev_app_distr, !rev_involutive, <- !app_assoc. reflexivity. }
  rewrite bextend_spec, frev_eq, R3.
  assert (L3 : length rb3 = (pad + (length start_seq + length body) + 6)%nat).
  { rewrite <- (rev_length rb3), R3, !app_length, repeat_length. cbn [length]. lia. }
  rewrite L3. cbn [length].
  replace (pad + (length start_seq + length body) + 6 + 2)%nat with (length (frame p)) by lia.
  destruct (cap_le cap (length (frame p))); [|reflexivity].
  rewrite frev_eq, rev_app_distr, R3, Hframe. cbv zeta. cbn [rev app].
  rewrite <- !app_assoc. reflexivity.
Qed.

(* ====================================================================================== *)
(* iterator encoder                                                                        *)
(* ====================================================================================== *)
Definition pad_final (P : N) (r : list byte) : N := fold_left (fun a _ => (a + 255) mod 256) r P.

Definition end_bytes (X P : N) : list byte :=
  let c := crc_finalize X in [27;27;27;27;26; N.land P 3; N.land c 255; N.shiftr c 8].

Definition end_out (n : Z) (X P : N) : list byte :=
  repeat 0 (Z.to_nat (- n)) ++ skipn (Z.to_nat n) (end_bytes X P).

Definition body_out (c X P : N) (r : list byte) : list byte :=
  let P' := pad_final P r in
  let p := N.land P' 3 in
  let X1 := crc_update X (enc_from c r) in
  let X2 := crc_update (crc_update X1 (repeat 0 (N.to_nat p))) [27;27;27;27;26;p] in
  enc_from c r ++ end_out (- Z.of_N p) X2 P'.

(* everything the iterator will still emit from state [e] *)
Definition out_of (e : enc) : list byte :=
  match est e with
  | EInit n => skipn (N.to_nat n) start_seq ++ body_out 0 (ecrc e) (epad e) (eiter e)
  | ELook c => if c <? 4 then body_out c (ecrc e) (epad e) (eiter e)
               else [27;27;27;27] ++ body_out 0 (crc_update (ecrc e) [27;27;27;27]) (epad e) (eiter e)
  | EHandle n => repeat 27 (4 - N.to_nat n) ++ body_out 0 (ecrc e) (epad e) (eiter e)
  | EEnd n => end_out n (ecrc e) (epad e)
  end.

Definition valid (e : enc) : Prop :=
  match est e with
  | EInit n => n <= 8
  | ELook c => c <= 4
  | EHandle n => n <= 4
  | EEnd n => (-3 <= n <= 8)%Z
  end.

Definition step_ok (fuel : nat) (e : enc) : Prop :=
  match out_of e with
  | [] => enc_next fuel e = (e, ENone)
  | b :: rest => exists e', enc_next fuel e = (e', EByte b) /\ out_of e' = rest /\ valid e'
  end.

Lemma land3_le x : N.land x 3 <= 3.
Proof.
  assert (H : N.land x 3 = x mod 4) by (change 3 with (N.ones 2); rewrite N.land_ones; reflexivity).
  rewrite H. lia.
Qed.

Lemma land3_mod x : N.land x 3 = x mod 4.
Proof. change 3 with (N.ones 2). rewrite N.land_ones. reflexivity. Qed.

(* EEnd: one byte per call *)
Definition end_byte (n : Z) (X P : N) : byte :=
  let c := crc_finalize X in
  if (n <? 0)%Z then 0 else if (n <? 4)%Z then 27 else if (n =? 4)%Z then 26
  else if (n =? 5)%Z then N.land P 3 else if (n =? 6)%Z then N.land c 255 else N.shiftr c 8.

Lemma end_out_cons n X P :
  (-3 <= n < 8)%Z -> end_out n X P = end_byte n X P :: end_out (n + 1) X P.
Proof.
  intros H.
  assert (n = -3 \/ n = -2 \/ n = -1 \/ n = 0 \/ n = 1 \/ n = 2 \/ n = 3 \/ n = 4 \/ n = 5 \/
          n = 6 \/ n = 7)%Z as Hc by lia.
  repeat (destruct Hc as [->|Hc]; [reflexivity|]). subst n. reflexivity.
Qed.

Lemma end_out_8 X P : end_out 8 X P = [].
Proof. reflexivity. Qed.

Lemma enc_next_end f e n :
  est e = EEnd n -> (-3 <= n < 8)%Z ->
  enc_next (S f) e = (set_est e (EEnd (n + 1)), EByte (end_byte n (ecrc e) (epad e))).
Proof.
  intros He Hn. cbn [enc_next]. rewrite He. unfold end_byte, pad_get.
  destruct (Z.ltb_spec n 0); [reflexivity|].
  destruct (Z.ltb_spec n 4); [reflexivity|].
  destruct (Z.eqb_spec n 4); [reflexivity|].
  destruct (Z.eqb_spec n 5); [reflexivity|].
  destruct (Z.eqb_spec n 6); [reflexivity|].
  destruct (Z.eqb_spec n 7); [reflexivity|]. lia.
Qed.

Lemma enc_next_end8 f e : est e = EEnd 8 -> enc_next (S f) e = (e, ENone).
Proof. intros He. cbn [enc_next]. rewrite He. reflexivity. Qed.

Lemma end_step f e n :
  est e = EEnd n -> (-3 <= n <= 8)%Z -> step_ok (S f) e.
Proof.
  intros He Hn. unfold step_ok, out_of. rewrite He.
  destruct (Z.eq_dec n 8) as [->|N8].
  - rewrite end_out_8. apply enc_next_end8. exact He.
  - rewrite end_out_cons by lia. eexists. split; [apply enc_next_end; [exact He|lia]|].
    split; [|unfold valid; cbn [est set_est]; lia].
    unfold out_of. cbn [est set_est ecrc epad]. reflexivity.
Qed.

(* ELook c, c < 4 *)
Lemma out_of_look c X P r : c < 4 -> out_of (mkenc (ELook c) X P r) = body_out c X P r.
Proof. intros H. unfold out_of. cbn [est ecrc epad eiter]. destruct (N.ltb_spec c 4); [reflexivity|lia]. Qed.

Lemma out_of_look4 X P r :
  out_of (mkenc (ELook 4) X P r) = [27;27;27;27] ++ body_out 0 (crc_update X [27;27;27;27]) P r.
Proof. reflexivity. Qed.

Lemma body_out_cons c X P b r :
  body_out c X P (b :: r) =
  let c' := if b =? 27 then c + 1 else 0 in
  b :: (if c' =? 4
        then [27;27;27;27] ++ body_out 0 (crc_update (crc_update X [b]) [27;27;27;27]) ((P + 255) mod 256) r
        else body_out c' (crc_update X [b]) ((P + 255) mod 256) r).
Proof.
  unfold body_out. cbn [enc_from]. cbv zeta.
  assert (Hpf : pad_final P (b :: r) = pad_final ((P + 255) mod 256) r) by reflexivity.
  rewrite Hpf.
  destruct ((if b =? 27 then c + 1 else 0) =? 4); rewrite <- !crc_update_app; reflexivity.
Qed.

Lemma enc_next_look_nil f c X P :
  c < 4 ->
  enc_next (S f) (mkenc (ELook c) X P []) =
  enc_next f (mkenc (EEnd (- Z.of_N (N.land P 3)))
                    (crc_update (crc_update X (repeat 0 (N.to_nat (N.land P 3)))) [27;27;27;27;26; N.land P 3])
                    P []).
Proof.
  intros H. cbn [enc_next est eiter]. destruct (N.ltb_spec c 4); [|lia].
  unfold pad_get. cbn [epad ecrc]. reflexivity.
Qed.

Lemma enc_next_look_cons f c X P b r :
  c < 4 ->
  enc_next (S f) (mkenc (ELook c) X P (b :: r)) =
  (mkenc (ELook ((c + 1) * (if b =? 27 then 1 else 0))) (crc_update X [b]) ((P + 255) mod 256) r, EByte b).
Proof.
  intros H. cbn [enc_next est eiter]. destruct (N.ltb_spec c 4); [|lia]. reflexivity.
Qed.

Lemma look_step f e c :
  est e = ELook c -> c < 4 -> step_ok (S (S f)) e.
Proof.
  intros He Hc. destruct e as [s X P r]. cbn [est] in He. subst s.
  unfold step_ok. rewrite out_of_look by exact Hc.
  destruct r as [|b r].
  - (* input exhausted: the end sequence *)
    unfold body_out. cbn [pad_final fold_left enc_from app]. rewrite crc_update_nil.
    rewrite enc_next_look_nil by exact Hc.
    pose proof (land3_le P) as Hp.
    generalize dependent (N.land P 3). intros p Hp.
    generalize (crc_update (crc_update X (repeat 0 (N.to_nat p))) [27; 27; 27; 27; 26; p]). intros X2.
    rewrite end_out_cons by lia.
    eexists. split; [apply enc_next_end; [reflexivity|lia]|].
    split; [|unfold valid; cbn [est set_est]; lia].
    unfold out_of. cbn [est set_est ecrc epad]. reflexivity.
  - (* one more payload byte *)
    rewrite body_out_cons. cbv zeta.
    rewrite enc_next_look_cons by exact Hc.
    set (c' := if b =? 27 then c + 1 else 0).
    assert (Hc' : (c + 1) * (if b =? 27 then 1 else 0) = c') by (unfold c'; destruct (b =? 27); lia).
    rewrite Hc'.
    eexists. split; [reflexivity|].
    destruct (N.eqb_spec c' 4) as [E4|N4].
    + rewrite E4. split; [apply out_of_look4|unfold valid; cbn; lia].
    + split; [apply out_of_look; unfold c' in *; destruct (b =? 27); lia|].
      unfold valid; cbn; unfold c'; destruct (b =? 27); lia.
Qed.

(* one-level unfoldings of enc_next for the remaining states *)
Lemma enc_next_init_lt4 f e n :
  est e = EInit n -> n < 4 -> enc_next (S f) e = (set_est e (EInit (n + 1)), EByte 27).
Proof. intros He H. cbn [enc_next]. rewrite He. destruct (N.ltb_spec n 4); [reflexivity|lia]. Qed.

Lemma enc_next_init_lt8 f e n :
  est e = EInit n -> 4 <= n < 8 -> enc_next (S f) e = (set_est e (EInit (n + 1)), EByte 1).
Proof.
  intros He H. cbn [enc_next]. rewrite He. destruct (N.ltb_spec n 4); [lia|].
  destruct (N.ltb_spec n 8); [reflexivity|lia].
Qed.

Lemma enc_next_init_8 f e :
  est e = EInit 8 -> enc_next (S f) e = enc_next f (set_est e (ELook 0)).
Proof. intros He. cbn [enc_next]. rewrite He. reflexivity. Qed.

Lemma enc_next_look4 f e :
  est e = ELook 4 ->
  enc_next (S f) e = enc_next f (mkenc (EHandle 0) (crc_update (ecrc e) [27;27;27;27]) (epad e) (eiter e)).
Proof. intros He. cbn [enc_next]. rewrite He. reflexivity. Qed.

Lemma enc_next_handle_lt4 f e n :
  est e = EHandle n -> n < 4 -> enc_next (S f) e = (set_est e (EHandle (n + 1)), EByte 27).
Proof. intros He H. cbn [enc_next]. rewrite He. destruct (N.ltb_spec n 4); [reflexivity|lia]. Qed.

Lemma enc_next_handle_4 f e :
  est e = EHandle 4 -> enc_next (S f) e = enc_next f (set_est e (ELook 0)).
Proof. intros He. cbn [enc_next]. rewrite He. reflexivity. Qed.

Lemma body_out_nonempty c X P r : body_out c X P r <> [].
Proof.
  unfold body_out. intros E. apply app_eq_nil in E. destruct E as [_ E].
  pose proof (land3_le (pad_final P r)) as Hl.
  rewrite end_out_cons in E by lia. discriminate.
Qed.

Lemma skipn_start n :
  n < 8 -> skipn (N.to_nat n) start_seq = (if n <? 4 then 27 else 1) :: skipn (N.to_nat (n + 1)) start_seq.
Proof.
  intros H.
  assert (n = 0 \/ n = 1 \/ n = 2 \/ n = 3 \/ n = 4 \/ n = 5 \/ n = 6 \/ n = 7) as Hc by lia.
  repeat (destruct Hc as [->|Hc]; [reflexivity|]). subst n. reflexivity.
Qed.

Lemma repeat27_handle n :
  n < 4 -> repeat 27 (4 - N.to_nat n) = 27 :: repeat 27 (4 - N.to_nat (n + 1)).
Proof.
  intros H. assert (n = 0 \/ n = 1 \/ n = 2 \/ n = 3) as Hc by lia.
  repeat (destruct Hc as [->|Hc]; [reflexivity|]). subst n. reflexivity.
Qed.

(* a state that silently moves to ELook 0 behaves like ELook 0 *)
Lemma via_look0 e :
  out_of e = body_out 0 (ecrc e) (epad e) (eiter e) ->
  enc_next 4 e = enc_next 3 (set_est e (ELook 0)) ->
  step_ok 4 e.
Proof.
  intros Ho Hn.
  pose proof (look_step 1 (set_est e (ELook 0)) 0 eq_refl ltac:(lia)) as HL.
  unfold step_ok in *. rewrite Ho.
  assert (Ho0 : out_of (set_est e (ELook 0)) = body_out 0 (ecrc e) (epad e) (eiter e)).
  { unfold set_est. apply out_of_look. lia. }
  rewrite Ho0 in HL. rewrite Hn.
  destruct (body_out 0 (ecrc e) (epad e) (eiter e)) as [|b rest] eqn:Eb.
  - exfalso. eapply body_out_nonempty. exact Eb.
  - exact HL.
Qed.

Theorem next_step e : valid e -> step_ok enc_fuel e.
Proof.
  intros V. unfold enc_fuel. destruct (est e) as [n|c|n|n] eqn:He; unfold valid in V; rewrite He in V.
  - (* EInit *)
    destruct (N.ltb_spec n 8) as [H8|H8].
    + unfold step_ok. unfold out_of at 1. rewrite He. rewrite skipn_start by exact H8. cbn [app].
      destruct (N.ltb_spec n 4) as [H4|H4].
      * eexists. split; [apply (enc_next_init_lt4 3 e n He H4)|].
        split; [unfold out_of; cbn [est set_est ecrc epad eiter]; reflexivity|unfold valid; cbn [est set_est]; lia].
      * eexists. split; [apply (enc_next_init_lt8 3 e n He); lia|].
        split; [unfold out_of; cbn [est set_est ecrc epad eiter]; reflexivity|unfold valid; cbn [est set_est]; lia].
    + assert (n = 8) by lia. subst n.
      apply via_look0.
      * unfold out_of. rewrite He. reflexivity.
      * apply enc_next_init_8. exact He.
  - (* ELook *)
    destruct (N.ltb_spec c 4) as [H4|H4].
    + apply look_step with (c := c); assumption.
    + assert (c = 4) by lia. subst c.
      unfold step_ok. unfold out_of at 1. rewrite He. destruct (N.ltb_spec 4 4); [lia|]. cbn [app].
      rewrite enc_next_look4 by exact He.
      eexists. split; [apply enc_next_handle_lt4 with (n := 0); [reflexivity|lia]|].
      split; [unfold out_of; cbn [est set_est ecrc epad eiter]; reflexivity|unfold valid; cbn [est set_est]; lia].
  - (* EHandle *)
    destruct (N.ltb_spec n 4) as [H4|H4].
    + unfold step_ok. unfold out_of at 1. rewrite He. rewrite repeat27_handle by exact H4. cbn [app].
      eexists. split; [apply (enc_next_handle_lt4 3 e n He H4)|].
      split; [unfold out_of; cbn [est set_est ecrc epad eiter]; reflexivity|unfold valid; cbn [est set_est]; lia].
    + assert (n = 4) by lia. subst n.
      apply via_look0.
      * unfold out_of. rewrite He. reflexivity.
      * apply enc_next_handle_4. exact He.
  - (* EEnd *)
    apply end_step with (n := n); assumption.
Qed.

(* ---------- collecting the iterator ---------- *)
Lemma collect_spec : forall n e acc lim,
  length (out_of e) = n -> valid e -> (n < lim)%nat ->
  exists e', enc_collect_from lim e acc = (e', rev acc ++ out_of e, ENone) /\ out_of e' = [] /\ valid e'.
Proof.
  induction n as [|n IH]; intros e acc lim Hn V Hl.
  - destruct lim as [|l]; [lia|].
    pose proof (next_step e V) as S. unfold step_ok in S.
    destruct (out_of e) as [|b rest] eqn:Eo; [|discriminate].
    cbn [enc_collect_from]. rewrite S. rewrite frev_eq, app_nil_r.
    exists e. repeat split; assumption.
  - destruct lim as [|l]; [lia|].
    pose proof (next_step e V) as S. unfold step_ok in S.
    destruct (out_of e) as [|b rest] eqn:Eo; [discriminate|].
    destruct S as (e1 & Hs & Ho1 & V1).
    cbn [enc_collect_from]. rewrite Hs.
    cbn [length] in Hn.
    destruct (IH e1 (b :: acc) l ltac:(rewrite Ho1; lia) V1 ltac:(lia)) as (e' & Hc & He' & Ve').
    exists e'. rewrite Hc, Ho1. cbn [rev]. rewrite <- app_assoc. cbn [app]. repeat split; assumption.
Qed.

Lemma after_spec : forall k e, out_of e = [] -> valid e -> enc_after k e = repeat ENone k.
Proof.
  induction k as [|k IH]; intros e Ho V; [reflexivity|].
  pose proof (next_step e V) as S. unfold step_ok in S. rewrite Ho in S.
  cbn [enc_after]. rewrite S. cbn [repeat]. rewrite IH by assumption. reflexivity.
Qed.

Lemma pad_final_spec r : forall P, P < 256 -> pad_final P r = (P + 255 * lenN r) mod 256.
Proof.
  induction r as [|b r IH]; intros P HP; unfold pad_final in *; cbn [fold_left].
  - change (lenN (@nil N)) with 0. rewrite N.mul_0_r, N.add_0_r. symmetry. apply N.mod_small. exact HP.
  - rewrite IH by (apply N.mod_lt; lia). rewrite lenN_cons. lia.
Qed.

Lemma out_of_new p : out_of (enc_new p) = frame p.
Proof.
  unfold out_of, enc_new. cbn [est ecrc epad eiter]. change (skipn (N.to_nat 0) start_seq) with start_seq.
  unfold body_out, frame. rewrite esc_as_enc_from.
  set (body := enc_from 0 p).
  rewrite pad_final_spec by lia.
  rewrite land3_mod.
  set (q := ((0 + 255 * lenN p) mod 256) mod 4).
  assert (Hq : q = N.of_nat (pad_of (length body))).
  { unfold q, pad_of, lenN. pose proof (enc_from_length_mod p 0) as Hm. fold body in Hm. lia. }
  assert (Hq3 : q <= 3) by (unfold q; lia).
  unfold end_out.
  replace (Z.to_nat (- - Z.of_N q)) with (N.to_nat q) by lia.
  replace (Z.to_nat (- Z.of_N q)) with 0%nat by lia.
  cbn [skipn]. unfold end_bytes.
  rewrite land3_mod. fold q.
  assert (Hpn : pad_of (length body) = N.to_nat q) by lia.
  rewrite Hpn, N2Nat.id.
  set (pre := start_seq ++ body ++ repeat 0 (N.to_nat q) ++ [27; 27; 27; 27; 26; q]).
  assert (Hc : crc_finalize (crc_update (crc_update (crc_update crc_start body) (repeat 0 (N.to_nat q))) [27; 27; 27; 27; 26; q])
               = crc16 pre).
  { unfold crc16, pre, crc_start. rewrite <- !crc_update_app. reflexivity. }
  rewrite Hc. unfold pre. rewrite <- !app_assoc. reflexivity.
Qed.

Lemma frame_length_le p : (length (frame p) < enc_limit p)%nat.
Proof.
  unfold frame, enc_limit. rewrite esc_as_enc_from.
  rewrite !app_length, repeat_length. cbn [length start_seq].
  pose proof (enc_from_length_le p 0). unfold pad_of. lia.
Qed.

Lemma valid_new p : valid (enc_new p).
Proof. unfold valid, enc_new. cbn. lia. Qed.

Theorem enc_collect_correct p : enc_collect p = frame p.
Proof.
  unfold enc_collect.
  destruct (collect_spec (length (out_of (enc_new p))) (enc_new p) [] (enc_limit p) eq_refl (valid_new p))
    as (e' & Hc & _ & _).
  { rewrite out_of_new. apply frame_length_le. }
  rewrite Hc. cbn [fst snd rev app]. apply out_of_new.
Qed.

(* the iterator ends for good: every further call returns None *)
Theorem enc_ends_for_good p k :
  exists e', fst (fst (enc_collect_from (enc_limit p) (enc_new p) [])) = e' /\
             snd (enc_collect_from (enc_limit p) (enc_new p) []) = ENone /\
             enc_after k e' = repeat ENone k.
Proof.
  destruct (collect_spec (length (out_of (enc_new p))) (enc_new p) [] (enc_limit p) eq_refl (valid_new p))
    as (e' & Hc & Ho & V).
  { rewrite out_of_new. apply frame_length_le. }
  exists e'. rewrite Hc. cbn [fst snd]. repeat split. apply after_spec; assumption.
Qed.
