(* C07: both encoders produce exactly [frame p]; the buffer encoder reports OutOfMemory
   exactly when the frame does not fit; the iterator encoder ends for good. *)
Require Import Sml.Base.Prelude Sml.Base.Crc Sml.Spec.Frame Sml.Model.Decode Sml.Model.Encode.
Require Import Sml.Proofs.EncFold.

(* ---------- lengths of the escaped body ---------- *)
Lemma enc_from_length_mod p : forall c, (length (enc_from c p) mod 4 = length p mod 4)%nat.
Proof.
  induction p as [|b r IH]; intros c; cbn [enc_from]; [reflexivity|].
  destruct ((if b =? 27 then c + 1 else 0) =? 4); cbn [length]; rewrite ?IH.
  - specialize (IH 0). lia.
  - specialize (IH (if b =? 27 then c + 1 else 0)). lia.
Qed.

Lemma enc_from_length_le p : forall c, (length (enc_from c p) <= 5 * length p)%nat.
Proof.
  induction p as [|b r IH]; intros c; cbn [enc_from]; [cbn; lia|].
  destruct ((if b =? 27 then c + 1 else 0) =? 4); cbn [length].
  - specialize (IH 0). lia.
  - specialize (IH (if b =? 27 then c + 1 else 0)). lia.
Qed.

Lemma esc_as_enc_from p : esc p = enc_from 0 p.
Proof. rewrite <- enc_fold_esc, enc_fold_from. reflexivity. Qed.

(* ====================================================================================== *)
(* buffer encoder                                                                          *)
(* ====================================================================================== *)
Definition cap_le (cap : cap_t) (n : nat) : bool :=
  match cap with None => true | Some c => Nat.leb n c end.

Lemma bpush_spec cap rb b :
  bpush cap rb b = if cap_le cap (S (length rb)) then Some (b :: rb) else None.
Proof.
  unfold bpush, fits, cap_le. destruct cap as [c|]; [|reflexivity].
  destruct (Nat.ltb_spec (length rb) c), (Nat.leb_spec (S (length rb)) c); try reflexivity; lia.
Qed.

Lemma bextend_spec cap rb l :
  bextend cap rb l = if cap_le cap (length rb + length l) then Some (rev l ++ rb) else None.
Proof.
  unfold bextend, cap_le. destruct cap as [c|]; rewrite rev_append_rev; reflexivity.
Qed.

Lemma cap_le_mono cap a b : (a <= b)%nat -> cap_le cap b = true -> cap_le cap a = true.
Proof.
  unfold cap_le. destruct cap as [c|]; [|reflexivity].
  intros H Hb. apply Nat.leb_le in Hb. apply Nat.leb_le. lia.
Qed.

Lemma if_cap_eq {A} cap x y (a b : A) :
  x = y -> a = b ->
  (if cap_le cap x then Some a else None) = (if cap_le cap y then Some b else None).
Proof. intros -> ->. reflexivity. Qed.

Lemma enc_loop_spec cap p : forall rb c,
  cap_le cap (length rb) = true ->
  enc_loop cap rb c p =
    if cap_le cap (length rb + length (enc_from c p)) then Some (rev (enc_from c p) ++ rb) else None.
Proof.
  induction p as [|b r IH]; intros rb c Hrb; cbn [enc_loop enc_from].
  - cbn [length rev app]. rewrite Nat.add_0_r, Hrb. reflexivity.
  - rewrite bpush_spec.
    set (n := if b =? 27 then c + 1 else 0).
    destruct (cap_le cap (S (length rb))) eqn:C1.
    + destruct (n =? 4).
      * rewrite bextend_spec. cbn [length].
        destruct (cap_le cap (S (length rb) + 4)) eqn:C2.
        -- rewrite IH by (rewrite app_length; cbn [length rev app]; rewrite <- C2; f_equal; lia).
           apply if_cap_eq.
           ++ rewrite app_length. cbn [length rev app]. lia.
           ++ cbn [rev app]. rewrite <- !app_assoc. reflexivity.
        -- destruct (cap_le cap (length rb + S (S (S (S (S (length (enc_from 0 r)))))))) eqn:C3; [|reflexivity].
           apply (cap_le_mono cap (S (length rb) + 4)) in C3; [congruence|lia].
      * rewrite IH by exact C1. apply if_cap_eq.
        -- cbn [length]. lia.
        -- cbn [rev]. rewrite <- app_assoc. reflexivity.
    + destruct (n =? 4); cbn [length];
        match goal with |- None = (if cap_le cap ?x then _ else _) =>
          destruct (cap_le cap x) eqn:C3; [|reflexivity];
          apply (cap_le_mono cap (S (length rb))) in C3; [congruence|lia] end.
Qed.

Lemma firstn_zeros n : (n <= 3)%nat -> firstn n [0;0;0] = repeat 0 n.
Proof. intros H. destruct n as [|[|[|[|n]]]]; try lia; reflexivity. Qed.

Theorem encode_buf_correct cap p :
  encode_buf cap p = if cap_le cap (length (frame p)) then Some (frame p) else None.
Proof.
  unfold encode_buf. rewrite bextend_spec. cbn [length Nat.add].
  destruct (cap_le cap (length start_seq)) eqn:C0.
  2:{ destruct (cap_le cap (length (frame p))) eqn:C; [|reflexivity].
      apply (cap_le_mono cap (length start_seq)) in C; [congruence|].
      unfold frame. rewrite !app_length. lia. }
  rewrite app_nil_r.
  rewrite enc_loop_spec by (rewrite rev_length; exact C0).
  rewrite rev_length.
  set (body := enc_from 0 p).
  assert (Hframe : frame p =
    let pad := pad_of (length body) in
    let pre := start_seq ++ body ++ repeat 0 pad ++ [27;27;27;27;26; N.of_nat pad] in
    pre ++ [N.land (crc16 pre) 255; N.shiftr (crc16 pre) 8]).
  { unfold frame. rewrite esc_as_enc_from. reflexivity. }
  assert (Hlen : length (frame p) = (length start_seq + length body + pad_of (length body) + 8)%nat).
  { rewrite Hframe. cbv zeta. rewrite !app_length, repeat_length. cbn [length]. lia. }
  destruct (cap_le cap (length start_seq + length body)) eqn:C1.
  2:{ destruct (cap_le cap (length (frame p))) eqn:C; [|reflexivity].
      apply (cap_le_mono cap (length start_seq + length body)) in C; [congruence|lia]. }
  set (rb1 := rev body ++ rev start_seq).
  assert (L1 : length rb1 = (length start_seq + length body)%nat).
  { unfold rb1. rewrite app_length, !rev_length. lia. }
  assert (Hpad : ((4 - length rb1 mod 4) mod 4 = pad_of (length body))%nat).
  { rewrite L1. unfold pad_of. cbn [length start_seq]. lia. }
  rewrite Hpad.
  set (pad := pad_of (length body)) in *.
  assert (Hp3 : (pad <= 3)%nat) by (unfold pad, pad_of; lia).
  rewrite firstn_zeros by exact Hp3.
  rewrite bextend_spec, repeat_length, L1.
  destruct (cap_le cap (length start_seq + length body + pad)) eqn:C2.
  2:{ destruct (cap_le cap (length (frame p))) eqn:C; [|reflexivity].
      apply (cap_le_mono cap (length start_seq + length body + pad)) in C; [congruence|lia]. }
  rewrite bextend_spec. rewrite app_length, rev_length, repeat_length, L1. cbn [length].
  destruct (cap_le cap (pad + (length start_seq + length body) + 6)) eqn:C3.
  2:{ destruct (cap_le cap (length (frame p))) eqn:C; [|reflexivity].
      apply (cap_le_mono cap (pad + (length start_seq + length body) + 6)) in C; [congruence|lia]. }
  set (rb3 := rev [27; 27; 27; 27; 26; N.of_nat pad] ++ rev (repeat 0 pad) ++ rb1).
  assert (R3 : rev rb3 = start_seq ++ body ++ repeat 0 pad ++ [27;27;27;27;26; N.of_nat pad]).
  { unfold rb3, rb1. rewrite !rev_app_distr, !rev_involutive, <- !app_assoc. reflexivity. }
  rewrite bextend_spec, frev_eq, R3.
  assert (L3 : length rb3 = (pad + (length start_seq + length body) + 6)%nat).
  { rewrite <- (rev_length rb3), R3, !app_length, repeat_length. cbn [length]. lia. }
  rewrite L3. cbn [length].
  replace (pad + (length start_seq + length body) + 6 + 2)%nat with (length (frame p)) by lia.
  destruct (cap_le cap (length (frame p))); [|reflexivity].
  rewrite frev_eq, rev_app_distr, R3, Hframe. cbv zeta. cbn [rev app].
  rewrite <- !app_assoc. reflexivity.
Qed.

(* ====================================================================================== *)
(* iterator encoder                                                                        *)
(* ====================================================================================== *)
Definition pad_final (P : N) (r : list byte) : N := fold_left (fun a _ => (a + 255) mod 256) r P.

Definition end_bytes (X P : N) : list byte :=
  let c := crc_finalize X in [27;27;27;27;26; N.land P 3; N.land c 255; N.shiftr c 8].

Definition end_out (n : Z) (X P : N) : list byte :=
  repeat 0 (Z.to_nat (- n)) ++ skipn (Z.to_nat n) (end_bytes X P).

Definition body_out (c X P : N) (r : list byte) : list byte :=
  let P' := pad_final P r in
  let p := N.land P' 3 in
  let X1 := crc_update X (enc_from c r) in
  let X2 := crc_update (crc_update X1 (repeat 0 (N.to_nat p))) [27;27;27;27;26;p] in
  enc_from c r ++ end_out (- Z.of_N p) X2 P'.

(* everything the iterator will still emit from state [e] *)
Definition out_of (e : enc) : list byte :=
  match est e with
  | EInit n => skipn (N.to_nat n) start_seq ++ body_out 0 (ecrc e) (epad e) (eiter e)
  | ELook c => if c <? 4 then body_out c (ecrc e) (epad e) (eiter e)
               else [27;27;27;27] ++ body_out 0 (crc_update (ecrc e) [27;27;27;27]) (epad e) (eiter e)
  | EHandle n => repeat 27 (4 - N.to_nat n) ++ body_out 0 (ecrc e) (epad e) (eiter e)
  | EEnd n => end_out n (ecrc e) (epad e)
  end.

Definition valid (e : enc) : Prop :=
  match est e with
  | EInit n => n <= 8
  | ELook c => c <= 4
  | EHandle n => n <= 4
  | EEnd n => (-3 <= n <= 8)%Z
  end.

Definition step_ok (fuel : nat) (e : enc) : Prop :=
  match out_of e with
  | [] => enc_next fuel e = (e, ENone)
  | b :: rest => exists e', enc_next fuel e = (e', EByte b) /\ out_of e' = rest /\ valid e'
  end.

Lemma land3_le x : N.land x 3 <= 3.
Proof.
  assert (H : N.land x 3 = x mod 4) by (change 3 with (N.ones 2); rewrite N.land_ones; reflexivity).
  rewrite H. lia.
Qed.

Lemma land3_mod x : N.land x 3 = x mod 4.
Proof. change 3 with (N.ones 2). rewrite N.land_ones. reflexivity. Qed.

(* EEnd: one byte per call *)
Definition end_byte (n : Z) (X P : N) : byte :=
  let c := crc_finalize X in
  if (n <? 0)%Z then 0 else if (n <? 4)%Z then 27 else if (n =? 4)%Z then 26
  else if (n =? 5)%Z then N.land P 3 else if (n =? 6)%Z then N.land c 255 else N.shiftr c 8.

Lemma end_out_cons n X P :
  (-3 <= n < 8)%Z -> end_out n X P = end_byte n X P :: end_out (n + 1) X P.
Proof.
  intros H.
  assert (n = -3 \/ n = -2 \/ n = -1 \/ n = 0 \/ n = 1 \/ n = 2 \/ n = 3 \/ n = 4 \/ n = 5 \/
          n = 6 \/ n = 7)%Z as Hc by lia.
  repeat (destruct Hc as [->|Hc]; [reflexivity|]). subst n. reflexivity.
Qed.

Lemma end_out_8 X P : end_out 8 X P = [].
Proof. reflexivity. Qed.

Lemma enc_next_end f e n :
  est e = EEnd n -> (-3 <= n < 8)%Z ->
  enc_next (S f) e = (set_est e (EEnd (n + 1)), EByte (end_byte n (ecrc e) (epad e))).
Proof.
  intros He Hn. cbn [enc_next]. rewrite He. unfold end_byte, pad_get.
  destruct (Z.ltb_spec n 0); [reflexivity|].
  destruct (Z.ltb_spec n 4); [reflexivity|].
  destruct (Z.eqb_spec n 4); [reflexivity|].
  destruct (Z.eqb_spec n 5); [reflexivity|].
  destruct (Z.eqb_spec n 6); [reflexivity|].
  destruct (Z.eqb_spec n 7); [reflexivity|]. lia.
Qed.

Lemma enc_next_end8 f e : est e = EEnd 8 -> enc_next (S f) e = (e, ENone).
Proof. intros He. cbn [enc_next]. rewrite He. reflexivity. Qed.

Lemma end_step f e n :
  est e = EEnd n -> (-3 <= n <= 8)%Z -> step_ok (S f) e.
Proof.
  intros He Hn. unfold step_ok, out_of. rewrite He.
  destruct (Z.eq_dec n 8) as [->|N8].
  - rewrite end_out_8. apply enc_next_end8. exact He.
  - rewrite end_out_cons by lia. eexists. split; [apply enc_next_end; [exact He|lia]|].
    split; [|unfold valid; cbn [est set_est]; lia].
    unfold out_of. cbn [est set_est ecrc epad]. reflexivity.
Qed.

(* ELook c, c < 4 *)
Lemma look_step f e c :
  est e = ELook c -> c < 4 -> step_ok (S (S f)) e.
Proof.
  intros He Hc. unfold step_ok, out_of. rewrite He.
  destruct (N.ltb_spec c 4); [|lia].
  destruct e as [s X P r]. cbn [est ecrc epad eiter] in *. subst s.
  destruct r as [|b r].
  - (* input exhausted: the end sequence *)
    unfold body_out. cbn [pad_final fold_left enc_from app crc_update].
    set (p := N.land P 3).
    assert (Hp : p <= 3) by apply land3_le.
    set (X2 := fold_left crc_step [27; 27; 27; 27; 26; p] (fold_left crc_step (repeat 0 (N.to_nat p)) X)).
    pose proof (end_step f (mkenc (EEnd (- Z.of_N p)) X2 P []) (- Z.of_N p) eq_refl ltac:(lia)) as HE.
    unfold step_ok, out_of in HE. cbn [est ecrc epad] in HE.
    cbn [enc_next est]. destruct (N.ltb_spec c 4); [|lia]. cbn [eiter].
    unfold pad_get. cbn [epad ecrc]. fold p.
    unfold crc_update at 1 2. fold X2. exact HE.
  - (* one more payload byte *)
    unfold body_out. cbn [enc_from].
    set (c' := if b =? 27 then c + 1 else 0).
    cbn [enc_next est]. destruct (N.ltb_spec c 4); [|lia]. cbn [eiter ecrc epad].
    assert (Hc' : (c + 1) * (if b =? 27 then 1 else 0) = c') by (unfold c'; destruct (b =? 27); lia).
    rewrite Hc'.
    assert (Hpf : pad_final P (b :: r) = pad_final ((P + 255) mod 256) r) by reflexivity.
    destruct (N.eqb_spec c' 4) as [E4|N4].
    + cbn [app]. eexists. split; [reflexivity|]. split; [|unfold valid; cbn; lia].
      unfold out_of. cbn [est ecrc epad eiter]. rewrite E4.
      destruct (N.ltb_spec 4 4); [lia|]. unfold body_out.
      rewrite Hpf. rewrite <- !crc_update_app. cbn [app]. reflexivity.
    + cbn [app]. eexists. split; [reflexivity|]. split; [|unfold valid; cbn; unfold c'; destruct (b =? 27); lia].
      unfold out_of. cbn [est ecrc epad eiter].
      destruct (N.ltb_spec c' 4); [|unfold c' in *; destruct (b =? 27); lia]. unfold body_out.
      rewrite Hpf. rewrite <- !crc_update_app. cbn [app]. reflexivity.
Qed.

Theorem next_step e : valid e -> step_ok enc_fuel e.
Proof.
  intros V. unfold enc_fuel. destruct (est e) as [n|c|n|n] eqn:He; unfold valid in V; rewrite He in V.
  - (* EInit *)
    destruct (N.ltb_spec n 4) as [H4|H4].
    + unfold step_ok, out_of. rewrite He. cbn [enc_next]. rewrite He.
      destruct (N.ltb_spec n 4); [|lia].
      assert (n = 0 \/ n = 1 \/ n = 2 \/ n = 3) as Hc by lia.
      destruct Hc as [->|[->|[->| ->]]]; cbn [N.to_nat Pos.to_nat Pos.iter_op Nat.add skipn start_seq app];
        (eexists; split; [reflexivity|]; split; [unfold out_of; cbn; reflexivity|unfold valid; cbn; lia]).
    + destruct (N.ltb_spec n 8) as [H8|H8].
      * unfold step_ok, out_of. rewrite He. cbn [enc_next]. rewrite He.
        destruct (N.ltb_spec n 4); [lia|]. destruct (N.ltb_spec n 8); [|lia].
        assert (n = 4 \/ n = 5 \/ n = 6 \/ n = 7) as Hc by lia.
        destruct Hc as [->|[->|[->| ->]]]; cbn [N.to_nat Pos.to_nat Pos.iter_op Nat.add skipn start_seq app];
          (eexists; split; [reflexivity|]; split; [unfold out_of; cbn; reflexivity|unfold valid; cbn; lia]).
      * assert (n = 8) by lia. subst n.
        pose proof (look_step 1 (set_est e (ELook 0)) 0 eq_refl ltac:(lia)) as HL.
        unfold step_ok in *. unfold out_of in *. rewrite He. cbn [set_est est ecrc epad eiter] in HL.
        destruct (N.ltb_spec 0 4); [|lia].
        cbn [enc_next]. rewrite He.
        destruct (N.ltb_spec 8 4); [lia|]. destruct (N.ltb_spec 8 8); [lia|].
        destruct (N.eqb_spec 8 8); [|lia].
        change (skipn (N.to_nat 8) start_seq) with (@nil N). cbn [app].
        destruct (body_out 0 (ecrc e) (epad e) (eiter e)) as [|b rest] eqn:Eb.
        -- (* impossible: the body always ends with the end sequence *)
           exfalso. unfold body_out in Eb. apply app_eq_nil in Eb. destruct Eb as [_ Eb].
           unfold end_out in Eb. apply app_eq_nil in Eb. destruct Eb as [_ Eb].
           pose proof (land3_le (pad_final (epad e) (eiter e))) as Hl.
           set (q := N.land (pad_final (epad e) (eiter e)) 3) in *.
           replace (Z.to_nat (- Z.of_N q)) with 0%nat in Eb by lia. discriminate.
        -- exact HL.
  - (* ELook *)
    destruct (N.ltb_spec c 4) as [H4|H4].
    + apply look_step with (c := c); assumption.
    + assert (c = 4) by lia. subst c.
      unfold step_ok, out_of. rewrite He. destruct (N.ltb_spec 4 4); [lia|].
      cbn [enc_next]. rewrite He. destruct (N.ltb_spec 4 4); [lia|]. destruct (N.eqb_spec 4 4); [|lia].
      cbn [est]. destruct (N.ltb_spec 0 4); [|lia]. cbn [app].
      eexists. split; [reflexivity|]. split; [|unfold valid; cbn; lia].
      unfold out_of. cbn [est set_est ecrc epad eiter]. reflexivity.
  - (* EHandle *)
    destruct (N.ltb_spec n 4) as [H4|H4].
    + unfold step_ok, out_of. rewrite He. cbn [enc_next]. rewrite He.
      destruct (N.ltb_spec n 4); [|lia].
      assert (n = 0 \/ n = 1 \/ n = 2 \/ n = 3) as Hc by lia.
      destruct Hc as [->|[->|[->| ->]]]; cbn [N.to_nat Pos.to_nat Pos.iter_op Nat.add Nat.sub repeat app];
        (eexists; split; [reflexivity|]; split; [unfold out_of; cbn; reflexivity|unfold valid; cbn; lia]).
    + assert (n = 4) by lia. subst n.
      pose proof (look_step 1 (set_est e (ELook 0)) 0 eq_refl ltac:(lia)) as HL.
      unfold step_ok in *. unfold out_of in *. rewrite He. cbn [set_est est ecrc epad eiter] in HL.
      destruct (N.ltb_spec 0 4); [|lia].
      cbn [enc_next]. rewrite He.
      destruct (N.ltb_spec 4 4); [lia|]. destruct (N.eqb_spec 4 4); [|lia].
      change (repeat 27 (4 - N.to_nat 4)) with (@nil N). cbn [app].
      exact HL.
  - (* EEnd *)
    apply end_step with (n := n); assumption.
Qed.
