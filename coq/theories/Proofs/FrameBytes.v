(* A frame is a byte string: if every payload element is a byte (< 256), so is every element of
   [frame p] - escape bytes, padding, the pad count (< 4) and both CRC octets (the low and the high
   half of a 16-bit register).  The model computes over unbounded N; this is the lemma that says no
   truncation to u8 (encode.rs: [as u8], [to_le_bytes]) is missing from the specification. *)
Require Import Sml.Base.Prelude Sml.Base.Crc Sml.Spec.Frame Sml.Proofs.CrcRange Sml.Proofs.FrameSize.

Lemma esc_bytes_ok : forall n (p : list byte), (length p <= n)%nat -> bytes_ok p -> bytes_ok (esc p).
Proof.
  induction n as [|n IH]; intros p Hn Hp.
  - destruct p; [constructor|cbn in Hn; lia].
  - destruct p as [|b0 r]; [constructor|].
    assert (H0 : b0 < 256) by (inversion Hp; assumption).
    assert (Hr : bytes_ok r) by (inversion Hp; assumption).
    destruct r as [|b1 [|b2 [|b3 r4]]].
    + cbn. exact Hp.
    + cbn. exact Hp.
    + cbn. exact Hp.
    + rewrite esc_unfold4. cbn [length] in Hn.
      destruct ((b0 =? 27) && (b1 =? 27) && (b2 =? 27) && (b3 =? 27)).
      * apply bytes_ok_app. split.
        -- repeat (constructor; [lia|]). constructor.
        -- apply IH; [lia|]. inversion Hr as [|? ? _ Hr1]; subst. inversion Hr1 as [|? ? _ Hr2]; subst.
           inversion Hr2 as [|? ? _ Hr3]; subst. exact Hr3.
      * constructor; [exact H0|]. apply IH; [cbn [length]; lia|exact Hr].
Qed.

Lemma pad_of_lt n : (pad_of n < 4)%nat.
Proof. unfold pad_of. apply Nat.mod_upper_bound. lia. Qed.

Theorem frame_bytes_ok (p : list byte) : bytes_ok p -> bytes_ok (frame p).
Proof.
  intros Hp. unfold frame.
  set (pad := pad_of (length (esc p))).
  assert (Hpad : (pad < 4)%nat) by apply pad_of_lt.
  assert (Hpre : bytes_ok (start_seq ++ esc p ++ repeat 0 pad ++ [27; 27; 27; 27; 26; N.of_nat pad])).
  { apply bytes_ok_app. split; [unfold start_seq; repeat (constructor; [lia|]); constructor|].
    apply bytes_ok_app. split; [apply (esc_bytes_ok (length p)); [lia|exact Hp]|].
    apply bytes_ok_app. split; [apply bytes_ok_repeat; lia|].
    repeat (constructor; [lia|]). constructor. }
  apply bytes_ok_app. split; [exact Hpre|].
  pose proof (crc16_lt _ Hpre) as Hc.
  set (c := crc16 _) in *. clearbody c.
  constructor.
  - change 255 with (N.ones 8). rewrite N.land_ones. change (2 ^ 8) with 256. lia.
  - constructor; [|constructor]. rewrite N.shiftr_div_pow2. change (2 ^ 8) with 256. lia.
Qed.
