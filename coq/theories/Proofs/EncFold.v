(* The escaping loop of the buffer encoder (encode.rs:186-200) as an abstract left fold
   [enc_fold], its head-first form [enc_from], and the proof that it computes the
   specification's pattern-matching escape function [esc]. *)
Require Import Sml.Base.Prelude Sml.Base.Crc Sml.Spec.Frame.

Definition enc_step (s : list byte * N) (b : byte) : list byte * N :=
  let '(out, c) := s in
  let c' := if b =? 27 then c + 1 else 0 in
  if c' =? 4 then (out ++ [b] ++ [27;27;27;27], 0) else (out ++ [b], c').
Definition enc_fold (p : list byte) : list byte * N := fold_left enc_step p ([], 0).

Lemma enc_step_27 out c :
  enc_step (out, c) 27 =
  if c + 1 =? 4 then (out ++ [27] ++ [27;27;27;27], 0) else (out ++ [27], c + 1).
Proof. reflexivity. Qed.

Lemma enc_step_other out c b : b <> 27 -> enc_step (out, c) b = (out ++ [b], 0).
Proof. intros Hb. unfold enc_step. destruct (N.eqb_spec b 27); [contradiction|]. reflexivity. Qed.

Lemma enc_fold_snoc p b : enc_fold (p ++ [b]) = enc_step (enc_fold p) b.
Proof. unfold enc_fold. rewrite fold_left_app. reflexivity. Qed.

Lemma enc_fold_snoc_other p b body c :
  enc_fold p = (body, c) -> b <> 27 -> enc_fold (p ++ [b]) = (body ++ [b], 0).
Proof.
  intros H Hb. rewrite enc_fold_snoc, H. apply enc_step_other; assumption.
Qed.

Lemma enc_fold_27s p body n :
  enc_fold p = (body, 0) -> (n <= 3)%nat ->
  enc_fold (p ++ repeat 27 n) = (body ++ repeat 27 n, N.of_nat n).
Proof.
  intros H. induction n as [|n IH]; intros Hn.
  - simpl. rewrite !app_nil_r. exact H.
  - replace (p ++ repeat 27 (S n)) with ((p ++ repeat 27 n) ++ [27])
      by (rewrite <- repeat_snoc, app_assoc; reflexivity).
    rewrite enc_fold_snoc, IH by lia.
    rewrite enc_step_27.
    destruct (N.eqb_spec (N.of_nat n + 1) 4); [lia|].
    rewrite <- repeat_snoc, app_assoc. f_equal. lia.
Qed.

Lemma enc_fold_four27 p body :
  enc_fold p = (body, 0) -> enc_fold (p ++ repeat 27 4) = (body ++ repeat 27 8, 0).
Proof.
  intros H.
  replace (p ++ repeat 27 4) with ((p ++ repeat 27 3) ++ [27])
    by (rewrite <- app_assoc; reflexivity).
  rewrite enc_fold_snoc, (enc_fold_27s _ _ 3%nat H) by lia.
  rewrite enc_step_27. simpl. rewrite <- !app_assoc. reflexivity.
Qed.

Lemma enc_fold_zeros p body c n :
  enc_fold p = (body, c) -> fst (enc_fold (p ++ repeat 0 n)) = body ++ repeat 0 n.
Proof.
  revert p body c. induction n as [|n IH]; intros p body c H.
  - simpl. rewrite !app_nil_r, H. reflexivity.
  - simpl repeat. change (0 :: repeat 0 n) with ([0] ++ repeat 0 n).
    rewrite app_assoc. erewrite IH.
    2:{ eapply enc_fold_snoc_other; [exact H|lia]. }
    rewrite <- app_assoc. reflexivity.
Qed.

Lemma enc_fold_fst_zeros m body c n :
  enc_fold (m ++ repeat 0 n) = (body, c) -> body = fst (enc_fold m) ++ repeat 0 n.
Proof.
  intros H. destruct (enc_fold m) as [bm cm] eqn:E.
  pose proof (enc_fold_zeros m bm cm n E) as Z. rewrite H in Z. exact Z.
Qed.

(* ---------- head-first form ---------- *)
Fixpoint enc_from (c : N) (p : list byte) : list byte :=
  match p with
  | [] => []
  | b :: r =>
      let c' := if b =? 27 then c + 1 else 0 in
      if c' =? 4 then b :: 27 :: 27 :: 27 :: 27 :: enc_from 0 r else b :: enc_from c' r
  end.

Fixpoint cnt_from (c : N) (p : list byte) : N :=
  match p with
  | [] => c
  | b :: r =>
      let c' := if b =? 27 then c + 1 else 0 in
      if c' =? 4 then cnt_from 0 r else cnt_from c' r
  end.

Lemma fold_enc_step p : forall out c,
  fold_left enc_step p (out, c) = (out ++ enc_from c p, cnt_from c p).
Proof.
  induction p as [|b r IH]; intros out c; cbn [fold_left enc_from cnt_from].
  - rewrite app_nil_r. reflexivity.
  - unfold enc_step at 2.
    destruct ((if b =? 27 then c + 1 else 0) =? 4).
    + rewrite IH. rewrite <- !app_assoc. reflexivity.
    + rewrite IH. rewrite <- !app_assoc. reflexivity.
Qed.

Lemma enc_fold_from p : enc_fold p = (enc_from 0 p, cnt_from 0 p).
Proof. unfold enc_fold. rewrite fold_enc_step. reflexivity. Qed.

(* ---------- esc ---------- *)
Lemma esc_four r : esc (27 :: 27 :: 27 :: 27 :: r) = [27;27;27;27;27;27;27;27] ++ esc r.
Proof. reflexivity. Qed.

Lemma esc_cons_ne b r :
  firstn 4 (b :: r) <> [27;27;27;27] -> esc (b :: r) = b :: esc r.
Proof.
  intros H.
  destruct r as [|b1 [|b2 [|b3 r4]]]; try reflexivity.
  cbn [esc].
  destruct (N.eqb_spec b 27) as [->|]; [|reflexivity].
  destruct (N.eqb_spec b1 27) as [->|]; [|reflexivity].
  destruct (N.eqb_spec b2 27) as [->|]; [|reflexivity].
  destruct (N.eqb_spec b3 27) as [->|]; [|reflexivity].
  exfalso. apply H. reflexivity.
Qed.

Lemma esc_27s_other c b r :
  (c <= 3)%nat -> b <> 27 -> esc (repeat 27 c ++ b :: r) = repeat 27 c ++ b :: esc r.
Proof.
  intros Hc Hb.
  assert (E0 : esc (b :: r) = b :: esc r).
  { apply esc_cons_ne. cbn [firstn]. intros H. inversion H. congruence. }
  destruct c as [|[|[|[|c]]]]; try lia; cbn [repeat app].
  - exact E0.
  - rewrite esc_cons_ne, E0; [reflexivity|].
    cbn [firstn]. intros H. inversion H. congruence.
  - rewrite esc_cons_ne. 2:{ cbn [firstn]. intros H. inversion H. congruence. }
    rewrite esc_cons_ne. 2:{ cbn [firstn]. intros H. inversion H. congruence. }
    rewrite E0. reflexivity.
  - rewrite esc_cons_ne. 2:{ cbn [firstn]. intros H. inversion H. congruence. }
    rewrite esc_cons_ne. 2:{ cbn [firstn]. intros H. inversion H. congruence. }
    rewrite esc_cons_ne. 2:{ cbn [firstn]. intros H. inversion H. congruence. }
    rewrite E0. reflexivity.
Qed.

Lemma esc_27s c : (c <= 3)%nat -> esc (repeat 27 c) = repeat 27 c.
Proof.
  intros Hc. destruct c as [|[|[|[|c]]]]; try lia; reflexivity.
Qed.

Lemma esc_enc_from p : forall c : nat,
  (c <= 3)%nat -> esc (repeat 27 c ++ p) = repeat 27 c ++ enc_from (N.of_nat c) p.
Proof.
  induction p as [|b r IH]; intros c Hc.
  - rewrite app_nil_r. cbn [enc_from]. rewrite app_nil_r. apply esc_27s; assumption.
  - cbn [enc_from].
    destruct (N.eqb_spec b 27) as [->|Hb].
    + destruct (N.eqb_spec (N.of_nat c + 1) 4) as [E4|N4].
      * assert (c = 3%nat) by lia. subst c.
        change (repeat 27 3 ++ 27 :: r) with (27 :: 27 :: 27 :: 27 :: r).
        rewrite esc_four. specialize (IH 0%nat ltac:(lia)). cbn [repeat app N.of_nat] in IH.
        rewrite IH. reflexivity.
      * replace (repeat 27 c ++ 27 :: r) with (repeat 27 (S c) ++ r)
          by (rewrite <- repeat_snoc, <- app_assoc; reflexivity).
        rewrite (IH (S c)) by lia.
        rewrite <- repeat_snoc, <- app_assoc. cbn [app].
        replace (N.of_nat (S c)) with (N.of_nat c + 1) by lia. reflexivity.
    + rewrite esc_27s_other by assumption.
      specialize (IH 0%nat ltac:(lia)). cbn [repeat app N.of_nat] in IH.
      destruct (N.eqb_spec 0 4); [lia|]. rewrite IH. reflexivity.
Qed.

Theorem enc_fold_esc p : fst (enc_fold p) = esc p.
Proof.
  rewrite enc_fold_from. cbn [fst].
  pose proof (esc_enc_from p 0%nat ltac:(lia)) as H. cbn [repeat app N.of_nat] in H.
  symmetry. exact H.
Qed.

Lemma esc_as_enc_from p : esc p = enc_from 0 p.
Proof. rewrite <- enc_fold_esc, enc_fold_from. reflexivity. Qed.

(* the frame written with the encoder's loop; equal to the specification's [frame] *)
Definition frame_enc (m : list byte) : list byte :=
  let body := fst (enc_fold m) in
  let pad := pad_of (length body) in
  let pre := start_seq ++ body ++ repeat 0 pad ++ [27;27;27;27;26; N.of_nat pad] in
  let c := crc16 pre in
  pre ++ [N.land c 255; N.shiftr c 8].

Lemma frame_enc_frame m : frame_enc m = frame m.
Proof. unfold frame_enc, frame. rewrite enc_fold_esc. reflexivity. Qed.
