(* Size of a frame: a multiple of four, between |p| + 16 and 2|p| + 19 bytes - what a caller of the
   buffer encoder needs to dimension its ArrayBuf (C07: encode::<ArrayBuf<N>> succeeds iff N >= |frame p|). *)
Require Import Sml.Base.Prelude Sml.Base.Crc Sml.Spec.Frame.

Lemma esc_unfold4 b0 b1 b2 b3 r4 :
  esc (b0 :: b1 :: b2 :: b3 :: r4) =
  if (b0 =? 27) && (b1 =? 27) && (b2 =? 27) && (b3 =? 27)
  then [27;27;27;27;27;27;27;27] ++ esc r4 else b0 :: esc (b1 :: b2 :: b3 :: r4).
Proof. reflexivity. Qed.

Lemma esc_length_bounds : forall n (p : list byte), (length p <= n)%nat ->
  (length p <= length (esc p) <= 2 * length p)%nat.
Proof.
  induction n as [|n IH]; intros p Hn.
  - destruct p; [cbn; lia|cbn in Hn; lia].
  - destruct p as [|b0 r]; [cbn; lia|].
    destruct r as [|b1 [|b2 [|b3 r4]]].
    + cbn. lia.
    + cbn. lia.
    + cbn. lia.
    + rewrite esc_unfold4. destruct ((b0 =? 27) && (b1 =? 27) && (b2 =? 27) && (b3 =? 27)).
      * cbn [app length]. cbn [length] in Hn. specialize (IH r4 ltac:(lia)). lia.
      * cbn [length] in Hn. specialize (IH (b1 :: b2 :: b3 :: r4) ltac:(cbn [length]; lia)).
        cbn [length] in *. lia.
Qed.

Theorem frame_length (p : list byte) :
  length (frame p) = (length (esc p) + pad_of (length (esc p)) + 16)%nat /\
  (Nat.modulo (length (frame p)) 4 = 0)%nat /\
  (length p + 16 <= length (frame p) <= 2 * length p + 19)%nat.
Proof.
  pose proof (esc_length_bounds (length p) p (le_n _)) as B.
  assert (L : length (frame p) = (length (esc p) + pad_of (length (esc p)) + 16)%nat).
  { unfold frame. rewrite !app_length, repeat_length. cbn [length start_seq]. lia. }
  assert (Hp : (pad_of (length (esc p)) <= 3)%nat).
  { unfold pad_of. pose proof (Nat.mod_upper_bound (4 - length (esc p) mod 4) 4). lia. }
  split; [exact L|]. split; [|lia].
  rewrite L. unfold pad_of.
  set (n := length (esc p)).
  pose proof (Nat.div_mod n 4 ltac:(lia)) as D.
  pose proof (Nat.mod_upper_bound n 4 ltac:(lia)) as U.
  destruct (Nat.eq_dec (n mod 4) 0) as [E|E].
  - rewrite E. replace (4 - 0)%nat with 4%nat by lia. rewrite Nat.mod_same by lia.
    replace (n + 0 + 16)%nat with ((n / 4 + 4) * 4)%nat by lia. apply Nat.mod_mul. lia.
  - rewrite (Nat.mod_small (4 - n mod 4) 4) by lia.
    replace (n + (4 - n mod 4) + 16)%nat with ((n / 4 + 5) * 4)%nat by lia.
    apply Nat.mod_mul. lia.
Qed.
