(* C01 / C16: feeding the canonical frame of p to a decoder whose buffer holds |p| bytes
   yields exactly p at the last byte.  Forward simulation along the encoder's loop. *)
Require Import Sml.Base.Prelude Sml.Base.Crc Sml.Spec.Frame Sml.Model.Decode.
Require Import Sml.Proofs.DecodeInv Sml.Proofs.EncFold Sml.Proofs.DecodeGuard.

(* ---------- capacity ---------- *)
Definition cap_ok (cap : cap_t) (n : nat) : Prop :=
  match cap with None => True | Some c => (n <= c)%nat end.

Lemma cap_ok_le cap a b : (a <= b)%nat -> cap_ok cap b -> cap_ok cap a.
Proof. destruct cap; cbn; lia. Qed.

Definition dlen (d : dec) : nat := (length (rbuf d) + N.to_nat (zc d))%nat.

Lemma data_length d : length (data d) = dlen d.
Proof. unfold data, dlen. rewrite app_length, rev_length, repeat_length. reflexivity. Qed.

Lemma push_inner_ok cap d b :
  cap_ok cap (S (length (rbuf d))) ->
  push_inner cap d b = Some (mkdec (raw d) (crc d) (st d) (zc d) (b :: rbuf d)).
Proof.
  intros H. unfold push_inner, fits. destruct cap as [c|]; [|reflexivity].
  cbn in H. destruct (Nat.ltb_spec (length (rbuf d)) c); [reflexivity|lia].
Qed.

Lemma flush_n_ok cap : forall n d,
  cap_ok cap (length (rbuf d) + n) -> exists d', flush_n cap n d = Some d'.
Proof.
  induction n as [|n IH]; intros d H; cbn [flush_n]; [eexists; reflexivity|].
  rewrite push_inner_ok by (eapply cap_ok_le; [|exact H]; lia).
  apply IH. cbn [rbuf length]. eapply cap_ok_le; [|exact H]. lia.
Qed.

Lemma flush_ok cap d : cap_ok cap (dlen d) -> exists d', flush cap d = Some d'.
Proof.
  intros H. unfold flush. destruct (flush_n_ok cap (N.to_nat (zc d)) d H) as [d1 E]. rewrite E. eexists; reflexivity.
Qed.

Lemma push_ok cap d b :
  zc d <= 4 ->
  (b <> 0 -> cap_ok cap (S (dlen d))) ->
  (b = 0 -> zc d = 4 -> cap_ok cap (S (length (rbuf d)))) ->
  exists d', push cap d b = Some d'.
Proof.
  intros Hz Hnz Hzero. unfold push.
  destruct (N.eqb_spec b 0) as [->|Hb].
  - destruct (N.leb_spec (zc d) 3); [eexists; reflexivity|].
    rewrite push_inner_ok by (apply Hzero; [reflexivity|lia]). eexists; reflexivity.
  - specialize (Hnz Hb).
    destruct (flush_ok cap d) as [d1 E]; [eapply cap_ok_le; [|exact Hnz]; lia|].
    rewrite E. pose proof (flush_spec cap d d1 E) as (Fb & Fz & _).
    rewrite push_inner_ok; [eexists; reflexivity|].
    eapply cap_ok_le; [|exact Hnz].
    assert (length (rbuf d1) = dlen d).
    { rewrite <- (rev_length (rbuf d1)), Fb. apply data_length. }
    lia.
Qed.

Lemma push_many_ok cap : forall bs d,
  zc d <= 4 -> cap_ok cap (dlen d + length bs) ->
  exists d', push_many cap d bs = Some d'.
Proof.
  induction bs as [|b r IH]; intros d Hz Hc; cbn [push_many]; [eexists; reflexivity|].
  destruct (push_ok cap d b Hz) as [d1 E].
  - intros _. eapply cap_ok_le; [|exact Hc]. cbn [length]. lia.
  - intros _ _. eapply cap_ok_le; [|exact Hc]. unfold dlen. cbn [length]. lia.
  - rewrite E. pose proof (push_spec cap d b d1 Hz E) as (Ed & _ & _ & _ & Ez).
    apply IH; [exact Ez|].
    rewrite <- data_length, Ed, app_length, data_length. cbn [length] in *.
    eapply cap_ok_le; [|exact Hc]. lia.
Qed.

(* ---------- quiet runs: every step returns Ok(None) ---------- *)
Fixpoint feed (cap : cap_t) (d : dec) (bs : list byte) : option dec :=
  match bs with
  | [] => Some d
  | b :: r => match step cap d b with
              | (d', ONone) => feed cap d' r
              | _ => None
              end
  end.

Lemma feed_app cap : forall a b d d1,
  feed cap d a = Some d1 -> feed cap d (a ++ b) = feed cap d1 b.
Proof.
  induction a as [|x r IH]; intros b d d1 H; cbn [feed app] in *.
  - inversion H; subst. reflexivity.
  - destruct (step cap d x) as [d' o]. destruct o; try discriminate. eapply IH; exact H.
Qed.

Lemma run_feed cap : forall bs d d',
  feed cap d bs = Some d' -> run cap d bs = (d', map (fun _ => (ONone, [])) bs).
Proof.
  induction bs as [|b r IH]; intros d d' H; cbn [feed run map] in *.
  - inversion H; subst. reflexivity.
  - destruct (step cap d b) as [d1 o]. destruct o; try discriminate.
    rewrite (IH d1 d' H). reflexivity.
Qed.

Lemma run_app cap : forall a b d,
  run cap d (a ++ b) =
  (fst (run cap (fst (run cap d a)) b), snd (run cap d a) ++ snd (run cap (fst (run cap d a)) b)).
Proof.
  induction a as [|x r IH]; intros b d; cbn [app run].
  - cbn [fst snd app]. destruct (run cap d b); reflexivity.
  - destruct (step cap d x) as [d1 o]. rewrite IH.
    destruct (run cap d1 r) as [d2 os]. cbn [fst snd].
    destruct (run cap d2 b) as [d3 os2]. cbn [fst snd app]. reflexivity.
Qed.

(* ---------- the decoder inside the body of a frame ---------- *)
(* [c] = number of trailing 0x1b bytes held back in state ParsingEscChars *)
Definition Body (c : nat) (d : dec) : Prop :=
  zc d <= 4 /\
  match c with
  | O => st d = Normal
  | _ => st d = EscChars (N.of_nat c) /\ (c <= 3)%nat
  end.

(* one data byte [b] of the payload = 1 or 5 wire bytes *)
Lemma body_step_other cap c d b :
  Body c d -> b <> 27 -> (c <= 3)%nat -> cap_ok cap (dlen d + c + 1) ->
  exists d1, step cap d b = (d1, ONone) /\ Body 0 d1 /\
             data d1 = data d ++ repeat 27 c ++ [b] /\ raw d1 = raw d + 1 /\
             crc d1 = crc_update (crc d) [b].
Proof.
  intros [Hz Hs] Hb Hc Hcap. unfold step.
  destruct c as [|c'].
  - (* Normal *)
    rewrite Hs. cbn [st raw crc zc rbuf]. rewrite Hs.
    destruct (N.eqb_spec b 27); [contradiction|].
    set (dd := upd_crc (mkdec (raw d + 1) (crc d) Normal (zc d) (rbuf d)) [b]).
    assert (Hzd : zc dd <= 4) by exact Hz.
    destruct (push_ok cap dd b Hzd) as [d1 E].
    + intros _. unfold dlen in *. cbn [rbuf zc upd_crc dd]. eapply cap_ok_le; [|exact Hcap]. lia.
    + intros ->. intros Hz4. unfold dlen in *. cbn [rbuf zc upd_crc dd]. eapply cap_ok_le; [|exact Hcap]. lia.
    + rewrite E. pose proof (push_spec cap dd b d1 Hzd E) as (Ed & Er & Ec & Es & Ez).
      exists d1. split; [reflexivity|]. split; [split; [exact Ez|exact Es]|].
      cbn [repeat app]. repeat split; assumption.
  - (* EscChars *)
    destruct Hs as [Hs Hc3]. rewrite Hs. cbn [st raw crc zc rbuf]. rewrite Hs.
    destruct (N.eqb_spec b 27); [contradiction|]. cbn [negb].
    rewrite Nat2N.id.
    set (dd := upd_crc (mkdec (raw d + 1) (crc d) (EscChars (N.of_nat (S c'))) (zc d) (rbuf d)) [b]).
    assert (Hzd : zc dd <= 4) by exact Hz.
    destruct (push_many_ok cap (repeat 27 (S c') ++ [b]) dd Hzd) as [d1 E].
    + unfold dlen in *. cbn [rbuf zc upd_crc dd]. rewrite app_length, repeat_length. cbn [length].
      eapply cap_ok_le; [|exact Hcap]. lia.
    + rewrite E. pose proof (push_many_spec cap _ dd d1 Hzd E) as (Ed & Er & Ec & Es & Ez).
      exists (set_st d1 Normal). split; [reflexivity|]. split; [split; [exact Ez|reflexivity]|].
      rewrite data_set_st. repeat split; assumption.
Qed.

Lemma body_step_27 cap c d :
  Body c d -> (c < 3)%nat ->
  exists d1, step cap d 27 = (d1, ONone) /\ Body (S c) d1 /\
             data d1 = data d /\ raw d1 = raw d + 1 /\ crc d1 = crc_update (crc d) [27].
Proof.
  intros [Hz Hs] Hc. unfold step.
  destruct c as [|c'].
  - rewrite Hs. cbn [st raw crc zc rbuf]. rewrite Hs.
    destruct (N.eqb_spec 27 27); [|congruence].
    eexists. split; [reflexivity|]. split; [split; [exact Hz|split; [reflexivity|lia]]|].
    repeat split; reflexivity.
  - destruct Hs as [Hs Hc3]. rewrite Hs. cbn [st raw crc zc rbuf]. rewrite Hs.
    destruct (N.eqb_spec 27 27); [|congruence]. cbn [negb].
    destruct (N.eqb_spec (N.of_nat (S c')) 3); [lia|].
    destruct (N.leb_spec 255 (N.of_nat (S c'))); [lia|].
    eexists. split; [reflexivity|]. split.
    + split; [exact Hz|]. split; [|lia]. cbn [st set_st]. f_equal. lia.
    + repeat split; reflexivity.
Qed.

(* single steps in the escape states, in closed form *)
Lemma step_escchars_27 cap d n :
  st d = EscChars n -> n = 3 ->
  step cap d 27 = (mkdec (raw d + 1) (crc_update (crc d) [27]) (EscPayload 0 [0;0;0;0]) (zc d) (rbuf d), ONone).
Proof.
  intros Hs ->. unfold step. rewrite Hs. cbn [st raw crc zc rbuf]. rewrite Hs.
  destruct (N.eqb_spec 27 27); [|congruence]. cbn [negb].
  destruct (N.eqb_spec 3 3); [|lia]. reflexivity.
Qed.

Lemma step_pay_partial cap d k pl b :
  st d = EscPayload k pl -> k < 3 ->
  step cap d b = (mkdec (raw d + 1) (crc d) (EscPayload (k + 1) (set_nth pl (N.to_nat k) b)) (zc d) (rbuf d), ONone).
Proof.
  intros Hs Hk. unfold step. rewrite Hs. cbn [st raw crc zc rbuf]. rewrite Hs.
  destruct (N.ltb_spec 3 k); [lia|]. destruct (N.ltb_spec k 3); [|lia]. reflexivity.
Qed.

Lemma step_pay_full cap d pl b :
  st d = EscPayload 3 pl ->
  step cap d b = step_payload_full cap (mkdec (raw d + 1) (crc d) (EscPayload 3 pl) (zc d) (rbuf d)) (set_nth pl 3 b).
Proof.
  intros Hs. unfold step. rewrite Hs. cbn [st raw crc zc rbuf]. rewrite Hs.
  destruct (N.ltb_spec 3 3); [lia|]. reflexivity.
Qed.

(* the fourth 0x1b of a run: 1b (completing the escape) followed by the doubled 1b1b1b1b *)
Lemma body_step_escape cap d :
  Body 3 d -> cap_ok cap (dlen d + 4) ->
  exists d1, feed cap d [27;27;27;27;27] = Some d1 /\ Body 0 d1 /\
             data d1 = data d ++ [27;27;27;27] /\ raw d1 = raw d + 5 /\
             crc d1 = crc_update (crc d) [27;27;27;27;27].
Proof.
  intros [Hz [Hs _]] Hcap.
  set (dd := upd_crc (mkdec (raw d + 1 + 1 + 1 + 1 + 1) (crc_update (crc d) [27]) (EscPayload 3 [27;27;27;0]) (zc d) (rbuf d)) [27;27;27;27]).
  assert (Hzd : zc dd <= 4) by exact Hz.
  destruct (push_many_ok cap [27;27;27;27] dd Hzd) as [d1 E].
  { unfold dlen in *. cbn [rbuf zc upd_crc length dd]. eapply cap_ok_le; [|exact Hcap]. lia. }
  pose proof (push_many_spec cap _ dd d1 Hzd E) as (Ed & Er & Ec & Es & Ez).
  exists (set_st d1 Normal).
  split.
  - cbn [feed].
    rewrite (step_escchars_27 cap d (N.of_nat 3) Hs eq_refl).
    erewrite step_pay_partial; [|reflexivity|lia]. cbn [raw crc zc rbuf].
    erewrite step_pay_partial; [|reflexivity|lia]. cbn [raw crc zc rbuf].
    erewrite step_pay_partial; [|reflexivity|lia]. cbn [raw crc zc rbuf].
    erewrite step_pay_full; [|reflexivity]. cbn [raw crc zc rbuf].
    norm_nat. cbn [set_nth firstn skipn app].
    unfold step_payload_full. cbn [all27 forallb]. rewrite !N.eqb_refl. cbn [andb].
    fold dd. rewrite E. reflexivity.
  - split; [split; [exact Ez|reflexivity]|].
    rewrite data_set_st. cbn [set_st raw crc].
    repeat split.
    + rewrite Ed. reflexivity.
    + rewrite Er. cbn [raw upd_crc dd]. lia.
    + rewrite Ec. cbn [crc upd_crc dd]. rewrite <- crc_update_app. reflexivity.
Qed.

(* the whole (escaped) payload *)
Theorem body_sim cap : forall x c d,
  Body c d -> (c <= 3)%nat -> cap_ok cap (dlen d + c + length x) ->
  exists d1, feed cap d (enc_from (N.of_nat c) x) = Some d1 /\
             Body (N.to_nat (cnt_from (N.of_nat c) x)) d1 /\ (cnt_from (N.of_nat c) x <= 3) /\
             data d1 ++ repeat 27 (N.to_nat (cnt_from (N.of_nat c) x)) = data d ++ repeat 27 c ++ x /\
             raw d1 = raw d + lenN (enc_from (N.of_nat c) x) /\
             crc d1 = crc_update (crc d) (enc_from (N.of_nat c) x).
Proof.
  induction x as [|b r IH]; intros c d HB Hc Hcap.
  - cbn [enc_from cnt_from feed]. exists d. rewrite Nat2N.id, app_nil_r.
    split; [reflexivity|]. split; [exact HB|]. split; [lia|]. split; [reflexivity|].
    split; [unfold lenN; cbn [length]; lia|reflexivity].
  - cbn [enc_from cnt_from].
    destruct (N.eqb_spec b 27) as [->|Hb].
    + destruct (N.eqb_spec (N.of_nat c + 1) 4) as [E4|N4].
      * (* fourth 0x1b: escape *)
        assert (c = 3%nat) by lia. subst c.
        destruct (body_step_escape cap d HB) as (d1 & F1 & B1 & D1 & R1 & C1).
        { eapply cap_ok_le; [|exact Hcap]. cbn [length]. lia. }
        destruct (IH 0%nat d1 B1 ltac:(lia)) as (d2 & F2 & B2 & L2 & D2 & R2 & C2).
        { rewrite <- data_length, D1, app_length, data_length. cbn [length] in *.
          eapply cap_ok_le; [|exact Hcap]. lia. }
        cbn [N.of_nat] in *.
        exists d2. split.
        { change (27 :: 27 :: 27 :: 27 :: 27 :: enc_from 0 r) with ([27;27;27;27;27] ++ enc_from 0 r).
          rewrite (feed_app cap _ _ d d1 F1). exact F2. }
        split; [exact B2|]. split; [exact L2|].
        split; [rewrite D2, D1; cbn [repeat app]; rewrite <- !app_assoc; reflexivity|].
        split; [rewrite R2, R1; rewrite !lenN_cons; lia|].
        rewrite C2, C1. rewrite <- crc_update_app. reflexivity.
      * (* one more 0x1b held back *)
        destruct (body_step_27 cap c d HB ltac:(lia)) as (d1 & S1 & B1 & D1 & R1 & C1).
        destruct (IH (S c) d1 B1 ltac:(lia)) as (d2 & F2 & B2 & L2 & D2 & R2 & C2).
        { unfold dlen in *. assert (length (data d1) = length (data d)) by (rewrite D1; reflexivity).
          rewrite !data_length in H. unfold dlen in H. eapply cap_ok_le; [|exact Hcap]. cbn [length]. lia. }
        replace (N.of_nat (S c)) with (N.of_nat c + 1) in * by lia.
        exists d2. split; [cbn [feed]; rewrite S1; exact F2|].
        split; [exact B2|]. split; [exact L2|].
        split; [rewrite D2, D1; rewrite <- repeat_snoc, <- !app_assoc; reflexivity|].
        split; [rewrite R2, R1, lenN_cons; lia|].
        rewrite C2, C1. rewrite <- crc_update_app. reflexivity.
    + (* an ordinary byte *)
      destruct (N.eqb_spec 0 4); [lia|].
      destruct (body_step_other cap c d b HB Hb Hc) as (d1 & S1 & B1 & D1 & R1 & C1).
      { eapply cap_ok_le; [|exact Hcap]. cbn [length]. lia. }
      destruct (IH 0%nat d1 B1 ltac:(lia)) as (d2 & F2 & B2 & L2 & D2 & R2 & C2).
      { rewrite <- data_length, D1, !app_length, repeat_length, data_length. cbn [length] in *.
        eapply cap_ok_le; [|exact Hcap]. lia. }
      cbn [N.of_nat] in *.
      exists d2. split; [cbn [feed]; rewrite S1; exact F2|].
      split; [exact B2|]. split; [exact L2|].
      split; [rewrite D2, D1; cbn [repeat app]; rewrite <- !app_assoc; reflexivity|].
      split; [rewrite R2, R1, lenN_cons; lia|].
      rewrite C2, C1. rewrite <- crc_update_app. reflexivity.
Qed.

(* ---------- padding zeros ---------- *)
Lemma push_many_app cap : forall a b d,
  push_many cap d (a ++ b) =
  match push_many cap d a with Some d1 => push_many cap d1 b | None => None end.
Proof.
  induction a as [|x r IH]; intros b d; cbn [app push_many]; [reflexivity|].
  destruct (push cap d x); [apply IH|reflexivity].
Qed.

Lemma push_nz_zc cap d b d' : b <> 0 -> push cap d b = Some d' -> zc d' = 0.
Proof.
  intros Hb H. unfold push in H. destruct (N.eqb_spec b 0); [contradiction|].
  destruct (flush cap d) as [d1|] eqn:E; [|discriminate].
  apply flush_spec in E. destruct E as (_ & Fz & _).
  apply push_inner_spec in H. destruct H as (_ & _ & _ & _ & Hz). congruence.
Qed.

Lemma push_many_27s_zc cap : forall c d d',
  (1 <= c)%nat -> push_many cap d (repeat 27 c) = Some d' -> zc d' = 0.
Proof.
  induction c as [|c IH]; intros d d' Hc H; [lia|].
  cbn [repeat push_many] in H. destruct (push cap d 27) as [d1|] eqn:E; [|discriminate].
  destruct c as [|c'].
  - cbn [repeat push_many] in H. inversion H; subst. eapply push_nz_zc; [|exact E]. lia.
  - eapply IH; [lia|exact H].
Qed.

(* the first padding zero when 0x1b bytes are held back *)
Lemma body_step_zero_after_27s cap c d :
  Body c d -> (1 <= c <= 3)%nat -> cap_ok cap (dlen d + c) ->
  exists d1, step cap d 0 = (d1, ONone) /\ st d1 = Normal /\ zc d1 = 1 /\
             data d1 = data d ++ repeat 27 c ++ [0] /\ raw d1 = raw d + 1 /\
             crc d1 = crc_update (crc d) [0].
Proof.
  intros [Hz Hs] Hc Hcap. destruct c as [|c']; [lia|]. destruct Hs as [Hs _].
  unfold step. rewrite Hs. cbn [st raw crc zc rbuf]. rewrite Hs.
  destruct (N.eqb_spec 0 27); [lia|]. cbn [negb]. rewrite Nat2N.id.
  set (dd := upd_crc (mkdec (raw d + 1) (crc d) (EscChars (N.of_nat (S c'))) (zc d) (rbuf d)) [0]).
  assert (Hzd : zc dd <= 4) by exact Hz.
  destruct (push_many_ok cap (repeat 27 (S c')) dd Hzd) as [d1 E1].
  { unfold dlen in *. cbn [rbuf zc upd_crc dd]. rewrite repeat_length. exact Hcap. }
  pose proof (push_many_spec cap _ dd d1 Hzd E1) as (Ed & Er & Ec & Es & Ez).
  pose proof (push_many_27s_zc cap (S c') dd d1 ltac:(lia) E1) as Hz1.
  assert (E2 : push cap d1 0 = Some (mkdec (raw d1) (crc d1) (st d1) (zc d1 + 1) (rbuf d1))).
  { unfold push. rewrite N.eqb_refl. rewrite Hz1. reflexivity. }
  pose proof (push_spec cap d1 0 _ Ez E2) as (Ed2 & _).
  rewrite push_many_app, E1. cbn [push_many]. rewrite E2.
  eexists. split; [reflexivity|]. cbn [set_st st zc raw crc].
  split; [reflexivity|]. split; [rewrite Hz1; reflexivity|].
  split.
  - rewrite data_set_st, Ed2, Ed. unfold dd. rewrite data_upd_crc, data_mk. fold (data d).
    rewrite <- !app_assoc. reflexivity.
  - split; [rewrite Er; reflexivity|rewrite Ec; reflexivity].
Qed.

(* a padding zero in state Normal: withheld, or written if four are already withheld *)
Lemma zero_step cap d i :
  st d = Normal -> N.of_nat i <= zc d -> zc d <= 4 -> (i <= 2)%nat -> cap_ok cap (dlen d - i) ->
  exists d1, step cap d 0 = (d1, ONone) /\ st d1 = Normal /\ N.of_nat (S i) <= zc d1 /\ zc d1 <= 4 /\
             cap_ok cap (dlen d1 - S i) /\
             data d1 = data d ++ [0] /\ raw d1 = raw d + 1 /\ crc d1 = crc_update (crc d) [0].
Proof.
  intros Hs Hi Hz Hi2 Hcap. unfold step. rewrite Hs. cbn [st raw crc zc rbuf]. rewrite Hs.
  destruct (N.eqb_spec 0 27); [lia|].
  set (dd := upd_crc (mkdec (raw d + 1) (crc d) Normal (zc d) (rbuf d)) [0]).
  assert (Hzd : zc dd <= 4) by exact Hz.
  destruct (push_ok cap dd 0 Hzd) as [d1 E].
  - intros H; congruence.
  - intros _ Hz4. cbn [dd upd_crc zc rbuf] in *. unfold dlen in Hcap.
    eapply cap_ok_le; [|exact Hcap]. lia.
  - rewrite E. pose proof (push_spec cap dd 0 d1 Hzd E) as (Ed & Er & Ec & Es & Ez).
    exists d1. split; [reflexivity|]. split; [exact Es|].
    assert (Hzc : zc d1 = if zc d <=? 3 then zc d + 1 else zc d).
    { unfold push in E. cbn [N.eqb] in E. rewrite N.eqb_refl in E. cbn [dd upd_crc zc] in E.
      destruct (N.leb_spec (zc d) 3).
      - inversion E; subst. reflexivity.
      - apply push_inner_spec in E. destruct E as (_ & _ & _ & _ & Hzz). exact Hzz. }
    assert (Hdl : dlen d1 = S (dlen d)).
    { rewrite <- !data_length, Ed, app_length. cbn [length]. unfold dd, data. cbn [upd_crc rbuf zc]. lia. }
    split; [rewrite Hzc; destruct (N.leb_spec (zc d) 3); lia|].
    split; [exact Ez|].
    split; [rewrite Hdl; eapply cap_ok_le; [|exact Hcap]; lia|].
    split; [exact Ed|]. split; [rewrite Er; reflexivity|rewrite Ec; reflexivity].
Qed.

Lemma zeros_sim cap : forall j i d,
  st d = Normal -> N.of_nat i <= zc d -> zc d <= 4 -> (i + j <= 3)%nat -> cap_ok cap (dlen d - i) ->
  exists d1, feed cap d (repeat 0 j) = Some d1 /\ st d1 = Normal /\ N.of_nat (i + j) <= zc d1 /\ zc d1 <= 4 /\
             cap_ok cap (dlen d1 - (i + j)) /\
             data d1 = data d ++ repeat 0 j /\ raw d1 = raw d + N.of_nat j /\
             crc d1 = crc_update (crc d) (repeat 0 j).
Proof.
  induction j as [|j IH]; intros i d Hs Hi Hz Hij Hcap.
  - exists d. cbn [repeat feed]. rewrite Nat.add_0_r, app_nil_r.
    repeat split; try assumption; try lia.
  - destruct (zero_step cap d i Hs Hi Hz ltac:(lia) Hcap) as (d1 & S1 & Hs1 & Hi1 & Hz1 & Hc1 & D1 & R1 & C1).
    destruct (IH (S i) d1 Hs1 Hi1 Hz1 ltac:(lia) Hc1) as (d2 & F2 & Hs2 & Hi2 & Hz2 & Hc2 & D2 & R2 & C2).
    exists d2. cbn [repeat feed]. rewrite S1.
    replace (i + S j)%nat with (S i + j)%nat by lia.
    repeat split; try assumption.
    + rewrite D2, D1, <- app_assoc. reflexivity.
    + rewrite R2, R1. lia.
    + rewrite C2, C1, <- crc_update_app. reflexivity.
Qed.

(* ---------- the end sequence ---------- *)
Lemma accept_step cap d pl pad c1 c2 m :
  st d = EscPayload 3 pl -> set_nth pl 3 c2 = [26; pad; c1; c2] ->
  zc d <= 4 -> pad <= zc d -> pad <= 3 ->
  (raw d + 1) mod 4 = 0 -> pad + 16 <= raw d + 1 ->
  c1 + 256 * c2 = crc_finalize (crc_update (crc d) [26; pad]) ->
  data d = m ++ repeat 0 (N.to_nat pad) -> cap_ok cap (length m) ->
  exists d', step cap d c2 = (d', OMsg) /\ st d' = Done /\ rev (rbuf d') = m.
Proof.
  intros Hs Hpl Hz Hpz Hp3 Hal Hlen Hcrc Hdata Hcap.
  rewrite (step_pay_full cap d pl c2 Hs). rewrite Hpl.
  unfold step_payload_full. cbn [all27 forallb nth].
  destruct (N.eqb_spec 26 27); [lia|]. cbn [andb].
  destruct (N.eqb_spec 26 1); [lia|]. cbn [andb].
  destruct (N.eqb_spec 26 26); [|lia].
  cbn [raw crc zc rbuf st].
  rewrite Hcrc. rewrite N.eqb_refl. cbn [negb orb].
  rewrite Hal. rewrite N.eqb_refl. cbn [negb orb].
  destruct (N.ltb_spec 3 pad); [lia|]. cbn [orb].
  destruct (N.ltb_spec (raw d + 1) (pad + 16)); [lia|]. cbn [orb].
  destruct (N.ltb_spec (zc d) pad); [lia|].
  set (dd := mkdec (raw d + 1) crc_init (EscPayload 3 pl) (zc d - pad) (rbuf d)).
  assert (Hm : rev (rbuf d) ++ repeat 0 (N.to_nat (zc d - pad)) = m).
  { unfold data in Hdata.
    replace (N.to_nat (zc d)) with (N.to_nat (zc d - pad) + N.to_nat pad)%nat in Hdata by lia.
    rewrite repeat_app, app_assoc in Hdata. apply app_inv_tail in Hdata. exact Hdata. }
  destruct (flush_ok cap dd) as [d1 E].
  { unfold dlen, dd. cbn [rbuf zc]. rewrite <- Hm in Hcap.
    rewrite app_length, rev_length, repeat_length in Hcap. exact Hcap. }
  rewrite E. apply flush_spec in E. destruct E as (Fb & _).
  exists (set_st d1 Done). split; [reflexivity|]. split; [reflexivity|].
  cbn [set_st rbuf]. rewrite Fb. unfold data, dd. cbn [rbuf zc]. exact Hm.
Qed.

(* end sequence arriving in state Normal (the body is aligned, padding included) *)
Lemma tail_normal cap d pad c1 c2 m :
  st d = Normal -> zc d <= 4 -> pad <= zc d -> pad <= 3 ->
  raw d mod 4 = 0 -> pad + 8 <= raw d ->
  c1 + 256 * c2 = crc_finalize (crc_update (crc d) [27;27;27;27;26;pad]) ->
  data d = m ++ repeat 0 (N.to_nat pad) -> cap_ok cap (length m) ->
  exists d6 d', feed cap d [27;27;27;27;26;pad;c1] = Some d6 /\
                step cap d6 c2 = (d', OMsg) /\ st d' = Done /\ rev (rbuf d') = m.
Proof.
  intros Hs Hz Hpz Hp3 Hal Hlen Hcrc Hdata Hcap.
  assert (S1 : step cap d 27 = (mkdec (raw d + 1) (crc_update (crc d) [27]) (EscChars 1) (zc d) (rbuf d), ONone)).
  { unfold step. rewrite Hs. cbn [st raw crc zc rbuf]. rewrite Hs. rewrite N.eqb_refl. reflexivity. }
  assert (S2 : forall dd n, st dd = EscChars n -> n < 3 ->
               step cap dd 27 = (mkdec (raw dd + 1) (crc_update (crc dd) [27]) (EscChars (n + 1)) (zc dd) (rbuf dd), ONone)).
  { intros dd n Hsd Hn. unfold step. rewrite Hsd. cbn [st raw crc zc rbuf]. rewrite Hsd.
    rewrite N.eqb_refl. cbn [negb]. destruct (N.eqb_spec n 3); [lia|]. destruct (N.leb_spec 255 n); [lia|]. reflexivity. }
  set (d6 := mkdec (raw d + 1 + 1 + 1 + 1 + 1 + 1 + 1)
                   (crc_update (crc_update (crc_update (crc_update (crc d) [27]) [27]) [27]) [27])
                   (EscPayload 3 [26; pad; c1; 0]) (zc d) (rbuf d)).
  assert (F : feed cap d [27;27;27;27;26;pad;c1] = Some d6).
  { cbn [feed]. rewrite S1.
    erewrite S2; [|reflexivity|lia]. cbn [raw crc zc rbuf].
    erewrite S2; [|reflexivity|lia]. cbn [raw crc zc rbuf].
    erewrite step_escchars_27; [|reflexivity|reflexivity]. cbn [raw crc zc rbuf].
    erewrite step_pay_partial; [|reflexivity|lia]. cbn [raw crc zc rbuf].
    erewrite step_pay_partial; [|reflexivity|lia]. cbn [raw crc zc rbuf].
    erewrite step_pay_partial; [|reflexivity|lia]. cbn [raw crc zc rbuf].
    norm_nat. cbn [set_nth firstn skipn app]. reflexivity. }
  assert (A : exists d', step cap d6 c2 = (d', OMsg) /\ st d' = Done /\ rev (rbuf d') = m).
  { apply (accept_step cap d6 [26; pad; c1; 0] pad c1 c2 m).
    - reflexivity.
    - reflexivity.
    - exact Hz.
    - exact Hpz.
    - exact Hp3.
    - cbn [d6 raw]. lia.
    - cbn [d6 raw]. lia.
    - cbn [d6 crc]. rewrite Hcrc. rewrite <- !crc_update_app. reflexivity.
    - exact Hdata.
    - exact Hcap. }
  destruct A as (d' & Sd & Hd & Hr).
  exists d6, d'. repeat split; assumption.
Qed.

(* end sequence arriving while 1-3 trailing 0x1b bytes are held back (no padding): the
   decoder first mistakes them for the escape, then re-aligns *)
Ltac lit :=
  repeat first
    [ rewrite N.eqb_refl
    | progress change (26 =? 27) with false | progress change (27 =? 26) with false
    | progress change (27 =? 1) with false | progress change (26 =? 1) with false
    | progress change (0 =? 27) with false | progress change (0 =? 26) with false ];
  cbn [andb orb negb].

Lemma esc_step_27 cap dd n :
  st dd = EscChars n -> n < 3 ->
  step cap dd 27 = (mkdec (raw dd + 1) (crc_update (crc dd) [27]) (EscChars (n + 1)) (zc dd) (rbuf dd), ONone).
Proof.
  intros Hsd Hn. unfold step. rewrite Hsd. cbn [st raw crc zc rbuf]. rewrite Hsd.
  rewrite N.eqb_refl. cbn [negb]. destruct (N.eqb_spec n 3); [lia|]. destruct (N.leb_spec 255 n); [lia|]. reflexivity.
Qed.

Lemma tail_esc cap c d c1 c2 m :
  Body c d -> (1 <= c <= 3)%nat ->
  raw d mod 4 = 0 -> 8 <= raw d ->
  c1 + 256 * c2 = crc_finalize (crc_update (crc d) [27;27;27;27;26;0]) ->
  data d ++ repeat 27 c = m -> cap_ok cap (length m) ->
  exists d6 d', feed cap d [27;27;27;27;26;0;c1] = Some d6 /\
                step cap d6 c2 = (d', OMsg) /\ st d' = Done /\ rev (rbuf d') = m.
Proof.
  intros [Hz Hs] Hc Hal H8 Hcrc Hdata Hcap.
  assert (Hcapd : cap_ok cap (dlen d + c)).
  { rewrite <- Hdata in Hcap. rewrite app_length, repeat_length, data_length in Hcap. exact Hcap. }
  destruct c as [|[|[|[|c]]]]; try lia; destruct Hs as [Hs _]; cbn [N.of_nat Pos.of_succ_nat Pos.succ] in Hs.
  - (* one 0x1b held back *)
    set (dr := upd_crc (mkdec (raw d + 1 + 1 + 1 + 1 + 1 + 1 + 1)
                 (crc_update (crc_update (crc_update (crc d) [27]) [27]) [27]) (EscPayload 3 [27;26;0;0]) (zc d) (rbuf d)) [27]).
    assert (Hzr : zc dr <= 4) by exact Hz.
    destruct (push_many_ok cap [27] dr Hzr) as [d1 E1].
    { unfold dlen in *. cbn [dr upd_crc rbuf zc length]. exact Hcapd. }
    pose proof (push_many_spec cap _ dr d1 Hzr E1) as (Ed & Er & Ec & Es & Ez).
    set (d6 := set_st d1 (EscPayload 3 [26;0;c1;c1])).
    assert (F : feed cap d [27;27;27;27;26;0;c1] = Some d6).
    { cbn [feed].
      erewrite esc_step_27; [|exact Hs|lia]. cbn [raw crc zc rbuf].
      erewrite esc_step_27; [|reflexivity|lia]. cbn [raw crc zc rbuf].
      erewrite step_escchars_27; [|reflexivity|reflexivity]. cbn [raw crc zc rbuf].
      erewrite step_pay_partial; [|reflexivity|lia]. cbn [raw crc zc rbuf].
      erewrite step_pay_partial; [|reflexivity|lia]. cbn [raw crc zc rbuf].
      erewrite step_pay_partial; [|reflexivity|lia]. cbn [raw crc zc rbuf].
      erewrite step_pay_full; [|reflexivity]. cbn [raw crc zc rbuf].
      norm_nat. cbn [set_nth firstn skipn app].
      unfold step_payload_full. cbn [all27 forallb nth raw]. lit.
      replace (N.to_nat ((4 - (raw d + 1 + 1 + 1 + 1 + 1 + 1 + 1) mod 4) mod 4)) with 1%nat by lia.
      cbn [Nat.ltb Nat.leb firstn all27 forallb nth repeat]. lit.
      fold dr. rewrite E1. cbn [skipn app Nat.sub N.of_nat]. reflexivity. }
    assert (A : exists d', step cap d6 c2 = (d', OMsg) /\ st d' = Done /\ rev (rbuf d') = m).
    { apply (accept_step cap d6 [26;0;c1;c1] 0 c1 c2 m).
      - reflexivity.
      - reflexivity.
      - exact Ez.
      - lia.
      - lia.
      - cbn [d6 set_st raw]. rewrite Er. cbn [dr upd_crc raw]. lia.
      - cbn [d6 set_st raw]. rewrite Er. cbn [dr upd_crc raw]. lia.
      - cbn [d6 set_st crc]. rewrite Ec. cbn [dr upd_crc crc]. rewrite Hcrc. rewrite <- !crc_update_app. reflexivity.
      - cbn [N.to_nat repeat]. rewrite app_nil_r. unfold d6. rewrite data_set_st, Ed.
        unfold dr. rewrite data_upd_crc, data_mk. fold (data d). exact Hdata.
      - exact Hcap. }
    destruct A as (d' & Sd & Hd & Hr).
    exists d6, d'. repeat split; assumption.
  - (* two 0x1b held back *)
    set (dr := upd_crc (mkdec (raw d + 1 + 1 + 1 + 1 + 1 + 1)
                 (crc_update (crc_update (crc d) [27]) [27]) (EscPayload 3 [27;27;26;0]) (zc d) (rbuf d)) [27;27]).
    assert (Hzr : zc dr <= 4) by exact Hz.
    destruct (push_many_ok cap [27;27] dr Hzr) as [d1 E1].
    { unfold dlen in *. cbn [dr upd_crc rbuf zc length]. exact Hcapd. }
    pose proof (push_many_spec cap _ dr d1 Hzr E1) as (Ed & Er & Ec & Es & Ez).
    set (d6 := mkdec (raw d1 + 1) (crc d1) (EscPayload 3 [26;0;c1;0]) (zc d1) (rbuf d1)).
    assert (F : feed cap d [27;27;27;27;26;0;c1] = Some d6).
    { cbn [feed].
      erewrite esc_step_27; [|exact Hs|lia]. cbn [raw crc zc rbuf].
      erewrite step_escchars_27; [|reflexivity|reflexivity]. cbn [raw crc zc rbuf].
      erewrite step_pay_partial; [|reflexivity|lia]. cbn [raw crc zc rbuf].
      erewrite step_pay_partial; [|reflexivity|lia]. cbn [raw crc zc rbuf].
      erewrite step_pay_partial; [|reflexivity|lia]. cbn [raw crc zc rbuf].
      erewrite step_pay_full; [|reflexivity]. cbn [raw crc zc rbuf].
      norm_nat. cbn [set_nth firstn skipn app].
      unfold step_payload_full. cbn [all27 forallb nth raw]. lit.
      replace (N.to_nat ((4 - (raw d + 1 + 1 + 1 + 1 + 1 + 1) mod 4) mod 4)) with 2%nat by lia.
      cbn [Nat.ltb Nat.leb firstn all27 forallb nth repeat]. lit.
      fold dr. rewrite E1. cbn [skipn app Nat.sub N.of_nat].
      erewrite step_pay_partial; [|reflexivity|lia]. cbn [set_st raw crc zc rbuf].
      norm_nat. cbn [set_nth firstn skipn app]. reflexivity. }
    assert (A : exists d', step cap d6 c2 = (d', OMsg) /\ st d' = Done /\ rev (rbuf d') = m).
    { apply (accept_step cap d6 [26;0;c1;0] 0 c1 c2 m).
      - reflexivity.
      - reflexivity.
      - exact Ez.
      - lia.
      - lia.
      - cbn [d6 raw]. rewrite Er. cbn [dr upd_crc raw]. lia.
      - cbn [d6 raw]. rewrite Er. cbn [dr upd_crc raw]. lia.
      - cbn [d6 crc]. rewrite Ec. cbn [dr upd_crc crc]. rewrite Hcrc. rewrite <- !crc_update_app. reflexivity.
      - cbn [N.to_nat repeat]. rewrite app_nil_r. unfold d6. rewrite data_mk. fold (data d1). rewrite Ed.
        unfold dr. rewrite data_upd_crc, data_mk. fold (data d). exact Hdata.
      - exact Hcap. }
    destruct A as (d' & Sd & Hd & Hr).
    exists d6, d'. repeat split; assumption.
  - (* three 0x1b held back *)
    set (dr := upd_crc (mkdec (raw d + 1 + 1 + 1 + 1 + 1)
                 (crc_update (crc d) [27]) (EscPayload 3 [27;27;27;0]) (zc d) (rbuf d)) [27;27;27]).
    assert (Hzr : zc dr <= 4) by exact Hz.
    destruct (push_many_ok cap [27;27;27] dr Hzr) as [d1 E1].
    { unfold dlen in *. cbn [dr upd_crc rbuf zc length]. exact Hcapd. }
    pose proof (push_many_spec cap _ dr d1 Hzr E1) as (Ed & Er & Ec & Es & Ez).
    set (d6 := mkdec (raw d1 + 1 + 1) (crc d1) (EscPayload 3 [26;0;c1;26]) (zc d1) (rbuf d1)).
    assert (F : feed cap d [27;27;27;27;26;0;c1] = Some d6).
    { cbn [feed].
      erewrite step_escchars_27; [|exact Hs|reflexivity]. cbn [raw crc zc rbuf].
      erewrite step_pay_partial; [|reflexivity|lia]. cbn [raw crc zc rbuf].
      erewrite step_pay_partial; [|reflexivity|lia]. cbn [raw crc zc rbuf].
      erewrite step_pay_partial; [|reflexivity|lia]. cbn [raw crc zc rbuf].
      erewrite step_pay_full; [|reflexivity]. cbn [raw crc zc rbuf].
      norm_nat. cbn [set_nth firstn skipn app].
      unfold step_payload_full. cbn [all27 forallb nth raw]. lit.
      replace (N.to_nat ((4 - (raw d + 1 + 1 + 1 + 1 + 1) mod 4) mod 4)) with 3%nat by lia.
      cbn [Nat.ltb Nat.leb firstn all27 forallb nth repeat]. lit.
      fold dr. rewrite E1. cbn [skipn app Nat.sub N.of_nat].
      erewrite step_pay_partial; [|reflexivity|lia]. cbn [set_st raw crc zc rbuf].
      erewrite step_pay_partial; [|reflexivity|lia]. cbn [set_st raw crc zc rbuf].
      norm_nat. cbn [set_nth firstn skipn app]. reflexivity. }
    assert (A : exists d', step cap d6 c2 = (d', OMsg) /\ st d' = Done /\ rev (rbuf d') = m).
    { apply (accept_step cap d6 [26;0;c1;26] 0 c1 c2 m).
      - reflexivity.
      - reflexivity.
      - exact Ez.
      - lia.
      - lia.
      - cbn [d6 raw]. rewrite Er. cbn [dr upd_crc raw]. lia.
      - cbn [d6 raw]. rewrite Er. cbn [dr upd_crc raw]. lia.
      - cbn [d6 crc]. rewrite Ec. cbn [dr upd_crc crc]. rewrite Hcrc. rewrite <- !crc_update_app. reflexivity.
      - cbn [N.to_nat repeat]. rewrite app_nil_r. unfold d6. rewrite data_mk. fold (data d1). rewrite Ed.
        unfold dr. rewrite data_upd_crc, data_mk. fold (data d). exact Hdata.
      - exact Hcap. }
    destruct A as (d' & Sd & Hd & Hr).
    exists d6, d'. repeat split; assumption.
Qed.

(* ---------- the round trip ---------- *)
Lemma feed_start cap : feed cap init start_seq = Some (mkdec 8 crc_start Normal 0 []).
Proof. reflexivity. Qed.

Lemma crc_split c : N.land c 255 + 256 * N.shiftr c 8 = c.
Proof.
  change 255 with (N.ones 8). rewrite N.land_ones, N.shiftr_div_pow2. change (2 ^ 8) with 256.
  pose proof (N.div_mod c 256 ltac:(lia)). lia.
Qed.

Theorem frame_roundtrip cap p :
  cap_ok cap (length p) ->
  exists d', run cap init (frame p) =
               (d', map (fun _ => (ONone, [])) (removelast (frame p)) ++ [(OMsg, p)]) /\
             st d' = Done /\ rev (rbuf d') = p.
Proof.
  intros Hcap.
  set (body := enc_from 0 p).
  set (pad := pad_of (length body)).
  assert (Hp3 : (pad <= 3)%nat) by (unfold pad, pad_of; lia).
  set (pre := start_seq ++ body ++ repeat 0 pad ++ [27;27;27;27;26; N.of_nat pad]).
  set (cl := N.land (crc16 pre) 255). set (ch := N.shiftr (crc16 pre) 8).
  assert (Hframe : frame p = (start_seq ++ body ++ repeat 0 pad ++ [27;27;27;27;26; N.of_nat pad; cl]) ++ [ch]).
  { unfold frame. rewrite esc_as_enc_from. fold body. fold pad. fold pre. fold cl. fold ch.
    unfold pre. rewrite <- !app_assoc. reflexivity. }
  set (d0 := mkdec 8 crc_start Normal 0 []).
  assert (B0 : Body 0 d0) by (unfold Body, d0; cbn; split; [lia|reflexivity]).
  destruct (body_sim cap p 0 d0 B0 ltac:(lia)) as (d1 & F1 & B1 & L1 & D1 & R1 & C1).
  { unfold dlen, d0. cbn. exact Hcap. }
  cbn [N.of_nat repeat app] in *. fold body in F1, R1, C1.
  set (c := N.to_nat (cnt_from 0 p)) in *.
  assert (Hc3 : (c <= 3)%nat) by (unfold c; lia).
  assert (Hd0 : data d0 = []) by reflexivity. rewrite Hd0 in D1. cbn [app] in D1.
  assert (Hraw1 : raw d1 = 8 + lenN body) by (rewrite R1; reflexivity).
  assert (Hcrc1 : crc d1 = crc_update crc_init (start_seq ++ body)).
  { rewrite C1. unfold d0. cbn [crc]. unfold crc_start. rewrite <- crc_update_app. reflexivity. }
  assert (Halign : (8 + lenN body + N.of_nat pad) mod 4 = 0).
  { unfold pad, pad_of, lenN. lia. }
  (* the end sequence is accepted from the state reached after body and padding *)
  assert (Tail : exists d6 d', feed cap d1 (repeat 0 pad ++ [27;27;27;27;26; N.of_nat pad; cl]) = Some d6 /\
                               step cap d6 ch = (d', OMsg) /\ st d' = Done /\ rev (rbuf d') = p).
  { destruct c as [|c'] eqn:Ec.
    - (* no 0x1b held back *)
      destruct B1 as [Hz1 Hs1]. rewrite app_nil_r in D1.
      destruct (zeros_sim cap pad 0 d1 Hs1 ltac:(lia) Hz1 ltac:(lia)) as (d2 & F2 & Hs2 & Hi2 & Hz2 & Hc2 & D2 & R2 & C2).
      { rewrite Nat.sub_0_r, <- data_length, D1. exact Hcap. }
      destruct (tail_normal cap d2 (N.of_nat pad) cl ch p Hs2 Hz2 ltac:(lia) ltac:(lia)) as (d6 & d' & F6 & S6 & Hd & Hr).
      + rewrite R2, Hraw1. exact Halign.
      + rewrite R2, Hraw1. lia.
      + rewrite C2, Hcrc1. unfold cl, ch. rewrite crc_split. unfold crc16, pre.
        rewrite <- !crc_update_app, <- !app_assoc. reflexivity.
      + rewrite D2, D1, Nat2N.id. reflexivity.
      + exact Hcap.
      + exists d6, d'. split; [|repeat split; assumption].
        rewrite (feed_app cap _ _ d1 d2 F2). exact F6.
    - destruct pad as [|pad'] eqn:Ep.
      + (* 0x1b bytes held back, no padding: re-alignment *)
        cbn [repeat app N.of_nat].
        destruct (tail_esc cap (S c') d1 cl ch p B1 ltac:(lia)) as (d6 & d' & F6 & S6 & Hd & Hr).
        * rewrite Hraw1. cbn [N.of_nat] in Halign. rewrite N.add_0_r in Halign. exact Halign.
        * rewrite Hraw1. lia.
        * rewrite Hcrc1. unfold cl, ch. rewrite crc_split. unfold crc16, pre.
          cbn [repeat app N.of_nat]. rewrite <- !crc_update_app, <- !app_assoc. reflexivity.
        * exact D1.
        * exact Hcap.
        * exists d6, d'. repeat split; assumption.
      + (* 0x1b bytes held back, then padding zeros *)
        destruct (body_step_zero_after_27s cap (S c') d1 B1 ltac:(lia)) as (d2 & S2 & Hs2 & Hz2 & D2 & R2 & C2).
        { rewrite <- data_length. rewrite <- D1 in Hcap. rewrite app_length, repeat_length in Hcap. exact Hcap. }
        destruct (zeros_sim cap pad' 1 d2 Hs2 ltac:(rewrite Hz2; lia) ltac:(lia) ltac:(lia)) as (d3 & F3 & Hs3 & Hi3 & Hz3 & Hc3' & D3 & R3 & C3).
        { rewrite <- data_length, D2, app_assoc, D1, app_length. cbn [length].
          eapply cap_ok_le; [|exact Hcap]. lia. }
        destruct (tail_normal cap d3 (N.of_nat (S pad')) cl ch p Hs3 Hz3 ltac:(lia) ltac:(lia)) as (d6 & d' & F6 & S6 & Hd & Hr).
        * rewrite R3, R2, Hraw1. replace (8 + lenN body + 1 + N.of_nat pad') with (8 + lenN body + N.of_nat (S pad')) by lia.
          exact Halign.
        * rewrite R3, R2, Hraw1. lia.
        * rewrite C3, C2, Hcrc1. unfold cl, ch. rewrite crc_split. unfold crc16, pre.
          cbn [repeat]. rewrite <- !crc_update_app, <- !app_assoc. reflexivity.
        * rewrite D3, D2, app_assoc, D1, Nat2N.id. cbn [repeat]. rewrite <- app_assoc. reflexivity.
        * exact Hcap.
        * exists d6, d'. split; [|repeat split; assumption].
          cbn [repeat app feed]. rewrite S2. rewrite (feed_app cap _ _ d2 d3 F3). exact F6. }
  destruct Tail as (d6 & d' & F6 & S6 & Hd & Hr).
  exists d'. split; [|split; [exact Hd|exact Hr]].
  assert (Ffull : feed cap init (start_seq ++ body ++ repeat 0 pad ++ [27;27;27;27;26; N.of_nat pad; cl]) = Some d6).
  { rewrite (feed_app cap _ _ init d0 (feed_start cap)).
    rewrite (feed_app cap _ _ d0 d1 F1). exact F6. }
  rewrite Hframe. rewrite removelast_last.
  rewrite run_app. rewrite (run_feed cap _ init d6 Ffull). cbn [fst snd run].
  rewrite S6. cbn [fst snd]. rewrite frev_eq, Hr. reflexivity.
Qed.
