(* C10: a sequence of framed payloads separated by noise, through the decoder and the readers. *)
Require Import Sml.Base.Prelude Sml.Base.Crc Sml.Spec.Frame Sml.Model.Decode Sml.Model.Frontends.
Require Import Sml.Model.Parser Sml.Model.Reader.
Require Import Sml.Proofs.DecodeInv Sml.Proofs.EncFold Sml.Proofs.DecodeGuard Sml.Proofs.DecodeSound.
Require Import Sml.Proofs.Account Sml.Proofs.Boundary Sml.Proofs.RoundTrip Sml.Proofs.Resync.
Require Import Sml.Proofs.FrontendsAgree Sml.Proofs.EndToEnd.

(* norm-equal states: equal outputs AND norm-equal final states *)
Lemma run_norm2 cap : forall s d1 d2,
  norm d1 = norm d2 ->
  snd (run cap d1 s) = snd (run cap d2 s) /\ norm (fst (run cap d1 s)) = norm (fst (run cap d2 s)).
Proof.
  induction s as [|b r IH]; intros d1 d2 H; cbn [run]; [split; [reflexivity|exact H]|].
  destruct (step_norm2 cap d1 d2 b H) as (A & B & C).
  destruct (step cap d1 b) as [e1 o1], (step cap d2 b) as [e2 o2]. cbn [fst snd] in *. subst o2.
  destruct (IH e1 e2 B) as [I1 I2]. destruct (run cap e1 r), (run cap e2 r). cbn [fst snd] in *. subst.
  split; [|exact I2]. destruct o1; try reflexivity. rewrite (C eq_refl). reflexivity.
Qed.

(* one segment: noise, then a frame; the decoder is idle again afterwards *)
Definition seg_results (g m : list byte) : list res :=
  (if 0 <? lenN g then [RErr (DiscardedBytes (lenN g))] else []) ++ [RMsg m].

Lemma results_quiet' (l : list byte) : results (quiet l) = [].
Proof. unfold quiet. induction l; cbn [map results]; auto. Qed.

Lemma results_skipn_frame m :
  results (skipn 8 (quiet (removelast (frame m)) ++ [(OMsg, m)])) = [RMsg m].
Proof.
  assert (H : exists l, skipn 8 (quiet (removelast (frame m)) ++ [(OMsg, m)]) = quiet l ++ [(OMsg, m)]).
  { rewrite frame_split. set (rest := skipn 8 (start_seq ++ skipn 8 (frame m))).
    assert (Hne : skipn 8 (frame m) <> []).
    { unfold frame. cbn [start_seq app skipn]. destruct (esc m ++ _) eqn:E; [|discriminate].
      apply app_eq_nil in E. destruct E as [_ E]. apply app_eq_nil in E. destruct E as [_ E]. discriminate. }
    rewrite removelast_app by exact Hne.
    unfold quiet. rewrite map_app, <- app_assoc.
    change (map (fun _ : N => (ONone, @nil N)) start_seq) with (quiet start_seq).
    exists (removelast (skipn 8 (frame m))). reflexivity. }
  destruct H as [l ->]. rewrite results_app, results_quiet'. reflexivity.
Qed.

Theorem segment cap d g m :
  norm d = norm init -> only_at_end g -> cap_ok cap (length m) ->
  results (snd (run cap d (g ++ frame m))) = seg_results g m /\
  norm (fst (run cap d (g ++ frame m))) = norm init.
Proof.
  intros Hn Hg Hc. split.
  - rewrite (resync_noise cap d g m Hn Hg Hc).
    rewrite !results_app, !results_quiet', results_skipn_frame. unfold seg_results.
    destruct (0 <? lenN g); reflexivity.
  - destruct (run_norm2 cap (g ++ frame m) d init Hn) as [_ N2]. rewrite N2.
    (* from a new decoder: noise leaves it looking, the frame ends in Done *)
    destruct (noise_quiet cap g [] init 0 0 SInv_init eq_refl ltac:(lia)) as (disc & n & Eg & Hlt).
    { intros pre suf H. apply (Hg pre suf). exact H. }
    rewrite run_app, Eg. cbn [fst].
    set (dg := mkdec _ _ _ _ _).
    assert (Hdg : norm dg = norm (mkdec (raw dg) 0 (Looking disc n) 0 [])) by reflexivity.
    (* the frame from any Looking state with empty buffer ends like from init *)
    rewrite frame_split, run_app.
    destruct (start_from_looking cap dg disc n eq_refl Hlt) as (disc1 & _ & E8). rewrite E8. cbn [fst dg zc rbuf init].
    fold d_start.
    destruct (frame_roundtrip cap m Hc) as (d' & Hrun & Hd & _).
    rewrite frame_split in Hrun at 1. rewrite run_app, run_start in Hrun. cbn [fst snd] in Hrun.
    apply (f_equal fst) in Hrun. cbn [fst] in Hrun. rewrite Hrun.
    unfold norm. rewrite Hd. reflexivity.
Qed.

(* a whole transmission: segments, then trailing noise *)
Fixpoint stream_of (segs : list (list byte * list byte)) (tail : list byte) : list byte :=
  match segs with
  | [] => tail
  | (g, m) :: r => g ++ frame m ++ stream_of r tail
  end.

Definition segs_ok (cap : cap_t) (segs : list (list byte * list byte)) : Prop :=
  Forall (fun gm => only_at_end (fst gm) /\ cap_ok cap (length (snd gm))) segs.

(* trailing noise that never completes a start sequence *)
Definition quiet_tail (tail : list byte) : Prop :=
  forall pre suf, tail = pre ++ start_seq ++ suf -> False.

Lemma tail_run cap d tail :
  norm d = norm init -> quiet_tail tail ->
  results (snd (run cap d tail)) = [] /\
  fin (fst (run cap d tail)) = if 0 <? lenN tail then [RErr (DiscardedBytes (lenN tail))] else [].
Proof.
  intros Hn Ht.
  destruct (run_norm2 cap tail d init Hn) as [N1 N2].
  assert (Hlook : exists disc n, run cap init tail = (mkdec (lenN tail) crc_init (Looking disc n) 0 [], quiet tail) /\ n < 8).
  { (* the matcher never completes inside the tail *)
    assert (G : forall g2 g1 dd disc n, SInv g1 dd -> st dd = Looking disc n -> n < 8 ->
                (forall pre suf, g1 ++ g2 = pre ++ start_seq ++ suf -> False) ->
                exists disc' n', run cap dd g2 = (mkdec (raw dd + lenN g2) (crc dd) (Looking disc' n') (zc dd) (rbuf dd), quiet g2) /\ n' < 8).
    { induction g2 as [|b r IH]; intros g1 dd disc n I Hs Hlt Honly.
      - exists disc, n. split; [|exact Hlt]. cbn [run quiet map]. unfold lenN. cbn [length N.of_nat].
        rewrite N.add_0_r. destruct dd. cbn in *. subst. reflexivity.
      - pose proof (step_looking_inv cap g1 dd b disc n I Hs) as I1.
        destruct (step_looking_shape cap dd disc n b Hs Hlt) as [A B].
        pose proof (delta_le n b Hlt) as Hle.
        destruct (N.eq_dec (delta n b) 8) as [E8|N8].
        + exfalso. destruct (B E8) as [_ E]. rewrite E in I1. cbn [fst] in I1.
          destruct (SInv_normal_inv _ _ I1 eq_refl) as (pre & body & Hcs & Hraw).
          cbn [raw] in Hraw. assert (body = []) by (destruct body; [reflexivity|rewrite lenN_cons in Hraw; lia]). subst body.
          rewrite app_nil_r in Hcs. apply (Honly pre r).
          change (b :: r) with ([b] ++ r). rewrite app_assoc, Hcs, <- app_assoc. reflexivity.
        + destruct (A ltac:(lia)) as [disc1 E1]. rewrite E1 in I1. cbn [fst] in I1.
          set (d1 := mkdec (raw dd + 1) (crc dd) (Looking disc1 (delta n b)) (zc dd) (rbuf dd)) in *.
          destruct (IH (g1 ++ [b]) d1 disc1 (delta n b) I1 eq_refl ltac:(lia)) as (disc2 & n2 & E2 & Hn2).
          { intros pre suf Hp. apply (Honly pre suf). rewrite <- Hp, <- app_assoc. reflexivity. }
          exists disc2, n2. split; [|exact Hn2]. cbn [run]. rewrite E1, E2.
          cbn [d1 raw crc zc rbuf quiet map]. rewrite lenN_cons. f_equal. f_equal. lia. }
    destruct (G tail [] init 0 0 SInv_init eq_refl ltac:(lia)) as (disc & n & E & Hlt).
    { intros pre suf H. exact (Ht pre suf H). }
    exists disc, n. cbn [raw crc zc rbuf init] in E. rewrite N.add_0_l in E. split; [exact E|exact Hlt]. }
  destruct Hlook as (disc & n & E & Hlt).
  split.
  - rewrite N1, E. cbn [snd]. apply results_quiet'.
  - (* finalize depends on the state only through norm-invariant data *)
    assert (Hf : fin (fst (run cap d tail)) = fin (fst (run cap init tail))).
    { unfold fin. rewrite (norm_finalize _ _ N2). reflexivity. }
    rewrite Hf, E. cbn [fst]. unfold fin, finalize. cbn [snd st raw].
    destruct (run_LInv cap tail) as [_ L]. rewrite E in L. cbn [fst] in L. unfold LInv in L. cbn [st raw] in L.
    destruct disc as [|pd]; [destruct n as [|pn]|].
    + assert (lenN tail = 0) by lia. rewrite H. reflexivity.
    + destruct (N.ltb_spec 0 (lenN tail)); [reflexivity|lia].
    + destruct (N.ltb_spec 0 (lenN tail)); [reflexivity|lia].
Qed.

Theorem transmission cap : forall segs tail d,
  norm d = norm init -> segs_ok cap segs -> quiet_tail tail ->
  results (snd (run cap d (stream_of segs tail))) = flat_map (fun gm => seg_results (fst gm) (snd gm)) segs /\
  fin (fst (run cap d (stream_of segs tail))) = if 0 <? lenN tail then [RErr (DiscardedBytes (lenN tail))] else [].
Proof.
  induction segs as [|[g m] r IH]; intros tail d Hn Hok Ht; cbn [stream_of flat_map].
  - apply tail_run; assumption.
  - inversion Hok as [|? ? [Hg Hc] Hr]; subst. cbn [fst snd] in *.
    rewrite (app_assoc g). rewrite run_app. cbn [fst snd].
    destruct (segment cap d g m Hn Hg Hc) as [S1 S2].
    destruct (IH tail (fst (run cap d (g ++ frame m))) S2 Hr Ht) as [I1 I2].
    split; [rewrite results_app, S1, I1; reflexivity|exact I2].
Qed.
