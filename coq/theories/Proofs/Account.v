(* C17: every input byte is accounted for exactly once. *)
Require Import Sml.Base.Prelude Sml.Base.Crc Sml.Spec.Frame Sml.Spec.Tiling Sml.Model.Decode.
Require Import Sml.Proofs.DecodeInv Sml.Proofs.EncFold Sml.Proofs.DecodeGuard Sml.Proofs.DecodeSound.

Definition TInv (d : dec) (consumed covered : N) : Prop :=
  match st d with
  | Done => covered = consumed
  | Looking disc n => covered + raw d = consumed /\ raw d = disc + n
  | _ => covered + raw d = consumed
  end.

Lemma TInv_init c : TInv init c c.
Proof. unfold TInv, init. cbn. lia. Qed.

Lemma TInv_reset d c : TInv (reset_st d) c c.
Proof. unfold TInv, reset_st. cbn. lia. Qed.

Definition step_post (d' : dec) (o : out) (consumed covered : N) : Prop :=
  match o with
  | ONone => TInv d' (consumed + 1) covered
  | OErr (DiscardedBytes n) => covered + n + 8 = consumed + 1 /\ TInv d' (consumed + 1) (consumed + 1 - 8)
  | OErr _ => TInv d' (consumed + 1) (consumed + 1)
  | OMsg => st d' = Done /\ covered + raw d' = consumed + 1
  | OPanic => False
  end.

Lemma step_payload_full_tinv cap d pl consumed covered :
  zc d <= 4 -> 8 <= raw d -> length pl = 4%nat -> covered + raw d = consumed + 1 ->
  step_post (fst (step_payload_full cap d pl)) (snd (step_payload_full cap d pl)) consumed covered.
Proof.
  intros Hz Hr Hl Hc. unfold step_payload_full.
  destruct (all27 pl).
  { destruct (push_many cap (upd_crc d pl) pl) as [d'|] eqn:E; cbn [fst snd oom step_post].
    - apply push_many_zc in E; [|exact Hz]. destruct E as (Ez & Er & Es).
      unfold TInv. cbn [set_st st raw]. cbn [upd_crc raw] in Er. lia.
    - apply TInv_reset. }
  destruct (forallb (fun x => x =? 1) pl).
  { destruct (N.ltb_spec (raw d) 8); [lia|]. cbn [fst snd step_post]. split; [lia|].
    unfold TInv. cbn. lia. }
  destruct (nth 0 pl 0 =? 26).
  { match goal with |- context [if ?c then _ else _] => destruct c eqn:Chk end; cbn [fst snd step_post].
    - apply TInv_reset.
    - destruct (flush cap _) as [d'|] eqn:E; cbn [fst snd oom step_post].
      + apply flush_zc in E. destruct E as (Ez & Er & Es). cbn [set_st st raw]. cbn [raw] in Er.
        split; [reflexivity|lia].
      + apply TInv_reset. }
  match goal with |- context [if ?c then _ else _] => destruct c eqn:Chk end; cbn [fst snd step_post].
  - destruct (push_many cap _ _) as [d'|] eqn:E; cbn [fst snd oom step_post].
    + apply push_many_zc in E; [|exact Hz]. destruct E as (Ez & Er & Es).
      unfold TInv. cbn [set_st st raw]. cbn [upd_crc raw] in Er. lia.
    + apply TInv_reset.
  - apply TInv_reset.
Qed.

Theorem step_tinv cap d b consumed covered :
  GInv d -> TInv d consumed covered ->
  step_post (fst (step cap d b)) (snd (step cap d b)) consumed covered.
Proof.
  intros [Hz Hs] HT. unfold step.
  set (d0' := match st d with Done => reset_st d | _ => d end).
  assert (G0 : zc d0' <= 4 /\
               match st d0' with
               | Looking disc n => n < 8 | Normal => 8 <= raw d0' | EscChars n => 1 <= n <= 3 /\ 8 <= raw d0'
               | EscPayload k pl => k <= 3 /\ length pl = 4%nat /\ 8 <= raw d0' | Done => True end).
  { unfold d0'. destruct (st d) eqn:E; try (split; [exact Hz|rewrite E; exact Hs]). cbn. lia. }
  assert (T0 : match st d0' with
               | Done => False
               | Looking disc n => covered + raw d0' = consumed /\ raw d0' = disc + n
               | _ => covered + raw d0' = consumed end).
  { unfold d0', TInv in *. destruct (st d) eqn:E; try (rewrite E; exact HT). cbn. lia. }
  destruct G0 as [Hz0 Hs0]. clearbody d0'. clear Hz Hs HT d.
  cbn [st raw crc zc rbuf].
  destruct (st d0') as [disc n| |n|k pl|] eqn:S0; [| | | |contradiction].
  - (* Looking *)
    destruct T0 as [Tc Tr]. unfold step_looking.
    destruct (((b =? 27) && (n <? 4)) || ((b =? 1) && (4 <=? n))) eqn:M.
    + destruct (N.leb_spec 255 n); [lia|].
      destruct (N.eqb_spec (n + 1) 8).
      * destruct (N.ltb_spec 0 disc); cbn [fst snd step_post]; unfold TInv; cbn [st raw]; lia.
      * cbn [fst snd step_post]. unfold TInv. cbn [set_st st raw]. lia.
    + destruct (N.eqb_spec b 27) as [->|Hb].
      * assert (4 <= n).
        { destruct (N.ltb_spec n 4); [|assumption].
          rewrite ?N.eqb_refl in M. cbn [andb orb] in M. discriminate. }
        destruct (N.eqb_spec n 4).
        -- destruct (N.ltb_spec n 4); [lia|]. cbn [fst snd step_post]. unfold TInv. cbn [set_st st raw]. lia.
        -- destruct (N.ltb_spec n 1); [lia|]. cbn [fst snd step_post]. unfold TInv. cbn [set_st st raw]. lia.
      * cbn [fst snd step_post]. unfold TInv. cbn [set_st st raw]. lia.
  - (* Normal *)
    destruct (b =? 27).
    + cbn [fst snd step_post]. unfold TInv. cbn. lia.
    + destruct (push cap _ b) as [d'|] eqn:E; cbn [fst snd oom step_post].
      * apply push_zc in E; [|cbn; exact Hz0]. destruct E as (Ez & Er & Es).
        unfold TInv. rewrite Es. cbn [upd_crc st]. cbn [upd_crc raw] in Er. lia.
      * apply TInv_reset.
  - (* EscChars *)
    destruct Hs0 as [Hn Hr].
    destruct (negb (b =? 27)).
    + destruct (push_many cap _ _) as [d'|] eqn:E; cbn [fst snd oom step_post].
      * apply push_many_zc in E; [|cbn; exact Hz0]. destruct E as (Ez & Er & Es).
        unfold TInv. cbn [set_st st raw]. cbn [upd_crc raw] in Er. lia.
      * apply TInv_reset.
    + destruct (N.eqb_spec n 3).
      * cbn [fst snd step_post]. unfold TInv. cbn. lia.
      * destruct (N.leb_spec 255 n); [lia|]. cbn [fst snd step_post]. unfold TInv. cbn. lia.
  - (* EscPayload *)
    destruct Hs0 as (Hk & Hl & Hr).
    destruct (N.ltb_spec 3 k); [lia|].
    destruct (N.ltb_spec k 3).
    + cbn [fst snd step_post]. unfold TInv. cbn [set_st st raw]. lia.
    + apply step_payload_full_tinv; cbn [zc raw]; try lia.
      rewrite set_nth_length by lia. exact Hl.
Qed.

(* ---------- histories ---------- *)
Definition AInv (cs : list byte) (d : dec) (consumed covered : N) : Prop :=
  SInv cs d /\ GInv d /\ TInv d consumed covered.

Lemma do_op_tiles cap cs d o consumed covered :
  AInv cs d consumed covered -> op_ok o ->
  exists c1 c2, tile1 consumed covered o (snd (do_op cap d o)) = Some (c1, c2) /\
                AInv (trailing [o] cs) (fst (do_op cap d o)) c1 c2.
Proof.
  intros (I & G & T) Ho.
  pose proof (do_op_inv cap cs d o I Ho) as I'.
  pose proof (do_op_guard cap d o G) as [_ G'].
  destruct o as [b| | |]; cbn [do_op tile1] in *.
  - pose proof (step_tinv cap d b consumed covered G T) as P.
    destruct (step cap d b) as [d' r]. cbn [fst snd] in *.
    destruct r as [| |e|]; cbn [step_post] in P.
    + cbn [fst snd] in *. exists (consumed + 1), covered.
      split; [reflexivity|]. split; [exact I'|]. split; [exact G'|exact P].
    + destruct P as [Pd Pc]. rewrite Pd in *. cbn [fst snd] in *.
      inversion I'; try congruence.
      match goal with H : raw d' = lenN _ |- _ => rename H into Hraw end.
      rewrite frev_eq. rewrite <- frame_enc_frame. rewrite <- Hraw.
      destruct (N.eqb_spec (covered + raw d') (consumed + 1)); [|lia].
      exists (consumed + 1), (consumed + 1).
      split; [reflexivity|]. split; [exact I'|]. split; [exact G'|].
      unfold TInv. rewrite Pd. reflexivity.
    + destruct e as [n|pl| |a b0 c0 d0 e0]; cbn [fst snd] in *.
      * destruct P as [Pn PT]. destruct (N.eqb_spec (covered + n + 8) (consumed + 1)); [|lia].
        exists (consumed + 1), (consumed + 1 - 8).
        split; [reflexivity|]. split; [exact I'|]. split; [exact G'|exact PT].
      * exists (consumed + 1), (consumed + 1).
        split; [reflexivity|]. split; [exact I'|]. split; [exact G'|exact P].
      * exists (consumed + 1), (consumed + 1).
        split; [reflexivity|]. split; [exact I'|]. split; [exact G'|exact P].
      * exists (consumed + 1), (consumed + 1).
        split; [reflexivity|]. split; [exact I'|]. split; [exact G'|exact P].
    + contradiction.
  - cbn [finalize fst snd] in *. unfold TInv in T.
    assert (Hfin : exists c1 c2,
      match match st d with Looking 0 0 => None | Done => None | _ => Some (DiscardedBytes (raw d)) end with
      | Some (DiscardedBytes n) => if covered + n =? consumed then Some (consumed, consumed) else None
      | Some _ => None
      | None => if covered =? consumed then Some (consumed, consumed) else None
      end = Some (c1, c2) /\ c1 = consumed /\ c2 = consumed).
    { exists consumed, consumed.
      destruct (st d) as [disc n| | | |] eqn:Sd.
      - destruct T as [Tc Tr].
        destruct disc as [|pd]; [destruct n as [|pn]|].
        + destruct (N.eqb_spec covered consumed); [auto|lia].
        + destruct (N.eqb_spec (covered + raw d) consumed); [auto|lia].
        + destruct (N.eqb_spec (covered + raw d) consumed); [auto|lia].
      - destruct (N.eqb_spec (covered + raw d) consumed); [auto|lia].
      - destruct (N.eqb_spec (covered + raw d) consumed); [auto|lia].
      - destruct (N.eqb_spec (covered + raw d) consumed); [auto|lia].
      - destruct (N.eqb_spec covered consumed); [auto|lia]. }
    destruct Hfin as (c1 & c2 & H1 & -> & ->).
    exists consumed, consumed. split; [exact H1|].
    split; [exact I'|]. split; [exact G'|apply TInv_reset].
  - cbn [reset fst snd] in *. unfold TInv in T. unfold reset_cnt.
    exists consumed, consumed.
    split; [|split; [exact I'|split; [exact G'|apply TInv_reset]]].
    destruct (st d) as [disc n| | | |] eqn:Sd.
    + destruct T as [Tc Tr]. destruct (N.eqb_spec (covered + raw d) consumed); [reflexivity|lia].
    + destruct (N.eqb_spec (covered + raw d) consumed); [reflexivity|lia].
    + destruct (N.eqb_spec (covered + raw d) consumed); [reflexivity|lia].
    + destruct (N.eqb_spec (covered + raw d) consumed); [reflexivity|lia].
    + destruct (N.eqb_spec (covered + 0) consumed); [reflexivity|lia].
  - cbn [fst snd] in *. exists consumed, consumed.
    split; [reflexivity|]. split; [exact I'|]. split; [exact G'|apply TInv_init].
Qed.

Theorem run_ops_tiles cap : forall ops cs d consumed covered,
  AInv cs d consumed covered -> Forall op_ok ops ->
  tiles consumed covered (combine ops (snd (run_ops cap d ops))) = true.
Proof.
  induction ops as [|o r IH]; intros cs d consumed covered A Hok; [reflexivity|].
  inversion Hok as [|? ? Ho Hr]; subst.
  destruct (do_op_tiles cap cs d o consumed covered A Ho) as (c1 & c2 & Ht & A').
  cbn [run_ops]. destruct (do_op cap d o) as [d' e]. cbn [fst snd] in *.
  specialize (IH _ _ _ _ A' Hr).
  destruct (run_ops cap d' r) as [d'' es]. cbn [snd combine tiles] in *.
  rewrite Ht. exact IH.
Qed.

Theorem tiles_from_new cap ops :
  Forall op_ok ops -> tiles 0 0 (combine ops (snd (run_ops cap init ops))) = true.
Proof.
  intros H. apply (run_ops_tiles cap ops [] init 0 0); [|exact H].
  split; [apply SInv_init|]. split; [apply GInv_init|apply TInv_init].
Qed.
