(* C10, composed with C03: a reader over a transmission of encoded SML files yields exactly
   those files (as bytes, as parsed File, or as the event sequence of the streaming parser). *)
Require Import Sml.Base.Prelude Sml.Base.Crc Sml.Spec.Frame Sml.Model.Decode Sml.Model.Frontends.
Require Import Sml.Model.Parser Sml.Model.Reader Sml.Spec.TlfRef Sml.Spec.Grammar.
Require Import Sml.Proofs.RoundTrip Sml.Proofs.Boundary Sml.Proofs.Resync.
Require Import Sml.Proofs.FrontendsAgree Sml.Proofs.EndToEnd Sml.Proofs.Transmissions.
Require Import Sml.Proofs.ParserTotal Sml.Proofs.ParsersAgree Sml.Proofs.ParserGrammar.

(* what a call yields for the payload [b] that encodes the file [F] *)
Definition file_item (t : target) (F : list message) (b : list byte) : item :=
  match t with
  | TBytes => IBytes b
  | TFile => IFile F
  | TParser => IEvents (firstn (length b + 2) (map SEvent (flat_map flatten_msg F) ++ repeat SNone (length b + 2)))
  end.

Lemma parse_from_file t F b : ok_in b -> enc_file F b -> parse_from t (RdOk b) = file_item t F b.
Proof.
  intros Hi He. destruct t; cbn [parse_from file_item].
  - reflexivity.
  - rewrite (parse_complete b F Hi He). reflexivity.
  - unfold drain_parser. rewrite (streaming_complete b F (length b + 2) Hi He). reflexivity.
Qed.

Definition seg_items (t : target) (F : list message) (gm : list byte * list byte) : list item :=
  (if 0 <? lenN (fst gm) then [IDecErr (DiscardedBytes (lenN (fst gm)))] else []) ++ [file_item t F (snd gm)].

Definition encodes_seg (F : list message) (gm : list byte * list byte) : Prop :=
  ok_in (snd gm) /\ enc_file F (snd gm).

Lemma items_of_segs t : forall Fs segs,
  Forall2 encodes_seg Fs segs ->
  map (parse_from t) (map to_rd (flat_map (fun gm => seg_results (fst gm) (snd gm)) segs)) =
  flat_map (fun Fg => seg_items t (fst Fg) (snd Fg)) (combine Fs segs).
Proof.
  intros Fs segs H. induction H as [|F gm Fs segs [Hi He] _ IH]; [reflexivity|].
  cbn [flat_map combine fst snd]. rewrite !map_app, IH. f_equal.
  unfold seg_results, seg_items. destruct (0 <? lenN (fst gm)); cbn [app map to_rd];
    rewrite (parse_from_file t F (snd gm) Hi He); reflexivity.
Qed.

Theorem files_end_to_end cap kind t segs tail Fs :
  kind <> KEh -> segs_ok cap segs -> quiet_tail tail -> Forall2 encodes_seg Fs segs ->
  map (parse_from t)
      (snd (rd_all cap (length (stream_of segs tail) + 2) (rd_new kind (map SByte (stream_of segs tail))))) =
  flat_map (fun Fg => seg_items t (fst Fg) (snd Fg)) (combine Fs segs) ++
  (if 0 <? lenN tail then [IIoErr EkEof (lenN tail)] else []).
Proof.
  intros Hk Hs Ht HF.
  destruct (frontends_agree (stream_of segs tail)) as (_ & _ & C).
  rewrite (C cap kind Hk).
  destruct (transmission cap segs tail init eq_refl Hs Ht) as [R F]. rewrite R, F.
  rewrite !map_app, (items_of_segs t Fs segs HF). f_equal.
  destruct (0 <? lenN tail); reflexivity.
Qed.
