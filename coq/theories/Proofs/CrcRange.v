(* The CRC-16/X.25 register of Base/Crc.v stays a 16-bit value on byte strings: the model computes over
   unbounded N, the code over u16 - these lemmas show that no reduction modulo 2^16 is ever missing. *)
Require Import Sml.Base.Prelude Sml.Base.Crc.

Lemma lt_pow2_log2 a n : 0 < n -> (a < 2 ^ n <-> a = 0 \/ N.log2 a < n).
Proof.
  intros Hn. destruct (N.eq_dec a 0) as [->|Ha].
  - split; [auto|intros _; apply N.neq_0_lt_0, N.pow_nonzero; lia].
  - rewrite <- N.log2_lt_pow2 by lia. split; [auto|intros [E|H]; [congruence|exact H]].
Qed.

Lemma lxor_lt a b n : 0 < n -> a < 2 ^ n -> b < 2 ^ n -> N.lxor a b < 2 ^ n.
Proof.
  intros Hn Ha Hb. apply (lt_pow2_log2 _ n Hn).
  destruct (N.eq_dec (N.lxor a b) 0) as [E|E]; [left; exact E|right].
  apply (proj1 (lt_pow2_log2 a n Hn)) in Ha. apply (proj1 (lt_pow2_log2 b n Hn)) in Hb.
  pose proof (N.log2_lxor a b) as L.
  destruct Ha as [->|Ha]; destruct Hb as [->|Hb].
  - rewrite N.lxor_0_l in E. congruence.
  - rewrite N.lxor_0_l. exact Hb.
  - rewrite N.lxor_0_r. exact Ha.
  - lia.
Qed.

Lemma crc_bit_lt n : forall c, c < 65536 -> crc_bit n c < 65536.
Proof.
  induction n as [|n IH]; intros c Hc; cbn [crc_bit]; [exact Hc|]. apply IH.
  assert (Hs : N.shiftr c 1 < 65536) by (rewrite N.shiftr_div_pow2; change (2 ^ 1) with 2; lia).
  destruct (N.testbit c 0); [|exact Hs].
  change 65536 with (2 ^ 16). apply lxor_lt; [lia|exact Hs|cbn; lia].
Qed.

Lemma crc_step_lt c b : c < 65536 -> b < 256 -> crc_step c b < 65536.
Proof.
  intros Hc Hb. unfold crc_step. apply crc_bit_lt. change 65536 with (2 ^ 16).
  apply lxor_lt; [lia|exact Hc|]. change (2 ^ 16) with 65536. lia.
Qed.

Lemma crc_update_lt bs : forall c, c < 65536 -> bytes_ok bs -> crc_update c bs < 65536.
Proof.
  induction bs as [|b r IH]; intros c Hc Hb; [exact Hc|]. inversion Hb; subst.
  unfold crc_update. cbn [fold_left]. apply IH; [apply crc_step_lt; assumption|assumption].
Qed.

Lemma crc16_lt bs : bytes_ok bs -> crc16 bs < 65536.
Proof.
  intros H. unfold crc16, crc_finalize. change 65536 with (2 ^ 16). apply lxor_lt; [lia| |cbn; lia].
  change (2 ^ 16) with 65536. apply crc_update_lt; [unfold crc_init; lia|exact H].
Qed.

