(* C05 (d), all target types: what the decoder hands to the parsers is a byte string shorter
   than the stream it came from, so the parsers' totality (C06) applies to it.
   [WInv]: the decoded bytes (buffer plus withheld zeros) are bytes and are at most as many as
   the raw bytes of the transmission so far. *)
Require Import Sml.Base.Prelude Sml.Base.Crc Sml.Spec.Frame Sml.Model.Decode Sml.Model.Frontends.
Require Import Sml.Model.Parser Sml.Model.Reader.
Require Import Sml.Proofs.DecodeInv Sml.Proofs.DecodeGuard Sml.Proofs.TransportTotal Sml.Proofs.ParserTotal.

Definition pend (s : dstate) : N :=
  match s with EscChars n => n | EscPayload k _ => 4 + k | _ => 0 end.

Definition WInv (d : dec) : Prop :=
  bytes_ok (data d) /\ lenN (data d) + pend (st d) <= raw d /\
  match st d with
  | Looking _ n => rbuf d = [] /\ zc d = 0 /\ n <= raw d
  | EscPayload _ pl => bytes_ok pl
  | _ => True
  end.

Lemma WInv_reset d : WInv (reset_st d).
Proof. unfold WInv, reset_st, data. cbn. repeat split; try constructor; lia. Qed.

Lemma WInv_init : WInv init.
Proof. unfold WInv, init, data. cbn. repeat split; try constructor; lia. Qed.

Lemma bytes_ok_skipn (l : list byte) k : bytes_ok l -> bytes_ok (skipn k l).
Proof. intros H. rewrite <- (firstn_skipn k l) in H. apply bytes_ok_app in H. tauto. Qed.

Lemma bytes_ok_firstn (l : list byte) k : bytes_ok l -> bytes_ok (firstn k l).
Proof. intros H. rewrite <- (firstn_skipn k l) in H. apply bytes_ok_app in H. tauto. Qed.

Lemma bytes_ok_set_nth l i b : bytes_ok l -> b < 256 -> bytes_ok (set_nth l i b).
Proof.
  intros H Hb. unfold set_nth. apply bytes_ok_app. split; [apply bytes_ok_firstn; exact H|].
  apply bytes_ok_app. split; [constructor; [exact Hb|constructor]|apply bytes_ok_skipn; exact H].
Qed.

Lemma data_nil d : rbuf d = [] -> zc d = 0 -> data d = [].
Proof. unfold data. intros -> ->. reflexivity. Qed.

Lemma step_payload_full_winv cap d pl :
  zc d <= 4 -> bytes_ok (data d) -> lenN (data d) + 8 <= raw d -> bytes_ok pl -> length pl = 4%nat ->
  WInv (fst (step_payload_full cap d pl)) /\ raw (fst (step_payload_full cap d pl)) <= raw d.
Proof.
  intros Hz Hb Hl Hp Hn. unfold step_payload_full.
  destruct (all27 pl).
  { destruct (push_many cap (upd_crc d pl) pl) as [d'|] eqn:E; cbn [fst snd oom].
    - apply push_many_spec in E; [|exact Hz]. destruct E as (Ed & Er & _ & Es & Ez).
      rewrite data_upd_crc in Ed. cbn [upd_crc raw st] in Er, Es.
      split; [|cbn [set_st raw]; lia].
      unfold WInv. rewrite data_set_st. cbn [set_st st raw pend]. rewrite Ed, Er.
      split; [apply bytes_ok_app; split; assumption|]. split; [|exact I].
      rewrite lenN_app. unfold lenN at 2. rewrite Hn. lia.
    - split; [apply WInv_reset|cbn; lia]. }
  destruct (forallb (fun x => x =? 1) pl).
  { destruct (N.ltb_spec (raw d) 8); [split; [apply WInv_reset|cbn; lia]|]. cbn [fst snd].
    split; [|cbn [raw]; lia]. unfold WInv, data. cbn. repeat split; try constructor; lia. }
  destruct (nth 0 pl 0 =? 26).
  { match goal with |- context [if ?c then _ else _] => destruct c eqn:Chk end; cbn [fst snd].
    - split; [apply WInv_reset|cbn; lia].
    - destruct (flush cap _) as [d'|] eqn:E; cbn [fst snd oom].
      + apply flush_spec in E. destruct E as (Eb & Ez & Er & _ & Es). cbn [raw] in Er.
        assert (Ed : data d' = rev (rbuf d) ++ repeat 0 (N.to_nat (zc d - nth 1 pl 0))).
        { unfold data at 1. rewrite Ez, Eb. cbn [N.to_nat repeat]. rewrite app_nil_r. reflexivity. }
        split; [|cbn [set_st raw]; lia].
        unfold WInv. rewrite data_set_st. cbn [set_st st raw pend]. rewrite Ed, Er.
        unfold data in Hb, Hl. apply bytes_ok_app in Hb. destruct Hb as [Hb1 Hb2].
        split; [apply bytes_ok_app; split; [exact Hb1|apply bytes_ok_repeat; lia]|].
        split; [|exact I]. rewrite lenN_app, lenN_repeat in *. lia.
      + split; [apply WInv_reset|cbn; lia]. }
  match goal with |- context [if ?c then _ else _] => destruct c eqn:Chk end; cbn [fst snd].
  - apply andb_true_iff in Chk. destruct Chk as [Chk _]. apply andb_true_iff in Chk. destruct Chk as [Hk0 _].
    apply Nat.ltb_lt in Hk0.
    set (k := N.to_nat ((4 - raw d mod 4) mod 4)) in *.
    assert (Hk : (k <= 3)%nat) by (unfold k; lia).
    destruct (push_many cap _ _) as [d'|] eqn:E; cbn [fst snd oom].
    + apply push_many_spec in E; [|exact Hz]. destruct E as (Ed & Er & _ & Es & Ez).
      rewrite data_upd_crc in Ed. cbn [upd_crc raw st] in Er, Es.
      split; [|cbn [set_st raw]; lia].
      unfold WInv. rewrite data_set_st. cbn [set_st st raw pend]. rewrite Ed, Er.
      split; [apply bytes_ok_app; split; [exact Hb|apply bytes_ok_repeat; lia]|].
      split; [rewrite lenN_app, lenN_repeat; lia|].
      apply bytes_ok_app; split; apply bytes_ok_skipn; exact Hp.
    + split; [apply WInv_reset|cbn; lia].
  - split; [apply WInv_reset|cbn; lia].
Qed.

Lemma step_done cap d b : st d = Done -> step cap d b = step cap (reset_st d) b.
Proof. intros H. unfold step. rewrite H. reflexivity. Qed.

Lemma step_winv_nd cap d0 b :
  GInv d0 -> WInv d0 -> st d0 <> Done -> b < 256 ->
  WInv (fst (step cap d0 b)) /\ raw (fst (step cap d0 b)) <= raw d0 + 1.
Proof.
  intros G0 W0 ND Hb. unfold step.
  set (dd := match st d0 with Done => reset_st d0 | _ => d0 end).
  assert (E0 : dd = d0) by (unfold dd; destruct (st d0); try reflexivity; congruence).
  clearbody dd. subst dd.
  destruct G0 as [Hz Hs]. destruct W0 as (Wb & Wl & Ws).
  cbn [st].
  destruct (st d0) as [disc n| |n|k pl|] eqn:S; [| | | |congruence].
  - (* Looking *)
    destruct Ws as (Er & Ez & Hn).
    unfold step_looking.
    match goal with |- context [if ?c then _ else _] => destruct c end.
    + destruct (255 <=? n); [split; [apply WInv_reset|cbn; lia]|].
      destruct (N.eqb_spec (n + 1) 8) as [E8|N8].
      * assert (X : WInv (mkdec 8 crc_start Normal 0 [])) by (unfold WInv, data; cbn; repeat split; try constructor; lia).
        cbn [zc rbuf]. rewrite Er, Ez.
        destruct (0 <? disc); cbn [fst snd raw]; (split; [exact X|lia]).
      * cbn [fst snd]. split; [|cbn [set_st raw]; lia].
        unfold WInv. rewrite data_set_st. cbn [set_st st raw rbuf zc pend].
        rewrite (data_nil _ Er Ez) at 1. cbn [data]. unfold data. cbn [rbuf zc]. rewrite Er, Ez. cbn.
        repeat split; try constructor; lia.
    + destruct (b =? 27).
      * set (kept := if n =? 4 then 4 else 1).
        destruct (N.ltb_spec n kept); [split; [apply WInv_reset|cbn; lia]|].
        cbn [fst snd]. split; [|cbn [set_st raw]; lia].
        unfold WInv, data. cbn [set_st st raw rbuf zc pend]. rewrite Er, Ez. cbn.
        repeat split; try constructor; lia.
      * cbn [fst snd]. split; [|cbn [set_st raw]; lia].
        unfold WInv, data. cbn [set_st st raw rbuf zc pend]. rewrite Er, Ez. cbn.
        repeat split; try constructor; lia.
  - (* Normal *)
    cbn [pend] in Wl.
    destruct (b =? 27).
    + cbn [fst snd]. split; [|cbn; lia].
      unfold WInv. rewrite data_set_st, data_upd_crc. cbn [set_st upd_crc st raw pend].
      change (data {| raw := raw d0 + 1; crc := crc d0; st := Normal; zc := zc d0; rbuf := rbuf d0 |}) with (data d0).
      repeat split; try assumption; lia.
    + destruct (push cap _ b) as [d'|] eqn:E; cbn [fst snd oom].
      * apply push_spec in E; [|exact Hz]. destruct E as (Ed & Er & _ & Es & _).
        rewrite data_upd_crc in Ed. cbn [upd_crc raw st] in Er, Es.
        change (data {| raw := raw d0 + 1; crc := crc d0; st := Normal; zc := zc d0; rbuf := rbuf d0 |}) with (data d0) in Ed.
        split; [|lia].
        unfold WInv. rewrite Ed, Er, Es. cbn [pend].
        split; [apply bytes_ok_app; split; [exact Wb|constructor; [exact Hb|constructor]]|].
        split; [rewrite lenN_app; cbn; lia|exact I].
      * split; [apply WInv_reset|cbn; lia].
  - (* EscChars *)
    cbn [pend] in Wl. destruct Hs as [Hn Hr].
    destruct (b =? 27); cbn [negb].
    + destruct (N.eqb_spec n 3) as [->|N3].
      * cbn [fst snd]. split; [|cbn; lia].
        unfold WInv. rewrite data_set_st, data_upd_crc. cbn [set_st upd_crc st raw pend].
        change (data {| raw := raw d0 + 1; crc := crc d0; st := EscChars 3; zc := zc d0; rbuf := rbuf d0 |}) with (data d0).
        split; [exact Wb|]. split; [lia|]. repeat constructor.
      * destruct (255 <=? n); [split; [apply WInv_reset|cbn; lia]|].
        cbn [fst snd]. split; [|cbn; lia].
        unfold WInv. rewrite data_set_st, data_upd_crc. cbn [set_st upd_crc st raw pend].
        change (data {| raw := raw d0 + 1; crc := crc d0; st := EscChars n; zc := zc d0; rbuf := rbuf d0 |}) with (data d0).
        split; [exact Wb|]. split; [lia|exact I].
    + destruct (push_many cap _ _) as [d'|] eqn:E; cbn [fst snd oom].
      * apply push_many_spec in E; [|exact Hz]. destruct E as (Ed & Er & _ & Es & _).
        rewrite data_upd_crc in Ed. cbn [upd_crc raw st] in Er, Es.
        change (data {| raw := raw d0 + 1; crc := crc d0; st := EscChars n; zc := zc d0; rbuf := rbuf d0 |}) with (data d0) in Ed.
        split; [|cbn [set_st raw]; lia].
        unfold WInv. rewrite data_set_st. cbn [set_st st raw pend]. rewrite Ed, Er.
        split.
        { apply bytes_ok_app; split; [exact Wb|]. apply bytes_ok_app; split; [apply bytes_ok_repeat; lia|].
          constructor; [exact Hb|constructor]. }
        split; [rewrite !lenN_app, lenN_repeat; cbn; lia|exact I].
      * split; [apply WInv_reset|cbn; lia].
  - (* EscPayload *)
    cbn [pend] in Wl. destruct Hs as (Hk & Hl & Hr).
    destruct (N.ltb_spec 3 k); [lia|].
    assert (Hl' : length (set_nth pl (N.to_nat k) b) = 4%nat) by (rewrite set_nth_length; lia).
    assert (Hp' : bytes_ok (set_nth pl (N.to_nat k) b)) by (apply bytes_ok_set_nth; assumption).
    destruct (N.ltb_spec k 3).
    + cbn [fst snd]. split; [|cbn; lia].
      unfold WInv. rewrite data_set_st. cbn [set_st st raw pend].
      change (data {| raw := raw d0 + 1; crc := crc d0; st := EscPayload k pl; zc := zc d0; rbuf := rbuf d0 |}) with (data d0).
      split; [exact Wb|]. split; [lia|exact Hp'].
    + assert (k = 3) by lia. subst k.
      pose proof (step_payload_full_winv cap
        {| raw := raw d0 + 1; crc := crc d0; st := EscPayload 3 pl; zc := zc d0; rbuf := rbuf d0 |}
        (set_nth pl (N.to_nat 3) b)) as X.
      cbn [zc raw] in X.
      change (data {| raw := raw d0 + 1; crc := crc d0; st := EscPayload 3 pl; zc := zc d0; rbuf := rbuf d0 |}) with (data d0) in X.
      destruct X as [X1 X2]; try assumption; [lia|]. split; [exact X1|lia].
Qed.

Theorem step_winv cap d b :
  GInv d -> WInv d -> b < 256 ->
  WInv (fst (step cap d b)) /\ raw (fst (step cap d b)) <= raw d + 1.
Proof.
  intros G W Hb. destruct (st d) eqn:S; try (apply step_winv_nd; try assumption; rewrite S; discriminate).
  rewrite (step_done cap d b S).
  destruct (step_winv_nd cap (reset_st d) b (GInv_reset d) (WInv_reset d)) as [X1 X2];
    [cbn; discriminate|exact Hb|].
  split; [exact X1|]. cbn [reset_st raw] in X2. lia.
Qed.

(* ---------- readers ---------- *)
Definition sev_ok (e : sev) : Prop := match e with SByte b => b < 256 | _ => True end.

Lemma src_read_ok k : forall evs evs' x,
  Forall sev_ok evs -> src_read k evs = (evs', x) ->
  Forall sev_ok evs' /\ (length evs' <= length evs)%nat /\
  match x with inl b => b < 256 /\ (length evs' < length evs)%nat | inr _ => True end.
Proof.
  induction evs as [|e r IH]; intros evs' x Hall H; cbn [src_read] in H.
  - inversion H; subst. repeat split; auto.
  - inversion Hall as [|? ? He Hr]; subst.
    destruct e as [b| | | |].
    + inversion H; subst. cbn [length]. unfold sev_ok in He. split; [exact Hr|]. split; [lia|]. split; [exact He|lia].
    + inversion H; subst. cbn [length]. split; [exact Hr|]. split; [lia|exact I].
    + destruct k.
      * inversion H; subst. cbn [length]. split; [exact Hr|]. split; [lia|exact I].
      * destruct (IH evs' x Hr H) as (A & B & C). cbn [length]. split; [exact A|]. split; [lia|].
        destruct x; [destruct C; split; [assumption|lia]|exact I].
      * inversion H; subst. cbn [length]. split; [exact Hr|]. split; [lia|exact I].
    + inversion H; subst. cbn [length]. split; [exact Hr|]. split; [lia|exact I].
    + inversion H; subst. cbn [length]. split; [exact Hr|]. split; [lia|exact I].
Qed.

Lemma push_res_winv cap d b :
  GInv d -> WInv d -> b < 256 ->
  WInv (fst (push_res cap d b)) /\ raw (fst (push_res cap d b)) <= raw d + 1 /\
  forall m, snd (push_res cap d b) = Some (RMsg m) ->
            bytes_ok m /\ lenN m <= raw (fst (push_res cap d b)).
Proof.
  intros G W Hb. unfold push_res.
  pose proof (step_winv cap d b G W Hb) as [W' R'].
  pose proof (step_msg_done cap d b) as Hm.
  destruct (step cap d b) as [d' o]. cbn [fst snd] in *.
  destruct o; cbn [fst snd]; try (split; [exact W'|split; [exact R'|intros m X; discriminate X]]).
  rewrite Hm by reflexivity. cbn [fst snd]. split; [exact W'|]. split; [exact R'|]. intros m H. split.
  - injection H as <-. rewrite frev_eq. destruct W' as (Wb & _ & _). unfold data in Wb.
    apply bytes_ok_app in Wb. tauto.
  - injection H as <-. rewrite frev_eq. destruct W' as (_ & Wl & _). rewrite Hm in Wl by reflexivity.
    cbn [pend] in Wl. unfold data in Wl. rewrite lenN_app in Wl. lia.
Qed.

Definition RInv (B : N) (r : reader) : Prop :=
  GInv (rd_dec r) /\ WInv (rd_dec r) /\ Forall sev_ok (rd_src r) /\ raw (rd_dec r) + lenN (rd_src r) <= B.

Lemma dr_read_loop_rinv cap B : forall fuel r,
  RInv B r -> (length (rd_src r) < fuel)%nat ->
  RInv B (fst (dr_read_loop fuel cap r)) /\ snd (dr_read_loop fuel cap r) <> RdPanic /\
  forall m, snd (dr_read_loop fuel cap r) = RdOk m -> bytes_ok m /\ lenN m <= B.
Proof.
  induction fuel as [|f IH]; intros r (G & W & S & Bd) Hf; [lia|].
  cbn [dr_read_loop].
  destruct (src_read (rd_kind r) (rd_src r)) as [src' x] eqn:Es.
  destruct (src_read_ok _ _ _ _ S Es) as (S' & L' & X).
  destruct x as [b|k].
  - destruct X as [Hb Hlt].
    pose proof (push_res_guard cap (rd_dec r) b G) as [Hp Hg].
    pose proof (push_res_winv cap (rd_dec r) b G W Hb) as (W' & R' & M').
    destruct (push_res cap (rd_dec r) b) as [d' o]. cbn [fst snd] in *.
    assert (RI : RInv B (mkrd d' (rd_kind r) src')).
    { unfold RInv. cbn [rd_dec rd_src]. split; [exact Hg|]. split; [exact W'|]. split; [exact S'|].
      unfold lenN in *. lia. }
    destruct o as [[m|e|]|]; try congruence; cbn [fst snd].
    + split; [exact RI|]. split; [discriminate|]. intros m' E. injection E as <-.
      destruct (M' m eq_refl) as [A1 A2]. split; [exact A1|]. unfold lenN in *. lia.
    + split; [exact RI|]. split; [discriminate|]. intros m' E. discriminate E.
    + apply IH; [exact RI|cbn [rd_src]; lia].
  - assert (RI0 : forall d, GInv d -> WInv d -> raw d <= raw (rd_dec r) -> RInv B (mkrd d (rd_kind r) src')).
    { intros d Gd Wd Rd. unfold RInv. cbn [rd_dec rd_src]. split; [exact Gd|]. split; [exact Wd|]. split; [exact S'|].
      unfold lenN in *. lia. }
    destruct k; cbn [reset fst snd].
    + split; [apply RI0; [apply GInv_reset|apply WInv_reset|cbn; lia]|]. split; [discriminate|intros m E; discriminate E].
    + split; [apply RI0; [exact G|exact W|lia]|]. split; [discriminate|intros m E; discriminate E].
    + split; [apply RI0; [apply GInv_reset|apply WInv_reset|cbn; lia]|]. split; [discriminate|intros m E; discriminate E].
Qed.

Lemma dr_read_rinv cap B r :
  RInv B r ->
  RInv B (fst (dr_read cap r)) /\ snd (dr_read cap r) <> RdPanic /\
  forall m, snd (dr_read cap r) = RdOk m -> bytes_ok m /\ lenN m <= B.
Proof. intros H. unfold dr_read. apply dr_read_loop_rinv; [exact H|lia]. Qed.

(* ---------- SmlReader: every method, every target type ---------- *)
Definition is_spanic (x : snext) : bool := match x with SPanic => true | _ => false end.
Definition call_panics_any (c : callres) : bool :=
  match c with
  | CItem IPanic => true
  | CItem (IEvents evs) => existsb is_spanic evs
  | _ => false
  end.

Lemma nones_no_panic l : forallb is_none l = true -> existsb is_spanic l = false.
Proof.
  induction l as [|x l IH]; cbn [forallb existsb]; [reflexivity|]. intros H.
  apply andb_true_iff in H. destruct H as [H1 H2]. destruct x; try discriminate. cbn. auto.
Qed.

Lemma well_ended_no_panic l : well_ended l = true -> existsb is_spanic l = false.
Proof.
  induction l as [|x l IH]; cbn [well_ended existsb]; [reflexivity|]. intros H.
  destruct x; cbn [is_spanic orb]; try discriminate; auto using nones_no_panic.
Qed.

Lemma parse_from_no_panic t x :
  x <> RdPanic -> (forall m, x = RdOk m -> ok_in m) ->
  call_panics_any (CItem (parse_from t x)) = false.
Proof.
  intros Hx Hm. destruct x as [m|e|k n|]; cbn [parse_from call_panics_any]; try reflexivity; [|congruence].
  specialize (Hm m eq_refl). destruct t; cbn [call_panics_any]; [reflexivity| |].
  - pose proof (parse_total m Hm) as T. destruct (parse m); [reflexivity|reflexivity|congruence].
  - unfold drain_parser. apply well_ended_no_panic.
    apply (sp_calls_shape (length m + 2) (sp_new m)). apply PInv_new. exact Hm.
Qed.

Lemma sr_call_rinv cap B mt t r :
  RInv B r -> B < 4294967296 ->
  call_panics_any (snd (sr_call cap mt t r)) = false /\ RInv B (fst (sr_call cap mt t r)).
Proof.
  intros H HB. destruct (dr_read_rinv cap B r H) as (RI & NP & OK).
  assert (OK' : forall m, snd (dr_read cap r) = RdOk m -> ok_in m).
  { intros m E. destruct (OK m E) as [A1 A2]. split; [exact A1|lia]. }
  destruct mt; unfold sr_call, dr_next, dr_next_nb, dr_read_nb;
    destruct (dr_read cap r) as [r' x]; cbn [fst snd] in *.
  - split; [apply parse_from_no_panic; assumption|exact RI].
  - destruct x as [m|e|k n|]; try congruence; cbn [fst snd];
      try (split; [apply parse_from_no_panic; assumption|exact RI]).
    destruct k; cbn [fst snd]; try (split; [apply parse_from_no_panic; assumption|exact RI]).
    destruct n; cbn [fst snd]; (split; [try reflexivity; apply parse_from_no_panic; assumption|exact RI]).
  - destruct x as [m|e|k n|]; try congruence; cbn [fst snd];
      try (split; [apply parse_from_no_panic; assumption|exact RI]).
    destruct k; cbn [fst snd]; (split; [try reflexivity; apply parse_from_no_panic; assumption|exact RI]).
  - destruct x as [m|e|k n|]; try congruence; cbn [fst snd];
      try (split; [apply parse_from_no_panic; assumption|exact RI]).
    destruct k; cbn [fst snd]; try (split; [try reflexivity; apply parse_from_no_panic; assumption|exact RI]).
    destruct n; cbn [fst snd]; (split; [try reflexivity; apply parse_from_no_panic; assumption|exact RI]).
Qed.

Theorem sr_calls_no_panic cap B : forall calls r,
  RInv B r -> B < 4294967296 ->
  forallb (fun c => negb (call_panics_any c)) (sr_calls cap calls r) = true.
Proof.
  induction calls as [|[mt t] cs IH]; intros r H HB; cbn [sr_calls]; [reflexivity|].
  pose proof (sr_call_rinv cap B mt t r H HB) as [Hp Hr].
  destruct (sr_call cap mt t r) as [r' x]. cbn [fst snd] in *.
  cbn [forallb]. rewrite Hp. cbn [negb andb]. apply IH; assumption.
Qed.

(* a fresh reader over any event list of bytes, shorter than 2^32 events *)
Theorem sr_calls_no_panic_new cap kind evs calls :
  Forall sev_ok evs -> lenN evs < 4294967296 ->
  forallb (fun c => negb (call_panics_any c)) (sr_calls cap calls (rd_new kind evs)) = true.
Proof.
  intros S L. apply (sr_calls_no_panic cap (lenN evs)); [|exact L].
  unfold RInv, rd_new. cbn [rd_dec rd_src]. split; [apply GInv_init|]. split; [apply WInv_init|]. split; [exact S|].
  cbn [init raw]. lia.
Qed.
