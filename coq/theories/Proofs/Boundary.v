(* C14: the decoder keeps no memory across transmission boundaries.
   [norm] erases what cannot influence the future (the state Done is a pending reset; the
   CRC register is dead while looking for a start sequence).  States with equal [norm] are
   bisimilar; every boundary event leaves a state whose [norm] is that of a new decoder. *)
Require Import Sml.Base.Prelude Sml.Base.Crc Sml.Spec.Frame Sml.Model.Decode.
Require Import Sml.Proofs.DecodeGuard.

Definition norm (d : dec) : dec :=
  match st d with
  | Done => mkdec 0 0 (Looking 0 0) 0 []
  | Looking disc n => mkdec (raw d) 0 (Looking disc n) (zc d) (rbuf d)
  | _ => d
  end.

Lemma norm_reset d : norm (reset_st d) = norm init.
Proof. reflexivity. Qed.

Lemma norm_idem d : norm (norm d) = norm d.
Proof. unfold norm. destruct (st d) eqn:E; cbn [st raw zc rbuf]; rewrite ?E; reflexivity. Qed.

(* one step from [norm d] and from [d]: same output, norm-equal successors; identical
   successors when a message is delivered *)
Lemma step_norm cap d b :
  snd (step cap (norm d) b) = snd (step cap d b) /\
  norm (fst (step cap (norm d) b)) = norm (fst (step cap d b)) /\
  (snd (step cap d b) = OMsg -> fst (step cap (norm d) b) = fst (step cap d b)).
Proof.
  destruct (st d) as [disc n| |n|k pl|] eqn:E.
  - (* Looking: the crc is never read *)
    unfold norm. rewrite E. unfold step. cbn [st raw crc zc rbuf]. rewrite ?E. cbn [st raw crc zc rbuf]. rewrite ?E.
    unfold step_looking, panic, set_st, reset_st. cbn [st raw crc zc rbuf].
    repeat match goal with |- context [if ?c then _ else _] => destruct c end;
      cbn [fst snd]; unfold norm; cbn [st raw zc rbuf]; repeat split; try reflexivity; intros Hx; discriminate Hx.
  - unfold norm. rewrite E. repeat split; reflexivity.
  - unfold norm. rewrite E. repeat split; reflexivity.
  - unfold norm. rewrite E. repeat split; reflexivity.
  - (* Done: push_byte resets first *)
    unfold norm. rewrite E. unfold step. cbn [st raw crc zc rbuf]. rewrite ?E.
    unfold reset_st. cbn [st raw crc zc rbuf].
    unfold step_looking, panic, set_st, reset_st. cbn [st raw crc zc rbuf].
    repeat match goal with |- context [if ?c then _ else _] => destruct c end;
      cbn [fst snd]; unfold norm; cbn [st raw zc rbuf]; repeat split; try reflexivity; intros Hx; discriminate Hx.
Qed.

Lemma step_norm2 cap d1 d2 b :
  norm d1 = norm d2 ->
  snd (step cap d1 b) = snd (step cap d2 b) /\
  norm (fst (step cap d1 b)) = norm (fst (step cap d2 b)) /\
  (snd (step cap d1 b) = OMsg -> fst (step cap d1 b) = fst (step cap d2 b)).
Proof.
  intros H.
  destruct (step_norm cap d1 b) as (A1 & B1 & C1).
  destruct (step_norm cap d2 b) as (A2 & B2 & C2).
  rewrite H in A1, B1, C1.
  repeat split.
  - congruence.
  - congruence.
  - intros Hm. rewrite <- C1 by exact Hm. apply C2. congruence.
Qed.

Lemma finalize_norm d : snd (finalize (norm d)) = snd (finalize d).
Proof.
  unfold finalize, norm. cbn [snd].
  destruct (st d) as [a n| | | |] eqn:E; cbn [st raw]; rewrite ?E; reflexivity.
Qed.

Lemma norm_finalize d1 d2 : norm d1 = norm d2 -> snd (finalize d1) = snd (finalize d2).
Proof. intros H. rewrite <- (finalize_norm d1), <- (finalize_norm d2), H. reflexivity. Qed.

Lemma reset_cnt_norm d : reset_cnt (norm d) = reset_cnt d.
Proof.
  unfold reset_cnt, norm.
  destruct (st d) as [a n| | | |] eqn:E; cbn [st raw]; rewrite ?E; reflexivity.
Qed.

Lemma norm_reset_cnt d1 d2 : norm d1 = norm d2 -> reset_cnt d1 = reset_cnt d2.
Proof. intros H. rewrite <- (reset_cnt_norm d1), <- (reset_cnt_norm d2), H. reflexivity. Qed.

Lemma do_op_norm cap d1 d2 o :
  norm d1 = norm d2 ->
  snd (do_op cap d1 o) = snd (do_op cap d2 o) /\ norm (fst (do_op cap d1 o)) = norm (fst (do_op cap d2 o)).
Proof.
  intros H. destruct o as [b| | |]; cbn [do_op].
  - destruct (step_norm2 cap d1 d2 b H) as (A & B & C).
    destruct (step cap d1 b) as [e1 r1], (step cap d2 b) as [e2 r2]. cbn [fst snd] in *. subst r2.
    destruct r1; cbn [fst snd]; try (split; [reflexivity|exact B]).
    specialize (C eq_refl). subst e2. split; reflexivity.
  - cbn [fst snd finalize]. split; [|reflexivity].
    pose proof (norm_finalize d1 d2 H) as F. cbn [finalize snd] in F. rewrite F. reflexivity.
  - cbn [fst snd reset]. split; [|reflexivity]. rewrite (norm_reset_cnt d1 d2 H). reflexivity.
  - split; reflexivity.
Qed.

Theorem run_ops_norm cap : forall ops d1 d2,
  norm d1 = norm d2 -> snd (run_ops cap d1 ops) = snd (run_ops cap d2 ops).
Proof.
  induction ops as [|o r IH]; intros d1 d2 H; cbn [run_ops]; [reflexivity|].
  destruct (do_op_norm cap d1 d2 o H) as [A B].
  destruct (do_op cap d1 o) as [e1 x1], (do_op cap d2 o) as [e2 x2]. cbn [fst snd] in *. subst x2.
  specialize (IH e1 e2 B).
  destruct (run_ops cap e1 r), (run_ops cap e2 r). cbn [snd] in *. subst. reflexivity.
Qed.

(* ---------- boundary events ---------- *)
Definition boundary_ev (e : ev) : bool :=
  match e with
  | EvPush OMsg _ => true
  | EvPush (OErr (InvalidMessage _ _ _ _ _)) _ => true
  | EvPush (OErr (InvalidEsc _)) _ => true
  | EvPush (OErr OutOfMemory) _ => true
  | EvFin _ => true
  | EvReset _ => true
  | EvNew => true
  | _ => false
  end.

Lemma step_err_reset cap d b e :
  snd (step cap d b) = OErr e -> (forall n, e <> DiscardedBytes n) ->
  norm (fst (step cap d b)) = norm init.
Proof.
  unfold step.
  set (d0' := match st d with Done => reset_st d | _ => d end).
  destruct (st {| raw := raw d0' + 1; crc := crc d0'; st := st d0'; zc := zc d0'; rbuf := rbuf d0' |}) eqn:S;
    cbn [st] in S; rewrite ?S; intros H Hn.
  - unfold step_looking, panic in *.
    repeat match type of H with context [if ?c then _ else _] => destruct c end;
      cbn [snd fst] in *; try discriminate; try reflexivity; inversion H; subst; exfalso; eapply Hn; reflexivity.
  - unfold oom, panic in *.
    repeat match type of H with context [if ?c then _ else _] => destruct c end;
      repeat match type of H with context [match ?c with Some _ => _ | None => _ end] => destruct c end;
      cbn [snd fst] in *; try discriminate; reflexivity.
  - unfold oom, panic in *.
    repeat match type of H with context [if ?c then _ else _] => destruct c end;
      repeat match type of H with context [match ?c with Some _ => _ | None => _ end] => destruct c end;
      cbn [snd fst] in *; try discriminate; reflexivity.
  - unfold step_payload_full, oom, panic in *.
    repeat match type of H with context [if ?c then _ else _] => destruct c end;
      repeat match type of H with context [match ?c with Some _ => _ | None => _ end] => destruct c end;
      cbn [snd fst] in *; try discriminate; try reflexivity;
      inversion H; subst; exfalso; eapply Hn; reflexivity.
  - cbn [panic snd] in H. discriminate.
Qed.

Theorem boundary_is_fresh cap d0 o :
  boundary_ev (snd (do_op cap d0 o)) = true -> norm (fst (do_op cap d0 o)) = norm init.
Proof.
  destruct o as [b| | |]; cbn [do_op].
  - pose proof (step_err_reset cap d0 b) as HE.
    destruct (step cap d0 b) as [d' r] eqn:Es. cbn [fst snd] in *.
    destruct r as [| |e|]; cbn [fst snd boundary_ev]; try discriminate.
    + destruct (st d') eqn:Sd; cbn [fst snd boundary_ev]; try discriminate.
      intros _. unfold norm. rewrite Sd. reflexivity.
    + intros Hb. apply (HE e eq_refl). intros n ->. discriminate.
  - cbn [finalize fst]. intros _. reflexivity.
  - cbn [reset fst]. intros _. reflexivity.
  - intros _. reflexivity.
Qed.

(* the property: after a boundary event the decoder behaves, on every continuation, exactly
   like a newly constructed one *)
Theorem after_boundary_like_new cap d0 o ops2 :
  boundary_ev (snd (do_op cap d0 o)) = true ->
  snd (run_ops cap (fst (do_op cap d0 o)) ops2) = snd (run_ops cap init ops2).
Proof. intros H. apply run_ops_norm. apply boundary_is_fresh. exact H. Qed.

(* run_ops over a concatenation *)
Lemma run_ops_cons cap d o r :
  snd (run_ops cap d (o :: r)) = snd (do_op cap d o) :: snd (run_ops cap (fst (do_op cap d o)) r) /\
  fst (run_ops cap d (o :: r)) = fst (run_ops cap (fst (do_op cap d o)) r).
Proof.
  cbn [run_ops]. destruct (do_op cap d o) as [d' e]. cbn [fst snd].
  destruct (run_ops cap d' r) as [a es]. cbn [fst snd]. split; reflexivity.
Qed.

Lemma run_ops_app cap : forall ops1 ops2 d,
  snd (run_ops cap d (ops1 ++ ops2)) =
  snd (run_ops cap d ops1) ++ snd (run_ops cap (fst (run_ops cap d ops1)) ops2).
Proof.
  induction ops1 as [|o r IH]; intros ops2 d.
  - reflexivity.
  - change ((o :: r) ++ ops2) with (o :: (r ++ ops2)).
    destruct (run_ops_cons cap d o (r ++ ops2)) as [A _].
    destruct (run_ops_cons cap d o r) as [B C].
    rewrite A, B, C, IH. reflexivity.
Qed.

Lemma run_ops_snoc_state cap : forall ops d o,
  fst (run_ops cap d (ops ++ [o])) = fst (do_op cap (fst (run_ops cap d ops)) o) /\
  last (snd (run_ops cap d (ops ++ [o]))) EvNew = snd (do_op cap (fst (run_ops cap d ops)) o).
Proof.
  induction ops as [|x r IH]; intros d o.
  - cbn [app]. destruct (run_ops_cons cap d o []) as [A B]. rewrite A, B. cbn [run_ops fst snd last]. split; reflexivity.
  - change ((x :: r) ++ [o]) with (x :: (r ++ [o])).
    destruct (run_ops_cons cap d x (r ++ [o])) as [A B].
    destruct (run_ops_cons cap d x r) as [_ C].
    rewrite A, B, C. destruct (IH (fst (do_op cap d x)) o) as [I1 I2]. split; [exact I1|].
    rewrite <- I2.
    destruct (snd (run_ops cap (fst (do_op cap d x)) (r ++ [o]))) as [|y ys] eqn:E; [|reflexivity].
    exfalso. destruct r as [|z zs]; cbn [app] in E.
    + destruct (run_ops_cons cap (fst (do_op cap d x)) o []) as [A' _]. rewrite A' in E. discriminate.
    + destruct (run_ops_cons cap (fst (do_op cap d x)) z (zs ++ [o])) as [A' _]. rewrite A' in E. discriminate.
Qed.

(* decoding a concatenation = concatenating the decodings when the split falls on a boundary *)
Theorem concat_at_boundary cap ops1 o ops2 :
  boundary_ev (last (snd (run_ops cap init (ops1 ++ [o]))) EvNew) = true ->
  snd (run_ops cap init ((ops1 ++ [o]) ++ ops2)) =
  snd (run_ops cap init (ops1 ++ [o])) ++ snd (run_ops cap init ops2).
Proof.
  intros H. rewrite run_ops_app. f_equal.
  destruct (run_ops_snoc_state cap ops1 init o) as [S1 S2].
  rewrite S1. rewrite S2 in H. apply after_boundary_like_new. exact H.
Qed.
