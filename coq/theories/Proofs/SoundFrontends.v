(* C02 for the front-ends (through C15), and C01's corollary that framing is injective. *)
Require Import Sml.Base.Prelude Sml.Base.Crc Sml.Spec.Frame Sml.Model.Decode Sml.Model.Encode.
Require Import Sml.Model.Frontends Sml.Model.Parser Sml.Model.Reader.
Require Import Sml.Proofs.EncFold Sml.Proofs.DecodeSound Sml.Proofs.DecodeGuard.
Require Import Sml.Proofs.RoundTrip Sml.Proofs.FrontendsAgree Sml.Proofs.EndToEnd.

Lemma results_msg_in os m : In (RMsg m) (results os) -> exists i, nth i os (ONone, []) = (OMsg, m).
Proof.
  induction os as [|[o x] r IH]; cbn [results]; [intros []|].
  destruct o; cbn [In]; intros H.
  - destruct (IH H) as [i Hi]. exists (S i). exact Hi.
  - destruct H as [H|H]; [injection H as ->; exists 0%nat; reflexivity|].
    destruct (IH H) as [i Hi]. exists (S i). exact Hi.
  - destruct H as [H|H]; [discriminate H|]. destruct (IH H) as [i Hi]. exists (S i). exact Hi.
  - destruct H as [H|H]; [discriminate H|]. destruct (IH H) as [i Hi]. exists (S i). exact Hi.
Qed.

Lemma fin_no_msg d m : ~ In (RMsg m) (fin d).
Proof. unfold fin. destruct (snd (finalize d)); cbn [In]; [intros [H|[]]; discriminate H|intros []]. Qed.

Lemma run_msg_substring cap s m :
  bytes_ok s -> In (RMsg m) (results (snd (run cap init s)) ++ fin (fst (run cap init s))) ->
  exists pre suf, s = pre ++ frame m ++ suf.
Proof.
  intros Hs H. apply in_app_or in H. destruct H as [H|H]; [|exfalso; exact (fin_no_msg _ _ H)].
  destruct (results_msg_in _ _ H) as [i Hi].
  destruct (decoder_sound_init cap s i m Hs Hi) as [pre Hp].
  exists pre, (skipn (S i) s). rewrite <- frame_enc_frame, app_assoc, <- Hp. symmetry. apply firstn_skipn.
Qed.

Theorem frontends_sound s m :
  bytes_ok s ->
  (In (RMsg m) (decode_fn s) -> exists pre suf, s = pre ++ frame m ++ suf) /\
  (forall cap, In (RMsg m) (snd (di_all cap (length s + 2) (di_new s))) -> exists pre suf, s = pre ++ frame m ++ suf) /\
  (forall cap kind, kind <> KEh ->
     In (RdOk m) (snd (rd_all cap (length s + 2) (rd_new kind (map SByte s)))) ->
     exists pre suf, s = pre ++ frame m ++ suf).
Proof.
  intros Hs. destruct (frontends_agree s) as (A & B & C).
  split; [rewrite A; apply run_msg_substring; exact Hs|]. split.
  - intros cap. destruct (B cap) as [B1 _]. rewrite B1. apply run_msg_substring; exact Hs.
  - intros cap kind Hk. rewrite (C cap kind Hk). intros H.
    apply (run_msg_substring cap s m Hs).
    apply in_app_or in H. apply in_or_app. destruct H as [H|H].
    + left. apply in_map_iff in H. destruct H as (x & Ex & Hx). destruct x; try discriminate Ex.
      injection Ex as ->. exact Hx.
    + exfalso. apply in_map_iff in H. destruct H as (x & Ex & Hx).
      unfold fin in Hx. destruct (snd (finalize _)) as [e|]; [|destruct Hx].
      destruct Hx as [<-|[]]. destruct e; discriminate Ex.
Qed.

(* framing is injective: two payloads with the same frame are equal *)
Theorem frame_injective p q : frame p = frame q -> p = q.
Proof.
  intros H.
  destruct (roundtrip_all None p I) as (_ & _ & _ & Dp & _).
  destruct (roundtrip_all None q I) as (_ & _ & _ & Dq & _).
  rewrite H in Dp. rewrite Dp in Dq. injection Dq as ->. reflexivity.
Qed.
