(* C12: type-length fields and primitive values are decoded exactly or rejected. *)
Require Import Sml.Base.Prelude Sml.Base.Crc Sml.Model.Parser Sml.Spec.TlfRef.

(* ---------- bit operations on bytes, by a complete sweep of the 256 values ---------- *)
Lemma byte_bits b : b < 256 ->
  negb (N.land b 0x80 =? 0) = (128 <=? b) /\
  N.land (N.shiftr b 4) 0x07 = type_bits b /\
  N.land b 0x0F = b mod 16.
Proof.
  intros Hb.
  pose proof (byte_sweep (fun b =>
    Bool.eqb (negb (N.land b 0x80 =? 0)) (128 <=? b) &&
    (N.land (N.shiftr b 4) 0x07 =? (b / 16) mod 8) && (N.land b 0x0F =? b mod 16))) as S.
  specialize (S ltac:(vm_compute; reflexivity) b Hb). cbv beta in S.
  rewrite !andb_true_iff, !N.eqb_eq, Bool.eqb_true_iff in S. destruct S as [[A B] C].
  unfold type_bits. auto.
Qed.

Lemma ty_from_byte_spec t : ty_from_byte t = ty_of_bits t.
Proof. reflexivity. Qed.

(* ---------- the continuation loop ---------- *)
Definition u32_lim : N := 4294967296.

Lemma nibbles_mono t : forall acc, acc <= nibbles t acc.
Proof.
  induction t as [|b r IH]; intros acc; cbn [nibbles fold_left]; [lia|].
  specialize (IH (acc * 16 + b mod 16)). unfold nibbles in IH. lia.
Qed.

Lemma tlf_loop_spec : forall input len k,
  bytes_ok input -> len < u32_lim -> k + lenN input < u32_lim ->
  match tlf_loop input len k with
  | POk rest (len', k') =>
      exists t, cont_bytes input = Some (t, rest) /\
                forallb (fun b => type_bits b =? 0) t = true /\
                len' = nibbles t len /\ k' = k + lenN t /\ len' < u32_lim
  | PErr _ =>
      cont_bytes input = None \/
      exists t rest, cont_bytes input = Some (t, rest) /\
                     (forallb (fun b => type_bits b =? 0) t = false \/ u32_lim <= nibbles t len)
  | PPanic => False
  end.
Proof.
  unfold u32_lim.
  induction input as [|b r IH]; intros len k Hok Hlen Hk; cbn [tlf_loop cont_bytes].
  - left. reflexivity.
  - inversion Hok as [|? ? Hb Hr]; subst.
    destruct (byte_bits b Hb) as (B1 & B2 & B3). rewrite B1, B2, B3.
    rewrite lenN_cons in Hk.
    destruct (N.eqb_spec (type_bits b) 0) as [T0|T0]; cbn [negb].
    + unfold u32_max.
      destruct (N.ltb_spec 4294967295 (len * 16)) as [Hov|Hov].
      * (* overflow: the final value is at least this large *)
        destruct (128 <=? b).
        -- destruct (cont_bytes r) as [[t rest]|] eqn:Ec; [|left; reflexivity].
           right. exists (b :: t), rest. split; [reflexivity|]. right.
           cbn [nibbles fold_left]. pose proof (nibbles_mono t (len * 16 + b mod 16)). unfold nibbles in *. lia.
        -- right. exists [b], r. split; [reflexivity|]. right. cbn [nibbles fold_left]. lia.
      * destruct (N.ltb_spec 4294967295 (len * 16 + b mod 16)); [lia|].
        destruct (N.ltb_spec 4294967295 (k + 1)); [lia|].
        destruct (128 <=? b).
        -- specialize (IH (len * 16 + b mod 16) (k + 1) Hr ltac:(lia) ltac:(lia)).
           destruct (tlf_loop r (len * 16 + b mod 16) (k + 1)) as [rest [len' k']|e|].
           ++ destruct IH as (t & Ec & Ht & Hl & Hk' & Hlt). rewrite Ec.
              exists (b :: t). split; [reflexivity|]. cbn [forallb]. rewrite T0, N.eqb_refl. cbn [andb].
              split; [exact Ht|]. split; [exact Hl|]. split; [rewrite lenN_cons; lia|exact Hlt].
           ++ destruct IH as [Ec|(t & rest & Ec & Hbad)]; [left; rewrite Ec; reflexivity|].
              right. rewrite Ec. exists (b :: t), rest. split; [reflexivity|].
              cbn [forallb nibbles fold_left]. rewrite T0, N.eqb_refl. cbn [andb]. exact Hbad.
           ++ exact IH.
        -- exists [b]. split; [reflexivity|]. cbn [forallb nibbles fold_left]. rewrite T0, N.eqb_refl.
           split; [reflexivity|]. split; [reflexivity|]. split; [unfold lenN; cbn; lia|lia].
    + (* type bits set in a continuation byte *)
      destruct (128 <=? b).
      * destruct (cont_bytes r) as [[t rest]|] eqn:Ec; [|left; reflexivity].
        right. exists (b :: t), rest. split; [reflexivity|]. left. cbn [forallb].
        destruct (N.eqb_spec (type_bits b) 0); [contradiction|]. reflexivity.
      * right. exists [b], r. split; [reflexivity|]. left. cbn [forallb].
        destruct (N.eqb_spec (type_bits b) 0); [contradiction|]. reflexivity.
Qed.

(* ---------- TypeLengthField::parse = tlf_ref ---------- *)
Theorem tlf_parse_exact input :
  bytes_ok input -> lenN input < u32_lim ->
  match tlf_parse input with
  | POk rest t => tlf_ref input = Some (tty t, tlen t, rest)
  | PErr _ => tlf_ref input = None
  | PPanic => False
  end.
Proof.
  unfold u32_lim. intros Hok Hlen. unfold tlf_parse, tlf_byte, take_byte, tlf_ref.
  destruct input as [|b0 r]; cbn [pbind]; [reflexivity|].
  inversion Hok as [|? ? Hb Hr]; subst. rewrite lenN_cons in Hlen.
  destruct (byte_bits b0 Hb) as (B1 & B2 & B3). rewrite B1, B2, B3.
  rewrite ty_from_byte_spec.
  destruct (ty_of_bits (type_bits b0)) as [ty|] eqn:Ety.
  2:{ destruct (128 <=? b0); [destruct (cont_bytes r) as [[? ?]|]|]; reflexivity. }
  destruct (128 <=? b0) eqn:Emore.
  - (* multi-byte *)
    destruct (ty_eqb ty TBool) eqn:Eb; cbn [andb].
    + destruct (cont_bytes r) as [[more rest]|] eqn:Ec; [|reflexivity].
      destruct (negb (forallb (fun b => type_bits b =? 0) more)); [reflexivity|].
      destruct more as [|m1 more']; [|reflexivity].
      (* cont_bytes never returns an empty list *)
      exfalso. destruct r as [|x r']; cbn [cont_bytes] in Ec; [discriminate|].
      destruct (128 <=? x); [destruct (cont_bytes r') as [[? ?]|]; discriminate|discriminate].
    + pose proof (tlf_loop_spec r (b0 mod 16) 1 Hr ltac:(unfold u32_lim; lia) ltac:(unfold u32_lim; lia)) as L.
      destruct (tlf_loop r (b0 mod 16) 1) as [rest [len' k']|e|]; cbn [pbind].
      * destruct L as (t & Ec & Ht & Hl & Hk' & Hlt). rewrite Ec, Ht. cbn [negb].
        assert (HV : nibbles (b0 :: t) 0 = len') by (cbn [nibbles fold_left]; rewrite Hl; reflexivity).
        assert (HK : lenN (b0 :: t) = k') by (rewrite lenN_cons, Hk'; reflexivity).
        rewrite HV, HK. unfold u32_lim in Hlt.
        destruct (N.leb_spec 4294967296 len'); [lia|].
        destruct (ty_eqb ty TList); [reflexivity|].
        destruct (N.ltb_spec len' k'); reflexivity.
      * destruct L as [Ec|(t & rest & Ec & Hbad)]; [rewrite Ec; reflexivity|].
        rewrite Ec. destruct Hbad as [Hf|Hov].
        -- rewrite Hf. reflexivity.
        -- destruct (negb (forallb (fun b => type_bits b =? 0) t)); [reflexivity|].
           assert (HV : nibbles (b0 :: t) 0 = nibbles t (b0 mod 16)) by reflexivity.
           rewrite HV. unfold u32_lim in Hov. destruct (N.leb_spec 4294967296 (nibbles t (b0 mod 16))); [reflexivity|lia].
      * exact L.
  - (* single byte *)
    cbn [andb forallb negb]. rewrite andb_false_r. cbn [pbind nibbles fold_left].
    change (lenN [b0]) with 1.
    destruct (N.leb_spec 4294967296 (0 * 16 + b0 mod 16)); [lia|].
    replace (0 * 16 + b0 mod 16) with (b0 mod 16) by lia.
    destruct (ty_eqb ty TList); [reflexivity|].
    destruct (N.ltb_spec (b0 mod 16) 1); reflexivity.
Qed.

(* ---------- integers ---------- *)
Lemma be_val_fold : forall bs acc, be_val acc bs = fold_left (fun a b => a * 256 + b) bs acc.
Proof. induction bs as [|b r IH]; intros acc; cbn [be_val fold_left]; [reflexivity|apply IH]. Qed.

Lemma uns_of_be bs : uns_of bs = be bs.
Proof. unfold uns_of, be. apply be_val_fold. Qed.

(* leading zero bytes do not change the value *)
Lemma be_zeros j data : be (repeat 0 j ++ data) = be data.
Proof.
  unfold be. rewrite fold_left_app. f_equal.
  induction j as [|j IH]; cbn [repeat fold_left]; [reflexivity|]. exact IH.
Qed.

Ltac split_bytes H :=
  repeat match type of H with
  | Forall _ (_ :: _) => let Hb := fresh "Hb" in let Hr := fresh "Hr" in
                         inversion H as [|? ? Hb Hr]; subst; clear H; rename Hr into H
  end.

(* sign extension: the SIZE-byte buffer filled with 0xFF / 0x00 in front of the k data bytes
   has the k-byte two's complement value of the data bytes (SIZE in {1,2,4,8}, 1 <= k <= SIZE) *)
Lemma int_of_exact size data :
  (size = 1 \/ size = 2 \/ size = 4 \/ size = 8) ->
  1 <= lenN data <= size -> bytes_ok data ->
  int_of size (repeat (if 0x7F <? hd 0 data then 0xFF else 0x00) (N.to_nat (size - lenN data)) ++ data) = twos data.
Proof.
  intros Hs Hl Hok. unfold lenN in *.
  destruct data as [|b1 [|b2 [|b3 [|b4 [|b5 [|b6 [|b7 [|b8 [|b9 r]]]]]]]]];
    cbn [length] in Hl; try lia;
    destruct Hs as [->|[->|[-> | ->]]]; try lia;
    unfold bytes_ok in Hok; split_bytes Hok;
    cbn [length hd]; norm_nat;
    unfold int_of, twos, be; rewrite be_val_fold;
    (destruct (N.ltb_spec 127 b1);
     cbn [repeat app fold_left length];
     match goal with |- (if ?c then _ else _) = (if ?c' then _ else _) =>
       destruct c eqn:C1; destruct c' eqn:C2;
       try apply Z.leb_le in C1; try apply Z.leb_gt in C1;
       try apply Z.leb_le in C2; try apply Z.leb_gt in C2 end;
     cbn in *; lia).
Qed.

Lemma take_n_app data rest : take_n (data ++ rest) (lenN data) = POk rest data.
Proof.
  unfold take_n. rewrite lenN_app. destruct (N.ltb_spec (lenN data + lenN rest) (lenN data)); [lia|].
  unfold lenN. rewrite Nat2N.id.
  rewrite skipn_app, skipn_all, Nat.sub_diag. cbn [skipn app].
  rewrite firstn_app, Nat.sub_diag, firstn_all. cbn [firstn]. rewrite app_nil_r. reflexivity.
Qed.

Lemma parse_num_ok size signed data rest t :
  tlen t = lenN data -> 1 <= lenN data <= size ->
  parse_num size signed (data ++ rest) t =
  POk rest (repeat (if signed then (if 0x7F <? hd 0 data then 0xFF else 0x00) else 0x00)
                   (N.to_nat (size - lenN data)) ++ data).
Proof.
  intros Ht Hl. unfold parse_num. rewrite Ht, take_n_app. cbn [pbind].
  destruct signed.
  - destruct data as [|b0 r]; [unfold lenN in Hl; cbn in Hl; lia|]. cbn [hd].
    destruct (N.ltb_spec size (lenN (b0 :: r))); [lia|]. reflexivity.
  - destruct (N.ltb_spec size (lenN data)); [lia|]. reflexivity.
Qed.

Definition std_size (size : N) : Prop := size = 1 \/ size = 2 \/ size = 4 \/ size = 8.

Theorem int_with_tlf_exact size data rest t :
  std_size size -> tlen t = lenN data -> 1 <= lenN data <= size -> bytes_ok data ->
  int_with_tlf size (data ++ rest) t = POk rest (twos data).
Proof.
  intros Hs Ht Hl Hok. unfold int_with_tlf. rewrite (parse_num_ok size true data rest t Ht Hl).
  cbn [pmap]. rewrite (int_of_exact size data Hs Hl Hok). reflexivity.
Qed.

Theorem uns_with_tlf_exact size data rest t :
  tlen t = lenN data -> 1 <= lenN data <= size ->
  uns_with_tlf size (data ++ rest) t = POk rest (be data).
Proof.
  intros Ht Hl. unfold uns_with_tlf. rewrite (parse_num_ok size false data rest t Ht Hl).
  cbn [pmap]. rewrite uns_of_be, be_zeros. reflexivity.
Qed.

(* the width class of a Value / Status is the narrowest standard width holding the encoded size *)
Definition int_variant (k : N) (z : Z) : value :=
  if k =? 1 then VI8 z else if k =? 2 then VI16 z else if k <=? 4 then VI32 z else VI64 z.
Definition uns_variant (k : N) (v : N) : value :=
  if k =? 1 then VU8 v else if k =? 2 then VU16 v else if k <=? 4 then VU32 v else VU64 v.
Definition status_variant (k : N) (v : N) : status :=
  if k =? 1 then Status8 v else if k =? 2 then Status16 v else if k <=? 4 then Status32 v else Status64 v.

Ltac kcases k Hl :=
  assert (k = 1 \/ k = 2 \/ k = 3 \/ k = 4 \/ k = 5 \/ k = 6 \/ k = 7 \/ k = 8) as Hkc by lia;
  destruct Hkc as [Hk|[Hk|[Hk|[Hk|[Hk|[Hk|[Hk|Hk]]]]]]].

Theorem value_int_exact data rest :
  1 <= lenN data <= 8 -> bytes_ok data ->
  value_with_tlf (data ++ rest) (mktlf TInt (lenN data)) = POk rest (int_variant (lenN data) (twos data)).
Proof.
  intros Hl Hok. unfold value_with_tlf, bool_check, octet_check, num_check, tlf_eqb, int_variant.
  cbn [tty tlen ty_eqb andb].
  remember (lenN data) as k eqn:Ek.
  kcases k Hl; rewrite Hk in *;
    repeat match goal with |- context [?a <=? ?b] => first [change (a <=? b) with true | change (a <=? b) with false] end;
    repeat match goal with |- context [?a =? ?b] => first [change (a =? b) with true | change (a =? b) with false] end;
    cbn [andb negb];
    (erewrite int_with_tlf_exact; [reflexivity|unfold std_size; lia|cbn [tlen]; exact Ek|lia|exact Hok]).
Qed.

Theorem value_uns_exact data rest :
  1 <= lenN data <= 8 -> bytes_ok data ->
  value_with_tlf (data ++ rest) (mktlf TUns (lenN data)) = POk rest (uns_variant (lenN data) (be data)).
Proof.
  intros Hl Hok. unfold value_with_tlf, bool_check, octet_check, num_check, tlf_eqb, uns_variant.
  cbn [tty tlen ty_eqb andb].
  remember (lenN data) as k eqn:Ek.
  kcases k Hl; rewrite Hk in *;
    repeat match goal with |- context [?a <=? ?b] => first [change (a <=? b) with true | change (a <=? b) with false] end;
    repeat match goal with |- context [?a =? ?b] => first [change (a =? b) with true | change (a =? b) with false] end;
    cbn [andb negb];
    (erewrite uns_with_tlf_exact; [reflexivity|cbn [tlen]; exact Ek|lia]).
Qed.

Theorem status_exact data rest :
  1 <= lenN data <= 8 ->
  status_with_tlf (data ++ rest) (mktlf TUns (lenN data)) = POk rest (status_variant (lenN data) (be data)).
Proof.
  intros Hl. unfold status_with_tlf, num_check, status_variant.
  cbn [tty tlen ty_eqb andb].
  remember (lenN data) as k eqn:Ek.
  kcases k Hl; rewrite Hk in *;
    repeat match goal with |- context [?a <=? ?b] => first [change (a <=? b) with true | change (a <=? b) with false] end;
    repeat match goal with |- context [?a =? ?b] => first [change (a =? b) with true | change (a =? b) with false] end;
    cbn [andb negb];
    (erewrite uns_with_tlf_exact; [reflexivity|cbn [tlen]; exact Ek|lia]).
Qed.

(* integers longer than 8 bytes, or of length 0, are rejected *)
Theorem value_int_rejects k input :
  (k = 0 \/ 8 < k) -> forall ity, (ity = TInt \/ ity = TUns) ->
  value_with_tlf input (mktlf ity k) = PErr TlfMismatch.
Proof.
  intros Hk ity Hi. unfold value_with_tlf, bool_check, octet_check, num_check, listtype_check, tlf_eqb.
  cbn [tty tlen].
  destruct Hi as [-> | ->]; cbn [ty_eqb andb];
    destruct Hk as [->|Hk]; cbn [andb negb];
    repeat match goal with |- context [?a <=? ?b] => destruct (N.leb_spec a b); try lia end;
    repeat match goal with |- context [?a =? ?b] => destruct (N.eqb_spec a b); try lia end;
    cbn [andb negb]; reflexivity.
Qed.

(* booleans: a non-zero test; byte strings: exactly the designated bytes *)
Theorem value_bool_exact b rest :
  value_with_tlf (b :: rest) (mktlf TBool 1) = POk rest (VBool (0 <? b)).
Proof. reflexivity. Qed.

Theorem octet_exact data rest :
  octet_with_tlf (data ++ rest) (mktlf TOctet (lenN data)) = POk rest data.
Proof. unfold octet_with_tlf. cbn [tlen]. apply take_n_app. Qed.

Theorem value_octet_exact data rest :
  value_with_tlf (data ++ rest) (mktlf TOctet (lenN data)) = POk rest (VBytes data).
Proof.
  unfold value_with_tlf, bool_check, octet_check, tlf_eqb. cbn [tty tlen ty_eqb andb].
  rewrite octet_exact. reflexivity.
Qed.
