(* C18: ArrayBuf<N> refines the ideal bounded vector. *)
Require Import Sml.Base.Prelude Sml.Model.ArrayBuf Sml.Spec.BoundedVec.

Definition RInv (n : nat) (a : abuf) : Prop := length (ab_buf a) = n /\ (ab_num a <= n)%nat.
Definition abs (a : abuf) : list byte := firstn (ab_num a) (ab_buf a).

Lemma RInv_default n : RInv n (ab_default n).
Proof. unfold RInv, ab_default. cbn. rewrite repeat_length. lia. Qed.

Lemma abs_default n : abs (ab_default n) = [].
Proof. reflexivity. Qed.

Lemma abs_length n a : RInv n a -> length (abs a) = ab_num a.
Proof. intros [Hl Hn]. unfold abs. rewrite firstn_length. lia. Qed.

Lemma deref_abs n a : RInv n a -> ab_deref a = Some (abs a).
Proof.
  intros [Hl Hn]. unfold ab_deref, abs. destruct (Nat.leb_spec (ab_num a) (length (ab_buf a))); [reflexivity|lia].
Qed.

Lemma firstn_app_exact {A} (l1 l2 : list A) : firstn (length l1) (l1 ++ l2) = l1.
Proof. rewrite firstn_app, Nat.sub_diag, firstn_all. cbn. apply app_nil_r. Qed.

Theorem ab_do_refines n a o :
  RInv n a ->
  snd (ab_do n a o) = snd (bv_do n (abs a) o) /\
  abs (fst (ab_do n a o)) = fst (bv_do n (abs a) o) /\
  RInv n (fst (ab_do n a o)).
Proof.
  intros R. pose proof (abs_length n a R) as La. destruct R as [Hl Hn].
  destruct o as [b|l|k|]; cbn [ab_do bv_do].
  - (* push *)
    unfold ab_push. rewrite La.
    destruct (Nat.eqb_spec (ab_num a) n) as [E|NE].
    + destruct (Nat.ltb_spec (ab_num a) n); [lia|]. cbn [fst snd]. repeat split; assumption.
    + destruct (Nat.ltb_spec (ab_num a) n); [|lia].
      destruct (Nat.ltb_spec (ab_num a) (length (ab_buf a))); [|lia].
      cbn [fst snd]. split; [reflexivity|]. split.
      * unfold abs, set_at. cbn [ab_num ab_buf].
        assert (Hf : length (firstn (ab_num a) (ab_buf a)) = ab_num a) by (rewrite firstn_length; lia).
        replace (S (ab_num a)) with (length (firstn (ab_num a) (ab_buf a) ++ [b]))
          by (rewrite app_length; cbn [length]; lia).
        rewrite (app_assoc (firstn (ab_num a) (ab_buf a)) [b]).
        apply firstn_app_exact.
      * unfold RInv, set_at. cbn [ab_num ab_buf].
        rewrite !app_length, firstn_length, skipn_length. cbn [length]. lia.
  - (* extend_from_slice *)
    unfold ab_extend. rewrite La.
    destruct (Nat.ltb_spec n (ab_num a + length l)).
    + destruct (Nat.leb_spec (ab_num a + length l) n); [lia|]. cbn [fst snd]. repeat split; assumption.
    + destruct (Nat.leb_spec (ab_num a + length l) n); [|lia].
      destruct (Nat.leb_spec (ab_num a + length l) (length (ab_buf a))); [|lia].
      cbn [fst snd]. split; [reflexivity|]. split.
      * unfold abs. cbn [ab_num ab_buf].
        assert (Hf : length (firstn (ab_num a) (ab_buf a)) = ab_num a) by (rewrite firstn_length; lia).
        replace (ab_num a + length l)%nat with (length (firstn (ab_num a) (ab_buf a) ++ l))
          by (rewrite app_length; lia).
        rewrite (app_assoc (firstn (ab_num a) (ab_buf a)) l).
        apply firstn_app_exact.
      * unfold RInv. cbn [ab_num ab_buf].
        rewrite !app_length, firstn_length, skipn_length. lia.
  - (* truncate *)
    cbn [fst snd]. split; [reflexivity|]. split.
    + unfold abs, ab_truncate. cbn [ab_num ab_buf]. rewrite firstn_firstn. f_equal. lia.
    + unfold RInv, ab_truncate. cbn [ab_num ab_buf]. lia.
  - (* clear *)
    cbn [fst snd]. split; [reflexivity|]. split; [reflexivity|].
    unfold RInv, ab_clear. cbn [ab_num ab_buf]. lia.
Qed.

(* a failing operation leaves the contents unchanged *)
Corollary ab_failing_op_unchanged n a o :
  RInv n a -> snd (ab_do n a o) = AOom -> abs (fst (ab_do n a o)) = abs a.
Proof.
  intros R H. destruct (ab_do_refines n a o R) as (A & B & _). rewrite B. rewrite A in H.
  destruct o as [b|l|k|]; cbn [bv_do] in *.
  - destruct (Nat.ltb (length (abs a)) n); [discriminate|reflexivity].
  - destruct (Nat.leb (length (abs a) + length l) n); [discriminate|reflexivity].
  - discriminate.
  - discriminate.
Qed.

Theorem ab_run_refines n : forall ops a,
  RInv n a -> ab_run n a ops = bv_run n (abs a) ops.
Proof.
  induction ops as [|o r IH]; intros a R; cbn [ab_run bv_run]; [reflexivity|].
  destruct (ab_do_refines n a o R) as (A & B & R').
  destruct (ab_do n a o) as [a' x], (bv_do n (abs a) o) as [v' y]. cbn [fst snd] in *. subst.
  rewrite (deref_abs n a' R'), IH by exact R'. reflexivity.
Qed.

(* no operation panics (index guards) from a representable state *)
Theorem ab_run_no_panic n ops a :
  RInv n a -> Forall (fun r => fst r <> APanic /\ snd r <> None) (ab_run n a ops).
Proof.
  intros R. rewrite ab_run_refines by exact R. generalize (abs a). clear.
  induction ops as [|o r IH]; intros v; cbn [bv_run]; [constructor|].
  destruct (bv_do n v o) as [v' x] eqn:E. constructor; [|apply IH].
  cbn [fst snd]. split; [|discriminate].
  destruct o; cbn [bv_do] in E;
    repeat match type of E with context [if ?c then _ else _] => destruct c end; inversion E; discriminate.
Qed.

(* FromIterator *)
Lemma ab_from_loop_abs n : forall l a a',
  RInv n a -> ab_from_loop n a l = Some a' -> abs a' = abs a ++ l /\ RInv n a'.
Proof.
  induction l as [|b r IH]; intros a a' R H; cbn [ab_from_loop] in H.
  - inversion H; subst. rewrite app_nil_r. split; [reflexivity|exact R].
  - destruct (ab_do_refines n a (OpPush b) R) as (A & B & R'). cbn [ab_do bv_do] in *.
    destruct (ab_push n a b) as [a1 x]. cbn [fst snd] in *.
    destruct x; try discriminate.
    destruct (Nat.ltb (length (abs a)) n); cbn [fst snd] in *; try discriminate.
    destruct (IH a1 a' R' H) as [E R'']. split; [|exact R''].
    rewrite E, B, <- app_assoc. reflexivity.
Qed.

Lemma ab_from_loop_fits n : forall l a,
  RInv n a -> (ab_num a + length l <= n)%nat -> ab_from_loop n a l <> None.
Proof.
  induction l as [|b r IH]; intros a R Hl; cbn [ab_from_loop]; [discriminate|].
  destruct (ab_do_refines n a (OpPush b) R) as (A & B & R'). cbn [ab_do bv_do] in *.
  pose proof (abs_length n a R) as La.
  destruct (ab_push n a b) as [a1 x]. cbn [fst snd length] in *. rewrite La in *.
  destruct (Nat.ltb_spec (ab_num a) n); [|lia]. cbn [snd fst] in *. subst x.
  apply IH; [exact R'|].
  rewrite <- (abs_length n a1 R'), B, app_length, La. cbn [length]. lia.
Qed.

Lemma ab_from_loop_overflow n : forall l a,
  RInv n a -> (n < ab_num a + length l)%nat -> ab_from_loop n a l = None.
Proof.
  induction l as [|b r IH]; intros a R Hl; cbn [ab_from_loop length] in *.
  - destruct R. lia.
  - destruct (ab_do_refines n a (OpPush b) R) as (A & B & R'). cbn [ab_do bv_do] in *.
    pose proof (abs_length n a R) as La.
    destruct (ab_push n a b) as [a1 x]. cbn [fst snd] in *. rewrite La in *.
    destruct (Nat.ltb_spec (ab_num a) n); cbn [snd fst] in *; subst x; [|reflexivity].
    apply IH; [exact R'|].
    rewrite <- (abs_length n a1 R'), B, app_length, La. cbn [length]. lia.
Qed.

(* collecting at most n bytes yields exactly those bytes; more than n panics (unwrap) *)
Theorem ab_from_iter_spec n l :
  if Nat.leb (length l) n
  then exists a, ab_from_iter n l = Some a /\ abs a = l /\ RInv n a
  else ab_from_iter n l = None.
Proof.
  unfold ab_from_iter. destruct (Nat.leb_spec (length l) n) as [H|H].
  - destruct (ab_from_loop n (ab_default n) l) as [a|] eqn:E.
    + destruct (ab_from_loop_abs n l _ a (RInv_default n) E) as [Ea Ra].
      exists a. rewrite abs_default in Ea. cbn [app] in Ea. split; [reflexivity|]. split; [exact Ea|exact Ra].
    + exfalso. eapply (ab_from_loop_fits n l (ab_default n) (RInv_default n)); [cbn [ab_default ab_num]; lia|exact E].
  - apply ab_from_loop_overflow; [apply RInv_default|cbn [ab_default ab_num]; lia].
Qed.

(* equality depends on the visible contents only *)
Theorem ab_eq_spec n a b :
  RInv n a -> RInv n b ->
  ab_eq a b = Some (if list_eq_dec N.eq_dec (abs a) (abs b) then true else false).
Proof.
  intros Ra Rb. unfold ab_eq. rewrite (deref_abs n a Ra), (deref_abs n b Rb). reflexivity.
Qed.

Lemma ab_state_inv n : forall ops a, RInv n a -> RInv n (ab_state n a ops).
Proof.
  induction ops as [|o r IH]; intros a R; cbn [ab_state]; [exact R|].
  apply IH. apply ab_do_refines. exact R.
Qed.
