(* The canonical encoder of Spec/Canon.v produces valid encodings: for every well-formed
   abstract file f, [enc_file f (encode_file f)] - so the grammar relation of C03/C04 is
   inhabited for every file, and (C03) parsing the canonical encoding returns f. *)
Require Import Sml.Base.Prelude Sml.Base.Crc Sml.Model.Parser Sml.Spec.TlfRef Sml.Spec.Grammar Sml.Spec.Canon.
Require Import Sml.Proofs.ParserTotal Sml.Proofs.ParserGrammar Sml.Proofs.CrcRange.

(* ---------- type-length fields ---------- *)
Lemma leb128 n : 128 <=? 128 + n = true.
Proof. apply N.leb_le. lia. Qed.

Lemma leb128_small n : n < 16 -> 128 <=? n = false.
Proof. intros H. apply N.leb_gt. lia. Qed.

Lemma tb_first c n : c < 8 -> n < 16 -> type_bits (128 + 16 * c + n) = c.
Proof. intros Hc Hn. unfold type_bits. lia. Qed.

Lemma tb_more n : n < 16 -> type_bits (128 + n) = 0.
Proof. intros Hn. unfold type_bits. lia. Qed.

Lemma tb_last n : n < 16 -> type_bits n = 0.
Proof. intros Hn. unfold type_bits. lia. Qed.

Lemma m16_first c n : n < 16 -> (128 + 16 * c + n) mod 16 = n.
Proof. intros Hn. lia. Qed.

Lemma m16_more n : n < 16 -> (128 + n) mod 16 = n.
Proof. intros Hn. lia. Qed.

Lemma tycode_lt t : tycode t < 8.
Proof. destruct t; cbn; lia. Qed.

Lemma ty_of_tycode t : ty_of_bits (tycode t) = Some t.
Proof. destruct t; reflexivity. Qed.

Lemma nib_lt V i : nib V i < 16.
Proof. unfold nib. apply N.mod_lt. lia. Qed.

Lemma nibs_value V : V < 4294967296 ->
  ((((((nib V 7 * 16 + nib V 6) * 16 + nib V 5) * 16 + nib V 4) * 16 + nib V 3) * 16 + nib V 2) * 16 + nib V 1) * 16
  + nib V 0 = V.
Proof.
  intros H. unfold nib.
  change (16 ^ 7) with 268435456. change (16 ^ 6) with 16777216. change (16 ^ 5) with 1048576.
  change (16 ^ 4) with 65536. change (16 ^ 3) with 4096. change (16 ^ 2) with 256.
  change (16 ^ 1) with 16. change (16 ^ 0) with 1.
  lia.
Qed.

Lemma tlf8_ref t V rest :
  t <> TBool -> V < 4294967296 -> (t = TList \/ 8 <= V) ->
  tlf_ref (tlf8 t V ++ rest) = Some (t, if ty_eqb t TList then V else V - 8, rest).
Proof.
  intros Hb HV H8.
  pose proof (nib_lt V 7) as L7. pose proof (nib_lt V 6) as L6. pose proof (nib_lt V 5) as L5.
  pose proof (nib_lt V 4) as L4. pose proof (nib_lt V 3) as L3. pose proof (nib_lt V 2) as L2.
  pose proof (nib_lt V 1) as L1. pose proof (nib_lt V 0) as L0.
  pose proof (nibs_value V HV) as EV. pose proof (tycode_lt t) as Lt.
  unfold tlf8, tlf_ref. cbn [app].
  set (n7 := nib V 7) in *. set (n6 := nib V 6) in *. set (n5 := nib V 5) in *. set (n4 := nib V 4) in *.
  set (n3 := nib V 3) in *. set (n2 := nib V 2) in *. set (n1 := nib V 1) in *. set (n0 := nib V 0) in *.
  replace (128 + 16 * tycode t + n7) with (128 + (16 * tycode t + n7)) by lia.
  rewrite leb128. cbn [cont_bytes]. rewrite !leb128, (leb128_small n0 L0).
  replace (128 + (16 * tycode t + n7)) with (128 + 16 * tycode t + n7) by lia.
  rewrite (tb_first _ _ Lt L7), ty_of_tycode.
  cbn [forallb]. rewrite !tb_more, (tb_last n0 L0) by assumption. cbn [N.eqb andb negb].
  replace (ty_eqb t TBool) with false by (destruct t; try reflexivity; congruence). cbn [andb].
  unfold nibbles. cbn [fold_left].
  rewrite (m16_first _ _ L7), !m16_more by assumption.
  replace (n0 mod 16) with n0 by (symmetry; apply N.mod_small; exact L0).
  replace (0 * 16 + n7) with n7 by lia. rewrite EV.
  destruct (N.leb_spec 4294967296 V) as [Hge|_]; [lia|].
  destruct (ty_eqb t TList) eqn:El; [reflexivity|].
  assert (Hk : lenN [128 + 16 * tycode t + n7; 128 + n6; 128 + n5; 128 + n4; 128 + n3; 128 + n2; 128 + n1; n0] = 8) by reflexivity.
  rewrite Hk. destruct H8 as [->|H8]; [discriminate El|].
  destruct (N.ltb_spec V 8); [lia|reflexivity].
Qed.

Lemma c_tlf_enc t len :
  t <> TBool -> len < lim -> enc_tlf t len (c_tlf t len).
Proof.
  intros Hb Hl rest. unfold lim in Hl. unfold c_tlf. destruct t; try congruence.
  - rewrite tlf8_ref; [|discriminate|lia|right; lia]. cbn [ty_eqb]. replace (len + 8 - 8) with len by lia. reflexivity.
  - rewrite tlf8_ref; [|discriminate|lia|right; lia]. cbn [ty_eqb]. replace (len + 8 - 8) with len by lia. reflexivity.
  - rewrite tlf8_ref; [|discriminate|lia|right; lia]. cbn [ty_eqb]. replace (len + 8 - 8) with len by lia. reflexivity.
  - rewrite tlf8_ref; [|discriminate|lia|left; reflexivity]. reflexivity.
Qed.

Lemma c_tlf_hd t len : hd 0 (c_tlf t len ++ []) <> 1 /\ forall r, hd 0 (c_tlf t len ++ r) <> 1.
Proof.
  assert (X : forall r, hd 0 (c_tlf t len ++ r) <> 1).
  { intros r. unfold c_tlf. destruct t; unfold tlf8; cbn [app hd]; lia. }
  split; [apply X|exact X].
Qed.

Lemma bytes_ok_tlf8 t V : bytes_ok (tlf8 t V).
Proof.
  unfold tlf8. pose proof (tycode_lt t).
  repeat (constructor; [match goal with |- context [nib V ?i] => pose proof (nib_lt V i) end; lia|]). constructor.
Qed.

Lemma bytes_ok_c_tlf t len : bytes_ok (c_tlf t len).
Proof. unfold c_tlf. destruct t; apply bytes_ok_tlf8. Qed.

(* ---------- big-endian integers ---------- *)
Lemma to_be_length k : forall n, length (to_be k n) = k.
Proof. induction k as [|k IH]; intros n; cbn [to_be]; [reflexivity|]. rewrite app_length, IH. cbn. lia. Qed.

Lemma be_snoc l b : be (l ++ [b]) = be l * 256 + b.
Proof. unfold be. rewrite fold_left_app. reflexivity. Qed.

Lemma be_to_be k : forall n, be (to_be k n) = n mod 256 ^ N.of_nat k.
Proof.
  induction k as [|k IH]; intros n; cbn [to_be].
  - cbn. rewrite N.mod_1_r. reflexivity.
  - rewrite be_snoc, IH. replace (N.of_nat (S k)) with (N.succ (N.of_nat k)) by lia.
    rewrite N.pow_succ_r'. rewrite (N.mod_mul_r n 256 (256 ^ N.of_nat k)) by (try apply N.pow_nonzero; lia). lia.
Qed.

Lemma bytes_ok_to_be k : forall n, bytes_ok (to_be k n).
Proof.
  induction k as [|k IH]; intros n; cbn [to_be]; [constructor|].
  apply bytes_ok_app. split; [apply IH|]. constructor; [|constructor]. apply N.mod_lt. lia.
Qed.

Lemma lenN_to_be k n : lenN (to_be k n) = N.of_nat k.
Proof. unfold lenN. rewrite to_be_length. reflexivity. Qed.

Lemma c_uns_enc (k : nat) wmin w n :
  (0 < k)%nat -> wmin <= N.of_nat k <= w -> N.of_nat k < lim -> n < 256 ^ N.of_nat k ->
  enc_uns_k wmin w n (c_uns k n).
Proof.
  intros Hk Hw Hl Hn. exists (c_tlf TUns (N.of_nat k)), (to_be k n).
  rewrite lenN_to_be. split; [apply c_tlf_enc; [discriminate|exact Hl]|]. split; [exact Hw|].
  split; [rewrite be_to_be; apply N.mod_small; exact Hn|reflexivity].
Qed.

Lemma twos_to_be (k : nat) z :
  (0 < k)%nat -> in_int (Z.of_nat k) z ->
  twos (to_be k (Z.to_N (z mod 2 ^ (8 * Z.of_nat k)))) = z.
Proof.
  intros Hk [Hlo Hhi]. unfold twos. rewrite to_be_length, be_to_be.
  set (w := (8 * Z.of_nat k)%Z) in *.
  assert (Hw : (0 < w)%Z) by (unfold w; lia).
  assert (Epow : Z.of_N (256 ^ N.of_nat k) = (2 ^ w)%Z).
  { rewrite N2Z.inj_pow, nat_N_Z. change (Z.of_N 256) with (2 ^ 8)%Z. rewrite <- Z.pow_mul_r by lia. reflexivity. }
  assert (Hm : (0 <= z mod 2 ^ w < 2 ^ w)%Z) by (apply Z.mod_pos_bound; apply Z.pow_pos_nonneg; lia).
  assert (Ev : Z.of_N (Z.to_N (z mod 2 ^ w) mod 256 ^ N.of_nat k) = (z mod 2 ^ w)%Z).
  { rewrite N2Z.inj_mod, Epow, Z2N.id by lia. apply Z.mod_small. exact Hm. }
  rewrite Ev.
  assert (Eh : (2 ^ w = 2 * 2 ^ (w - 1))%Z).
  { replace w with (Z.succ (w - 1)) at 1 by lia. apply Z.pow_succ_r. lia. }
  destruct (Z.leb_spec (2 ^ (w - 1)) (z mod 2 ^ w)) as [Hge|Hlt].
  - (* negative *)
    destruct (Z_lt_le_dec z 0) as [Hz|Hz].
    + rewrite <- (Z.mod_add z 1 (2 ^ w)) by lia. rewrite Z.mod_small; lia.
    + rewrite Z.mod_small in Hge; lia.
  - destruct (Z_lt_le_dec z 0) as [Hz|Hz].
    + rewrite <- (Z.mod_add z 1 (2 ^ w)) in Hlt by lia. rewrite Z.mod_small in Hlt; lia.
    + apply Z.mod_small. lia.
Qed.

Lemma c_int_enc (k : nat) wmin w z :
  (0 < k)%nat -> wmin <= N.of_nat k <= w -> N.of_nat k < lim -> in_int (Z.of_nat k) z ->
  enc_int_k wmin w z (c_int k z).
Proof.
  intros Hk Hw Hl Hz. exists (c_tlf TInt (N.of_nat k)), (to_be k (Z.to_N (z mod 2 ^ (8 * Z.of_nat k)))).
  rewrite lenN_to_be. split; [apply c_tlf_enc; [discriminate|exact Hl]|]. split; [exact Hw|].
  split; [apply twos_to_be; assumption|reflexivity].
Qed.

Lemma c_octet_enc d : wf_octet d -> enc_octet d (c_octet d).
Proof. intros [_ Hl]. exists (c_tlf TOctet (lenN d)). split; [apply c_tlf_enc; [discriminate|exact Hl]|reflexivity]. Qed.

(* ---------- productions ---------- *)
Lemma lim_small k : (k <= 8)%nat -> N.of_nat k < lim.
Proof. unfold lim. lia. Qed.
Ltac side H := first [lia | apply lim_small; lia | exact H | cbn; lia | unfold lim; lia].
Ltac side0 := first [lia | apply lim_small; lia | cbn; lia | unfold lim; lia].

Lemma hd_c_uns k n r : hd 0 (c_uns k n ++ r) <> 1.
Proof. unfold c_uns. rewrite <- app_assoc. apply (proj2 (c_tlf_hd TUns (N.of_nat k))). Qed.
Lemma hd_c_int k z r : hd 0 (c_int k z ++ r) <> 1.
Proof. unfold c_int. rewrite <- app_assoc. apply (proj2 (c_tlf_hd TInt (N.of_nat k))). Qed.
Lemma hd_c_octet d r : hd 0 (c_octet d ++ r) <> 1.
Proof. unfold c_octet. rewrite <- app_assoc. apply (proj2 (c_tlf_hd TOctet (lenN d))). Qed.
Lemma hd_c_time t r : hd 0 (c_time t ++ r) <> 1.
Proof. destruct t. unfold c_time. rewrite <- app_assoc. apply (proj2 (c_tlf_hd TList 2)). Qed.
Lemma hd_c_status s r : hd 0 (c_status s ++ r) <> 1.
Proof. destruct s; apply hd_c_uns. Qed.

Lemma nil_r_hd (l : list byte) : hd 0 (l ++ []) <> 1 -> hd 0 l <> 1.
Proof. rewrite app_nil_r. auto. Qed.

Lemma c_time_enc t : wf_time t -> enc_time t (c_time t).
Proof.
  destruct t as [v]. cbn [wf_time]. intros Hv. left.
  exists (c_tlf TList 2), (c_uns 1 1), (c_uns 4 v).
  split; [apply c_tlf_enc; [discriminate|unfold lim; lia]|].
  split; [apply (c_uns_enc 1 1 1 1); side0|].
  split; [apply (c_uns_enc 4 1 4 v); side Hv|reflexivity].
Qed.

Lemma c_status_enc s : wf_status s -> enc_status s (c_status s).
Proof.
  destruct s as [v|v|v|v]; cbn [wf_status enc_status c_status]; intros Hv.
  - apply (c_uns_enc 1); side Hv.
  - apply (c_uns_enc 2); side Hv.
  - apply (c_uns_enc 4); side Hv.
  - apply (c_uns_enc 8); side Hv.
Qed.

Lemma c_value_enc v : wf_value v -> enc_value v (c_value v).
Proof.
  destruct v as [b|d|z|z|z|z|n|n|n|n|t]; cbn [wf_value enc_value c_value]; intros H.
  - exists [0x42], (if b then 1 else 0). split; [intros rest; reflexivity|]. split; [destruct b; reflexivity|reflexivity].
  - apply c_octet_enc. exact H.
  - apply (c_int_enc 1); side H.
  - apply (c_int_enc 2); side H.
  - apply (c_int_enc 4); side H.
  - apply (c_int_enc 8); side H.
  - apply (c_uns_enc 1); side H.
  - apply (c_uns_enc 2); side H.
  - apply (c_uns_enc 4); side H.
  - apply (c_uns_enc 8); side H.
  - exists (c_tlf TList 2), (c_uns 1 1), (c_time t).
    split; [apply c_tlf_enc; [discriminate|unfold lim; lia]|].
    split; [apply (c_uns_enc 1 1 1 1); side0|].
    split; [apply c_time_enc; exact H|reflexivity].
Qed.

Lemma c_opt_enc {A} (P : A -> Prop) (e : A -> list byte -> Prop) (c : A -> list byte) o :
  (forall v, P v -> e v (c v)) -> (forall v, hd 0 (c v) <> 1) ->
  wf_opt P o -> enc_opt e o (c_opt c o).
Proof.
  intros He Hh H. destruct o as [v|]; cbn [enc_opt c_opt wf_opt] in *; [|reflexivity].
  split; [apply He; exact H|apply Hh].
Qed.

Lemma hd1 (f : list byte -> list byte) : (forall r, hd 0 (f r) <> 1) -> True. Proof. auto. Qed.

Lemma o_octet o : wf_opt wf_octet o -> enc_opt enc_octet o (c_opt c_octet o).
Proof. apply (c_opt_enc wf_octet); [apply c_octet_enc|intros v; apply nil_r_hd, hd_c_octet]. Qed.
Lemma o_time o : wf_opt wf_time o -> enc_opt enc_time o (c_opt c_time o).
Proof. apply (c_opt_enc wf_time); [apply c_time_enc|intros v; apply nil_r_hd, hd_c_time]. Qed.
Lemma o_status o : wf_opt wf_status o -> enc_opt enc_status o (c_opt c_status o).
Proof. apply (c_opt_enc wf_status); [apply c_status_enc|intros v; apply nil_r_hd, hd_c_status]. Qed.
Lemma o_u8 o : wf_opt (fun n => n < 2 ^ 8) o -> enc_opt (enc_uns 1) o (c_opt (c_uns 1) o).
Proof.
  apply (c_opt_enc (fun n => n < 2 ^ 8)); [|intros v; apply nil_r_hd, hd_c_uns].
  intros v Hv. apply (c_uns_enc 1); side Hv.
Qed.
Lemma o_i8 o : wf_opt (in_int 1) o -> enc_opt (enc_int 1) o (c_opt (c_int 1) o).
Proof.
  apply (c_opt_enc (in_int 1)); [|intros v; apply nil_r_hd, hd_c_int].
  intros v Hv. apply (c_int_enc 1); side Hv.
Qed.

Lemma c_list_entry_enc e : wf_list_entry e -> enc_list_entry e (c_list_entry e).
Proof.
  intros (H1 & H2 & H3 & H4 & H5 & H6 & H7).
  exists (c_tlf TList 7), (c_octet (obj_name e)), (c_opt c_status (le_status e)), (c_opt c_time (val_time e)),
         (c_opt (c_uns 1) (le_unit e)), (c_opt (c_int 1) (scaler e)), (c_value (le_value e)),
         (c_opt c_octet (value_signature e)).
  split; [apply c_tlf_enc; [discriminate|unfold lim; lia]|].
  split; [apply c_octet_enc; exact H1|]. split; [apply o_status; exact H2|]. split; [apply o_time; exact H3|].
  split; [apply o_u8; exact H4|]. split; [apply o_i8; exact H5|]. split; [apply c_value_enc; exact H6|].
  split; [apply o_octet; exact H7|reflexivity].
Qed.

Lemma c_open_enc o : wf_open o -> enc_open o (c_open o).
Proof.
  intros (H1 & H2 & H3 & H4 & H5 & H6).
  exists (c_tlf TList 6), (c_opt c_octet (codepage o)), (c_opt c_octet (o_client_id o)), (c_octet (req_file_id o)),
         (c_octet (o_server_id o)), (c_opt c_time (ref_time o)), (c_opt (c_uns 1) (sml_version o)).
  split; [apply c_tlf_enc; [discriminate|unfold lim; lia]|].
  split; [apply o_octet; exact H1|]. split; [apply o_octet; exact H2|]. split; [apply c_octet_enc; exact H3|].
  split; [apply c_octet_enc; exact H4|]. split; [apply o_time; exact H5|]. split; [apply o_u8; exact H6|reflexivity].
Qed.

Lemma c_close_enc s : wf_opt wf_octet s -> enc_close s (c_close s).
Proof.
  intros H. exists (c_tlf TList 1), (c_opt c_octet s).
  split; [apply c_tlf_enc; [discriminate|unfold lim; lia]|]. split; [apply o_octet; exact H|reflexivity].
Qed.

Lemma c_entries_enc es : Forall wf_list_entry es -> enc_entries es (flat_map c_list_entry es).
Proof.
  induction 1 as [|e es He _ IH]; cbn [flat_map]; [constructor|]. constructor; [apply c_list_entry_enc; exact He|exact IH].
Qed.

Lemma c_glr_enc g : wf_glr g -> enc_glr g (c_glr g).
Proof.
  intros (H1 & H2 & H3 & H4 & Hn & H5 & H6 & H7).
  exists (c_tlf TList 7), (c_opt c_octet (g_client_id g)), (c_octet (g_server_id g)), (c_opt c_octet (list_name g)),
         (c_opt c_time (act_sensor_time g)), (c_tlf TList (lenN (val_list g))), (flat_map c_list_entry (val_list g)),
         (c_opt c_octet (list_signature g)), (c_opt c_time (act_gateway_time g)).
  split; [apply c_tlf_enc; [discriminate|unfold lim; lia]|].
  split; [apply o_octet; exact H1|]. split; [apply c_octet_enc; exact H2|]. split; [apply o_octet; exact H3|].
  split; [apply o_time; exact H4|].
  split; [intros rest; unfold c_tlf; rewrite tlf8_ref; [reflexivity|discriminate|exact Hn|left; reflexivity]|].
  split; [apply c_entries_enc; exact H5|]. split; [apply o_octet; exact H6|]. split; [apply o_time; exact H7|reflexivity].
Qed.

Lemma c_body_enc b : wf_body b -> enc_body b (c_body b).
Proof.
  intros H. unfold c_body.
  assert (T : enc_tlf TList 2 (c_tlf TList 2)) by (apply c_tlf_enc; [discriminate|unfold lim; lia]).
  assert (U : forall v, v < 256 ^ 4 -> enc_uns 4 v (c_uns 4 v)).
  { intros v Hv. apply (c_uns_enc 4); side Hv. }
  destruct b as [o|s|g]; cbn [wf_body] in H.
  - exists (c_tlf TList 2), (c_uns 4 0x101), (c_open o). split; [exact T|].
    split; [split; [apply U; cbn; lia|apply c_open_enc; exact H]|reflexivity].
  - exists (c_tlf TList 2), (c_uns 4 0x201), (c_close s). split; [exact T|].
    split; [split; [apply U; cbn; lia|apply c_close_enc; exact H]|reflexivity].
  - exists (c_tlf TList 2), (c_uns 4 0x701), (c_glr g). split; [exact T|].
    split; [split; [apply U; cbn; lia|apply c_glr_enc; exact H]|reflexivity].
Qed.

Lemma swap16_lt x : x < 65536 -> swap16 x < 65536.
Proof. intros H. unfold swap16. lia. Qed.

(* ---------- the encodings are byte strings ---------- *)
Ltac bok := repeat (match goal with |- bytes_ok (_ ++ _) => apply bytes_ok_app; split end);
  try apply bytes_ok_c_tlf; try apply bytes_ok_to_be.

Lemma bo_uns k n : bytes_ok (c_uns k n). Proof. unfold c_uns. bok. Qed.
Lemma bo_int k z : bytes_ok (c_int k z). Proof. unfold c_int. bok. Qed.
Lemma bo_octet d : wf_octet d -> bytes_ok (c_octet d). Proof. intros [H _]. unfold c_octet. bok. exact H. Qed.
Lemma bo_time t : bytes_ok (c_time t). Proof. destruct t. unfold c_time. bok; apply bo_uns. Qed.
Lemma bo_status s : bytes_ok (c_status s). Proof. destruct s; apply bo_uns. Qed.
Lemma bo_opt {A} (P : A -> Prop) c (o : option A) : (forall v, P v -> bytes_ok (c v)) -> wf_opt P o -> bytes_ok (c_opt c o).
Proof. intros H W. destruct o; cbn [c_opt wf_opt] in *; [apply H; exact W|constructor; [lia|constructor]]. Qed.
Lemma bo_value v : wf_value v -> bytes_ok (c_value v).
Proof.
  destruct v as [b|d|z|z|z|z|n|n|n|n|t]; cbn [wf_value c_value]; intros H.
  - destruct b; repeat (constructor; [lia|]); constructor.
  - apply bo_octet; exact H.
  - apply bo_int. - apply bo_int. - apply bo_int. - apply bo_int.
  - apply bo_uns. - apply bo_uns. - apply bo_uns. - apply bo_uns.
  - bok; [apply bo_uns|apply bo_time].
Qed.
Lemma bo_oo o : wf_opt wf_octet o -> bytes_ok (c_opt c_octet o).
Proof. apply (bo_opt wf_octet). apply bo_octet. Qed.
Lemma bo_ot {P} o : wf_opt P o -> bytes_ok (c_opt c_time o).
Proof. apply (bo_opt P). intros; apply bo_time. Qed.
Lemma bo_entry e : wf_list_entry e -> bytes_ok (c_list_entry e).
Proof.
  intros (H1 & H2 & H3 & H4 & H5 & H6 & H7). unfold c_list_entry. bok.
  - apply bo_octet; exact H1.
  - apply (bo_opt wf_status); [intros; apply bo_status|exact H2].
  - apply (bo_ot _ H3).
  - apply (bo_opt (fun n => n < 2 ^ 8)); [intros; apply bo_uns|exact H4].
  - apply (bo_opt (in_int 1)); [intros; apply bo_int|exact H5].
  - apply bo_value; exact H6.
  - apply bo_oo; exact H7.
Qed.
Lemma bo_entries es : Forall wf_list_entry es -> bytes_ok (flat_map c_list_entry es).
Proof. induction 1; cbn [flat_map]; [constructor|apply bytes_ok_app; split; [apply bo_entry; assumption|assumption]]. Qed.
Lemma bo_body b : wf_body b -> bytes_ok (c_body b).
Proof.
  intros H. unfold c_body. destruct b as [o|s|g]; cbn [wf_body] in H.
  - destruct H as (H1 & H2 & H3 & H4 & H5 & H6). unfold c_open. bok; try apply bo_uns.
    + apply bo_oo; exact H1. + apply bo_oo; exact H2. + apply bo_octet; exact H3. + apply bo_octet; exact H4.
    + apply (bo_ot _ H5). + apply (bo_opt (fun n => n < 2 ^ 8)); [intros; apply bo_uns|exact H6].
  - unfold c_close. bok; try apply bo_uns. apply bo_oo; exact H.
  - destruct H as (H1 & H2 & H3 & H4 & Hn & H5 & H6 & H7). unfold c_glr. bok; try apply bo_uns.
    + apply bo_oo; exact H1. + apply bo_octet; exact H2. + apply bo_oo; exact H3. + apply (bo_ot _ H4).
    + apply bo_entries; exact H5. + apply bo_oo; exact H6. + apply (bo_ot _ H7).
Qed.

Definition c_pre (m : message) : list byte :=
  c_tlf TList 6 ++ c_octet (transaction_id m) ++ c_uns 1 (group_no m) ++ c_uns 1 (abort_on_error m) ++
  c_body (message_body m).

Lemma bo_pre m : wf_message m -> bytes_ok (c_pre m).
Proof.
  intros (H1 & H2 & H3 & H4). unfold c_pre. bok; try apply bo_uns; [apply bo_octet; exact H1|apply bo_body; exact H4].
Qed.

Lemma bo_message m : wf_message m -> bytes_ok (c_message m).
Proof.
  intros H. unfold c_message. fold (c_pre m). bok; [apply bo_pre; exact H|apply bo_uns|constructor; [lia|constructor]].
Qed.

Lemma bo_file f : wf_file f -> bytes_ok (encode_file f).
Proof.
  induction 1; cbn [encode_file flat_map]; [constructor|]. apply bytes_ok_app. split; [apply bo_message; assumption|assumption].
Qed.

(* ---------- messages and files ---------- *)
Lemma c_message_enc m : wf_message m -> enc_message m (c_message m).
Proof.
  intros W. pose proof (bo_pre m W) as Bp. destruct W as (H1 & H2 & H3 & H4).
  exists (c_tlf TList 6), (c_octet (transaction_id m)), (c_uns 1 (group_no m)), (c_uns 1 (abort_on_error m)),
         (c_body (message_body m)), (c_uns 2 (swap16 (crc16 (c_pre m)))).
  split; [apply c_tlf_enc; [discriminate|unfold lim; lia]|].
  split; [apply c_octet_enc; exact H1|].
  split; [apply (c_uns_enc 1); side H2|]. split; [apply (c_uns_enc 1); side H3|].
  split; [apply c_body_enc; exact H4|].
  split; [|reflexivity].
  apply (c_uns_enc 2); try lia; [apply lim_small; lia|].
  change (256 ^ N.of_nat 2) with 65536. apply swap16_lt, crc16_lt. exact Bp.
Qed.

Theorem encode_file_valid f : wf_file f -> enc_file f (encode_file f).
Proof.
  induction 1 as [|m ms Hm _ IH]; cbn [encode_file flat_map]; [constructor|].
  constructor; [apply c_message_enc; exact Hm|exact IH].
Qed.

(* every well-formed abstract file has an encoding, and the parsers return exactly the file from it *)
Theorem canonical_roundtrip f :
  wf_file f -> lenN (encode_file f) < 4294967296 ->
  ok_in (encode_file f) /\ enc_file f (encode_file f) /\ parse (encode_file f) = FileOk f.
Proof.
  intros W L.
  assert (Hi : ok_in (encode_file f)) by (split; [apply bo_file; exact W|exact L]).
  pose proof (encode_file_valid f W) as E.
  split; [exact Hi|]. split; [exact E|apply parse_complete; assumption].
Qed.
