(* Extraction of the executable model and of the executable specifications to OCaml.
   ExtrOcamlBasic only: bool, option, unit, list, prod, sumbool are mapped to OCaml's;
   N, Z, positive, nat stay the inductive types.  No Extract Constant. *)
Require Import Sml.Base.Prelude Sml.Base.Crc Sml.Spec.Frame.
Require Import Sml.Model.Decode Sml.Model.Encode Sml.Model.Frontends.
Require Import ExtrOcamlBasic.
Extraction Language OCaml.
Extraction "model.ml"
  crc16 frame esc
  do_op init step finalize reset
  encode_buf enc_collect_from enc_new enc_limit enc_after
  decode_fn di_new di_next di_all di_extra.
