(* Extraction of the executable model and of the executable specifications to OCaml.
   ExtrOcamlBasic only: bool, option, unit, list, prod, sumbool are mapped to OCaml's;
   N, Z, positive, nat stay the inductive types.  No Extract Constant. *)
Require Import Sml.Base.Prelude Sml.Base.Crc Sml.Spec.Frame.
Require Import Sml.Model.Decode Sml.Model.Encode Sml.Model.Frontends.
Require Import Sml.Model.Parser Sml.Model.Reader Sml.Model.ArrayBuf Sml.Digest.
Require Import ExtrOcamlBasic.
Extraction Language OCaml.
Extraction "model.ml"
  crc16 frame esc
  do_op init step finalize reset
  encode_buf enc_collect_from enc_new enc_limit enc_after
  decode_fn di_new di_next di_all di_extra
  parse sp_new sp_next sp_calls tlf_parse
  rd_new sr_calls
  ab_default ab_run ab_state ab_from_iter ab_eq ab_deref
  x_dec x_enc x_parse x_rd x_abuf.
