//! Runs the real sml-rs implementation (path dependency on /repo) on the case lines read
//! from stdin and prints one canonical result line per case — the same format the OCaml
//! driver prints for the extracted Coq model.
use std::io::{BufRead, Write};
use std::panic::{catch_unwind, AssertUnwindSafe};

use sml_rs::transport::{decode, decode_streaming, encode, encode_streaming, DecodeErr, Decoder};
use sml_rs::util::Buffer;

mod parse;
mod reader;

/// counting allocator: total bytes requested (alloc + the new size of every realloc) and the
/// number of requests, per thread of interest (the harness is single threaded)
pub struct Counting;
pub static ALLOC_BYTES: std::sync::atomic::AtomicU64 = std::sync::atomic::AtomicU64::new(0);
pub static ALLOC_CALLS: std::sync::atomic::AtomicU64 = std::sync::atomic::AtomicU64::new(0);
pub static ALLOC_MAX: std::sync::atomic::AtomicU64 = std::sync::atomic::AtomicU64::new(0);
/// allocation-failure injection: requests larger than this many bytes fail (u64::MAX = off)
pub static ALLOC_LIMIT: std::sync::atomic::AtomicU64 = std::sync::atomic::AtomicU64::new(u64::MAX);
unsafe impl std::alloc::GlobalAlloc for Counting {
    unsafe fn alloc(&self, l: std::alloc::Layout) -> *mut u8 {
        use std::sync::atomic::Ordering::Relaxed;
        ALLOC_BYTES.fetch_add(l.size() as u64, Relaxed);
        ALLOC_CALLS.fetch_add(1, Relaxed);
        ALLOC_MAX.fetch_max(l.size() as u64, Relaxed);
        if l.size() as u64 > ALLOC_LIMIT.load(Relaxed) {
            return std::ptr::null_mut();
        }
        if l.size() > (1usize << 32) {
            // do not really try to get hundreds of gigabytes: report failure like an exhausted allocator
            return std::ptr::null_mut();
        }
        std::alloc::System.alloc(l)
    }
    unsafe fn dealloc(&self, p: *mut u8, l: std::alloc::Layout) {
        std::alloc::System.dealloc(p, l)
    }
    unsafe fn realloc(&self, p: *mut u8, l: std::alloc::Layout, n: usize) -> *mut u8 {
        use std::sync::atomic::Ordering::Relaxed;
        ALLOC_BYTES.fetch_add(n as u64, Relaxed);
        ALLOC_CALLS.fetch_add(1, Relaxed);
        ALLOC_MAX.fetch_max(n as u64, Relaxed);
        if n as u64 > ALLOC_LIMIT.load(Relaxed) {
            return std::ptr::null_mut();
        }
        std::alloc::System.realloc(p, l, n)
    }
}
#[global_allocator]
static GLOBAL: Counting = Counting;

pub fn alloc_snapshot() -> (u64, u64) {
    use std::sync::atomic::Ordering::Relaxed;
    (ALLOC_BYTES.load(Relaxed), ALLOC_CALLS.load(Relaxed))
}

pub fn unhex(s: &str) -> Vec<u8> {
    if s == "." {
        return Vec::new();
    }
    let b = s.as_bytes();
    assert!(b.len() % 2 == 0, "odd hex");
    let hv = |c: u8| -> u8 {
        match c {
            b'0'..=b'9' => c - b'0',
            b'a'..=b'f' => c - b'a' + 10,
            b'A'..=b'F' => c - b'A' + 10,
            _ => panic!("bad hex"),
        }
    };
    (0..b.len() / 2).map(|i| hv(b[2 * i]) * 16 + hv(b[2 * i + 1])).collect()
}

pub fn hex(b: &[u8]) -> String {
    if b.is_empty() {
        return ".".to_string();
    }
    let mut s = String::with_capacity(b.len() * 2);
    for x in b {
        s.push_str(&format!("{:02x}", x));
    }
    s
}

pub fn nonempty(s: String) -> String {
    if s.is_empty() {
        ".".to_string()
    } else {
        s
    }
}

pub fn err_str(e: &DecodeErr) -> String {
    match e {
        DecodeErr::DiscardedBytes(n) => format!("D{}", n),
        DecodeErr::InvalidEsc(pl) => format!("X{}", hex(pl)),
        DecodeErr::OutOfMemory => "O".to_string(),
        DecodeErr::InvalidMessage {
            checksum_mismatch: (rd, calc),
            end_esc_misaligned,
            num_padding_bytes,
            invalid_padding_bytes,
        } => format!(
            "I{},{},{},{},{}",
            rd, calc, *end_esc_misaligned as u8, num_padding_bytes, *invalid_padding_bytes as u8
        ),
        #[allow(unreachable_patterns)]
        _ => "?unknown-variant".to_string(),
    }
}

pub fn res_str(r: &Result<&[u8], DecodeErr>) -> String {
    match r {
        Ok(m) => format!("M{}", hex(m)),
        Err(e) => format!("E{}", err_str(e)),
    }
}

/// The capacities for which an `ArrayBuf<N>` instantiation exists; `-` is `Vec<u8>`.
#[macro_export]
macro_rules! with_cap {
    ($cap:expr, $f:ident, $args:tt) => {
        $crate::with_cap!(@go $cap, $f, $args,
            0 1 2 3 4 5 6 7 8 9 10 11 12 13 14 15 16 17 18 19 20 21 22 23 24 25 26 27 28 29 30 31 32
            33 34 35 36 37 38 39 40 48 60 64 100 128 200 252 253 254 255 256 257 258 259 260 300 512
            1000 1020 1021 1022 1023 1024 1025 1026 1027 1028 2048 4096 8188 8189 8190 8191 8192
            8193 8194 8195 8196 16384 65536 70000)
    };
    (@go $cap:expr, $f:ident, $args:tt, $($n:literal)*) => {
        if $cap == "-" {
            $f::<Vec<u8>> $args
        } else {
            match $cap.parse::<usize>().expect("capacity") {
                $( $n => $f::<sml_rs::util::ArrayBuf<$n>> $args, )*
                other => panic!("capacity {} not in the harness menu", other),
            }
        }
    };
}

/// smaller menu for the reader suite (each capacity instantiates 48 call shapes)
#[macro_export]
macro_rules! with_cap_small {
    ($cap:expr, $f:ident, $args:tt) => {
        $crate::with_cap!(@go $cap, $f, $args, 0 1 2 3 4 5 6 7 8 12 16 20 32 64 256 1024 8192)
    };
}

pub const CAP_MENU: &[usize] = &[
    0, 1, 2, 3, 4, 5, 6, 7, 8, 9, 10, 11, 12, 13, 14, 15, 16, 17, 18, 19, 20, 21, 22, 23, 24, 25, 26, 27,
    28, 29, 30, 31, 32, 33, 34, 35, 36, 37, 38, 39, 40, 48, 60, 64, 100, 128, 200, 252, 253, 254, 255,
    256, 257, 258, 259, 260, 300, 512, 1000, 1020, 1021, 1022, 1023, 1024, 1025, 1026, 1027, 1028, 2048,
    4096, 8188, 8189, 8190, 8191, 8192, 8193, 8194, 8195, 8196, 16384, 65536, 70000,
];

// ---------------------------------------------------------------------------------------
// dec <cap> <ops>      push decoder histories
// ---------------------------------------------------------------------------------------
fn run_dec<B: Buffer>(ops: &str) -> String {
    let mut out: Vec<String> = Vec::new();
    let mut idx: usize = 0;
    let mut d: Decoder<B> = Decoder::new();
    let mut stop = false;
    for tok in ops.split(',') {
        if tok.is_empty() || stop {
            continue;
        }
        match tok.as_bytes()[0] {
            b'x' => {
                for b in unhex(&tok[1..]) {
                    let r = catch_unwind(AssertUnwindSafe(|| match d.push_byte(b) {
                        Ok(None) => None,
                        Ok(Some(m)) => Some(format!("M{}", hex(m))),
                        Err(e) => Some(format!("E{}", err_str(&e))),
                    }));
                    match r {
                        Ok(None) => {}
                        Ok(Some(s)) => out.push(format!("{}:{}", idx, s)),
                        Err(_) => {
                            out.push(format!("{}:P", idx));
                            stop = true;
                            break;
                        }
                    }
                    idx += 1;
                }
            }
            b'F' => {
                match catch_unwind(AssertUnwindSafe(|| d.finalize())) {
                    Ok(None) => out.push(format!("{}:F-", idx)),
                    Ok(Some(e)) => out.push(format!("{}:FE{}", idx, err_str(&e))),
                    Err(_) => {
                        out.push(format!("{}:P", idx));
                        stop = true;
                    }
                }
                idx += 1;
            }
            b'R' => {
                match catch_unwind(AssertUnwindSafe(|| d.reset())) {
                    Ok(n) => out.push(format!("{}:R{}", idx, n)),
                    Err(_) => {
                        out.push(format!("{}:P", idx));
                        stop = true;
                    }
                }
                idx += 1;
            }
            b'N' => {
                // Decoder::from_buf with a used buffer: take a buffer that holds junk
                let junk: B = catch_unwind(|| encode::<B>(&[0xaau8, 0xbb]).unwrap_or_default()).unwrap_or_default();
                d = Decoder::from_buf(junk);
                out.push(format!("{}:N", idx));
                idx += 1;
            }
            _ => panic!("bad op"),
        }
    }
    nonempty(out.join(";"))
}

// ---------------------------------------------------------------------------------------
// encb <cap> <hex>     buffer encoder;   enci <k> <hex>   iterator encoder
// ---------------------------------------------------------------------------------------
fn run_encb<B: Buffer>(p: &[u8]) -> String {
    fn show(r: std::thread::Result<Result<String, sml_rs::util::OutOfMemory>>) -> String {
        match r {
            Ok(Ok(h)) => format!("ok:{}", h),
            Ok(Err(_)) => "oom".to_string(),
            Err(_) => "panic".to_string(),
        }
    }
    // the same bytes through a slice, through an iterator with a loose size hint and through one whose upper bound
    // over-estimates: the result may depend on the bytes only
    let slice = show(catch_unwind(|| encode::<B>(p).map(|b| hex(&b))));
    if p.len() > 20000 {
        return slice;
    }
    let loose = show(catch_unwind(|| encode::<B>(p.iter().filter(|_| true)).map(|b| hex(&b))));
    let junk = [0x1bu8; 64];
    let over = show(catch_unwind(|| encode::<B>(p.iter().chain(junk.iter().filter(|_| false))).map(|b| hex(&b))));
    if slice == loose && slice == over {
        slice
    } else {
        format!("MIXED:slice={},loose={},over={}", slice, loose, over)
    }
}

/// allocation failure: for every limit L the growable-buffer encoder and decoder run with an allocator that refuses
/// requests above L bytes.  They must report OutOfMemory or succeed - never abort the process.  One letter per L:
/// encoder k (frame) / o (OutOfMemory) / x (anything else), then decoder m (payload) / o / x.
fn run_alloclim(p: &[u8]) -> String {
    use std::io::Write;
    use std::sync::atomic::Ordering::Relaxed;
    let good = encode::<Vec<u8>>(p).expect("unlimited encode");
    let mut out = String::with_capacity(4 * good.len() + 64);
    let lims: Vec<u64> = (0..=(2 * good.len() as u64 + 24)).collect();
    for l in lims {
        // progress marker first (unbuffered), so that an abort can be located
        ALLOC_LIMIT.store(l, Relaxed);
        let e = catch_unwind(|| encode::<Vec<u8>>(p));
        ALLOC_LIMIT.store(u64::MAX, Relaxed);
        out.push(match e {
            Ok(Ok(ref f)) if *f == good => 'k',
            Ok(Err(_)) => 'o',
            _ => 'x',
        });
        let mut d: Decoder<Vec<u8>> = Decoder::new();
        let mut res = 'x';
        ALLOC_LIMIT.store(l, Relaxed);
        let r = catch_unwind(AssertUnwindSafe(|| {
            let mut last = 'n';
            for b in good.iter() {
                match d.push_byte(*b) {
                    Ok(Some(m)) => last = if m == p { 'm' } else { 'x' },
                    Ok(None) => {}
                    Err(DecodeErr::OutOfMemory) => {
                        last = 'o';
                        break;
                    }
                    Err(_) => last = 'x',
                }
            }
            last
        }));
        ALLOC_LIMIT.store(u64::MAX, Relaxed);
        if let Ok(c) = r {
            res = c;
        }
        out.push(res);
        let _ = std::io::stderr().flush();
    }
    out
}

fn run_enci(k: usize, p: &[u8]) -> String {
    let mut it = encode_streaming(p);
    let mut bytes = Vec::new();
    let lim = 5 * p.len() + 32;
    let mut n = 0;
    loop {
        if n >= lim {
            return format!("{}!P", hex(&bytes));
        }
        n += 1;
        match catch_unwind(AssertUnwindSafe(|| it.next())) {
            Ok(Some(b)) => bytes.push(b),
            Ok(None) => break,
            Err(_) => return format!("{}!P", hex(&bytes)),
        }
    }
    // the same bytes must come out when the encoder is driven by next() for the first j bytes and by a fold-based
    // adaptor (for_each) for the rest, for every split point j
    if p.len() <= 64 {
        for j in 0..=bytes.len() {
            let r = catch_unwind(|| {
                let mut e = encode_streaming(p);
                let mut v: Vec<u8> = Vec::new();
                for _ in 0..j {
                    if let Some(b) = e.next() {
                        v.push(b);
                    }
                }
                e.for_each(|b| v.push(b));
                v
            });
            match r {
                Ok(v) if v == bytes => {}
                Ok(v) => return format!("{}!fold@{}:{}", hex(&bytes), j, hex(&v)),
                Err(_) => return format!("{}!foldP@{}", hex(&bytes), j),
            }
        }
    }
    let mut extra = Vec::new();
    for _ in 0..k {
        match catch_unwind(AssertUnwindSafe(|| it.next())) {
            Ok(Some(b)) => extra.push(format!("b{:02x}", b)),
            Ok(None) => extra.push("-".to_string()),
            Err(_) => extra.push("P".to_string()),
        }
    }
    format!("{}|{}", hex(&bytes), nonempty(extra.join(";")))
}

// ---------------------------------------------------------------------------------------
// fdecode <hex>        decode();     fstream <cap> <k> <hex>    decode_streaming::<B>
// ---------------------------------------------------------------------------------------
fn run_fdecode(s: &[u8]) -> String {
    match catch_unwind(|| decode(s)) {
        Ok(v) => nonempty(
            v.iter()
                .map(|r| res_str(&r.as_ref().map(|x| x.as_slice()).map_err(|e| e.clone())))
                .collect::<Vec<_>>()
                .join(";"),
        ),
        Err(_) => "P".to_string(),
    }
}

fn run_fstream<B: Buffer>(k: usize, s: &[u8]) -> String {
    let mut it = decode_streaming::<B>(s);
    let mut items = Vec::new();
    let mut calls = 0;
    loop {
        if calls > s.len() + 2 {
            items.push("P".to_string());
            break;
        }
        calls += 1;
        match catch_unwind(AssertUnwindSafe(|| it.next().map(|r| res_str(&r)))) {
            Ok(Some(x)) => items.push(x),
            Ok(None) => break,
            Err(_) => {
                items.push("P".to_string());
                break;
            }
        }
    }
    let mut extra = Vec::new();
    for _ in 0..k {
        match catch_unwind(AssertUnwindSafe(|| it.next().map(|r| res_str(&r)))) {
            Ok(Some(x)) => extra.push(x),
            Ok(None) => extra.push("-".to_string()),
            Err(_) => extra.push("P".to_string()),
        }
    }
    format!("{}|{}", nonempty(items.join(";")), nonempty(extra.join(";")))
}

// rt <cap> <hex>: both encoders, then every decoder front-end on the produced frame
fn run_rt<B: Buffer>(cap: &str, p: &[u8]) -> String {
    let _ = cap;
    let one = |f: &[u8]| -> String {
        let ops = format!("x{},F", hex(f));
        format!(
            "{}[{}]{{{}}}({})",
            f.len(),
            run_dec::<B>(&ops),
            run_fdecode(f),
            run_fstream::<B>(2, f)
        )
    };
    let fb = match catch_unwind(|| encode::<Vec<u8>>(p)) {
        Ok(Ok(f)) => one(&f),
        Ok(Err(_)) => "oom".to_string(),
        Err(_) => "P".to_string(),
    };
    let fi = match catch_unwind(|| encode_streaming(p).take(2 * p.len() + 40).collect::<Vec<u8>>()) {
        Ok(f) => one(&f),
        Err(_) => "P".to_string(),
    };
    format!("b{};i{}", fb, fi)
}

fn handle(line: &str) -> String {
    let f: Vec<&str> = line.split(' ').collect();
    match f.as_slice() {
        ["dec", cap, ops] => with_cap!(*cap, run_dec, (ops)),
        ["encb", cap, h] => {
            let p = unhex(h);
            with_cap!(*cap, run_encb, (&p))
        }
        // rtx: round trip on a payload too large for the model (compared with the payload itself only)
        ["rtx", cap, h] => {
            let p = unhex(h);
            with_cap!(*cap, run_rt, (cap, &p))
        }
        ["rt", cap, h] => {
            let p = unhex(h);
            with_cap!(*cap, run_rt, (cap, &p))
        }
        // encbx: the buffer encoder on a case too large for the model (compared with the frame specification only)
        ["encbx", cap, h] => {
            let p = unhex(h);
            with_cap!(*cap, run_encb, (&p))
        }
        ["alloclim", h] => run_alloclim(&unhex(h)),
        // enchint: the iterator encoder over an (almost) endless source: size_hint and the first bytes must not panic
        ["enchint"] => {
            let r = catch_unwind(|| {
                let mut e = encode_streaming((0..usize::MAX).map(|x| (x % 251) as u8));
                let h0 = e.size_hint();
                let first: Vec<u8> = e.by_ref().take(40).collect();
                let h1 = e.size_hint();
                let mut e2 = encode_streaming(std::iter::repeat(0x1bu8));
                let h2 = e2.size_hint();
                let second: Vec<u8> = e2.by_ref().take(40).collect();
                (h0.0 <= h0.1.unwrap_or(usize::MAX), h1.0 <= h1.1.unwrap_or(usize::MAX), h2.0 <= h2.1.unwrap_or(usize::MAX), first.len() + second.len())
            });
            match r {
                Ok((true, true, true, 80)) => "ok".to_string(),
                Ok(x) => format!("bad:{:?}", x),
                Err(_) => "P".to_string(),
            }
        }
        // encu <hex a> <hex b>: the iterator encoder over a source that yields a, then None once, then b (not fused):
        // the encoder must treat the first None as the end of the payload and never look at the source again
        ["encu", a, b] => {
            let (a, b) = (unhex(a), unhex(b));
            let mut evs: Vec<Option<u8>> = a.iter().map(|x| Some(*x)).collect();
            evs.push(None);
            evs.extend(b.iter().map(|x| Some(*x)));
            let mut pos = 0usize;
            let src = std::iter::from_fn(move || {
                let r = if pos < evs.len() { evs[pos] } else { None };
                pos += 1;
                r
            });
            let mut enc = sml_rs::transport::Encoder::new(src);
            let mut out = Vec::new();
            let lim = 5 * a.len() + 64;
            let r = catch_unwind(AssertUnwindSafe(|| {
                for _ in 0..lim {
                    match enc.next() {
                        Some(x) => out.push(x),
                        None => break,
                    }
                }
                let after: Vec<Option<u8>> = (0..3).map(|_| enc.next()).collect();
                after.iter().all(|x| x.is_none())
            }));
            match r {
                Ok(true) => hex(&out),
                Ok(false) => format!("{}!more", hex(&out)),
                Err(_) => "P".to_string(),
            }
        }
        ["enci", k, h] => run_enci(k.parse().unwrap(), &unhex(h)),
        ["fdecode", h] => run_fdecode(&unhex(h)),
        ["fstream", cap, k, h] => {
            let s = unhex(h);
            with_cap!(*cap, run_fstream, (k.parse().unwrap(), &s))
        }
        ["caps"] => CAP_MENU.iter().map(|c| c.to_string()).collect::<Vec<_>>().join(","),
        _ => {
            if let Some(r) = parse::handle(&f) {
                r
            } else if let Some(r) = reader::handle(&f) {
                r
            } else {
                panic!("unknown suite: {}", line)
            }
        }
    }
}

fn main() {
    // panics are expected observations: keep them quiet
    std::panic::set_hook(Box::new(|_| {}));
    let stdin = std::io::stdin();
    let stdout = std::io::stdout();
    let mut out = std::io::BufWriter::new(stdout.lock());
    for line in stdin.lock().lines() {
        let line = line.unwrap();
        if line.is_empty() {
            continue;
        }
        let r = match catch_unwind(|| handle(&line)) {
            Ok(r) => r,
            Err(_) => "HARNESS-ERROR".to_string(),
        };
        writeln!(out, "{}", r).unwrap();
    }
}
