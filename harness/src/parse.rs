//! parser suites: `parse <hex>`, `tlf <hex>`, and the printers of parsed values
use crate::{hex, nonempty, unhex};
use sml_rs::parser::common::{CloseResponse, ListEntry, ListType, OpenResponse, Status, Time, Value};
use sml_rs::parser::complete::{self, File, GetListResponse, Message, MessageBody};
use sml_rs::parser::streaming::{self, ParseEvent, Parser};
use sml_rs::parser::{ParseError, TlfParseError};
use std::panic::{catch_unwind, AssertUnwindSafe};

fn opt<T>(x: &Option<T>, f: impl Fn(&T) -> String) -> String {
    match x {
        None => "~".to_string(),
        Some(v) => f(v),
    }
}
fn ob(x: &Option<&[u8]>) -> String {
    opt(x, |v| hex(v))
}
fn time_str(t: &Time) -> String {
    match t {
        Time::SecIndex(n) => format!("T{:x}", n),
        #[allow(unreachable_patterns)]
        _ => "T?unknown-variant".to_string(),
    }
}
fn status_str(s: &Status) -> String {
    match s {
        Status::Status8(n) => format!("S8:{:x}", n),
        Status::Status16(n) => format!("S16:{:x}", n),
        Status::Status32(n) => format!("S32:{:x}", n),
        Status::Status64(n) => format!("S64:{:x}", n),
        #[allow(unreachable_patterns)]
        _ => "S?unknown-variant".to_string(),
    }
}
fn sx(v: i64) -> String {
    if v < 0 {
        format!("-{:x}", (v as i128).unsigned_abs())
    } else {
        format!("{:x}", v)
    }
}
fn value_str(v: &Value) -> String {
    match v {
        Value::Bool(b) => format!("B{}", *b as u8),
        Value::Bytes(b) => format!("Y{}", hex(b)),
        Value::I8(x) => format!("I8:{}", sx(*x as i64)),
        Value::I16(x) => format!("I16:{}", sx(*x as i64)),
        Value::I32(x) => format!("I32:{}", sx(*x as i64)),
        Value::I64(x) => format!("I64:{}", sx(*x)),
        Value::U8(x) => format!("U8:{:x}", x),
        Value::U16(x) => format!("U16:{:x}", x),
        Value::U32(x) => format!("U32:{:x}", x),
        Value::U64(x) => format!("U64:{:x}", x),
        Value::List(ListType::Time(t)) => format!("L({})", time_str(t)),
        #[allow(unreachable_patterns)]
        _ => "V?unknown-variant".to_string(),
    }
}
fn le_str(e: &ListEntry) -> String {
    format!(
        "(E {} {} {} {} {} {} {})",
        hex(e.obj_name),
        opt(&e.status, status_str),
        opt(&e.val_time, time_str),
        opt(&e.unit, |u| format!("{:x}", u)),
        opt(&e.scaler, |s| sx(*s as i64)),
        value_str(&e.value),
        ob(&e.value_signature)
    )
}
fn open_str(o: &OpenResponse) -> String {
    format!(
        "(O {} {} {} {} {} {})",
        ob(&o.codepage),
        ob(&o.client_id),
        hex(o.req_file_id),
        hex(o.server_id),
        opt(&o.ref_time, time_str),
        opt(&o.sml_version, |v| format!("{:x}", v))
    )
}
fn close_str(c: &CloseResponse) -> String {
    format!("(C {})", ob(&c.global_signature))
}
fn glr_str(g: &GetListResponse) -> String {
    format!(
        "(G {} {} {} {} [{}] {} {})",
        ob(&g.client_id),
        hex(g.server_id),
        ob(&g.list_name),
        opt(&g.act_sensor_time, time_str),
        g.val_list.iter().map(le_str).collect::<Vec<_>>().join(" "),
        ob(&g.list_signature),
        opt(&g.act_gateway_time, time_str)
    )
}
fn msg_str(m: &Message) -> String {
    let b = match &m.message_body {
        MessageBody::OpenResponse(o) => open_str(o),
        MessageBody::CloseResponse(c) => close_str(c),
        MessageBody::GetListResponse(g) => glr_str(g),
        #[allow(unreachable_patterns)]
        _ => "(?unknown-body)".to_string(),
    };
    format!("(M {} {:x} {:x} {})", hex(m.transaction_id), m.group_no, m.abort_on_error, b)
}
pub fn perr_str(e: &ParseError) -> String {
    match e {
        ParseError::LeftoverInput => "Leftover".to_string(),
        ParseError::UnexpectedEOF => "EOF".to_string(),
        ParseError::InvalidTlf(t) => format!(
            "Tlf:{}",
            match t {
                TlfParseError::TlfLengthOverflow => "Overflow",
                TlfParseError::TlfReserved => "Reserved",
                TlfParseError::TlfLengthUnderflow => "Underflow",
                TlfParseError::TlfNextByteTypeMismatch => "NextByte",
                TlfParseError::TlfInvalidTy => "InvalidTy",
                #[allow(unreachable_patterns)]
                _ => "Unknown",
            }
        ),
        ParseError::TlfMismatch(_) => "Mismatch".to_string(),
        ParseError::CrcMismatch => "Crc".to_string(),
        ParseError::MsgEndMismatch => "MsgEnd".to_string(),
        ParseError::UnexpectedVariant => "Variant".to_string(),
        #[allow(unreachable_patterns)]
        _ => "Unknown".to_string(),
    }
}
pub fn file_str(f: &File) -> String {
    format!("ok:{}", nonempty(f.messages.iter().map(msg_str).collect::<Vec<_>>().join(" ")))
}
pub fn event_str(e: &ParseEvent) -> String {
    match e {
        ParseEvent::MessageStart(m) => {
            let b = match &m.message_body {
                streaming::MessageBody::OpenResponse(o) => open_str(o),
                streaming::MessageBody::CloseResponse(c) => close_str(c),
                streaming::MessageBody::GetListResponse(g) => format!(
                    "(GS {} {} {} {} {:x})",
                    ob(&g.client_id),
                    hex(g.server_id),
                    ob(&g.list_name),
                    opt(&g.act_sensor_time, time_str),
                    g.num_vals
                ),
                #[allow(unreachable_patterns)]
                _ => "(?unknown-body)".to_string(),
            };
            format!("(MS {} {:x} {:x} {})", hex(m.transaction_id), m.group_no, m.abort_on_error, b)
        }
        ParseEvent::GetListResponseEnd(g) => {
            format!("(GE {} {})", ob(&g.list_signature), opt(&g.act_gateway_time, time_str))
        }
        ParseEvent::ListEntry(e) => le_str(e),
        #[allow(unreachable_patterns)]
        _ => "(?unknown-event)".to_string(),
    }
}

pub fn complete_str(bs: &[u8]) -> String {
    match catch_unwind(|| complete::parse(bs).map(|f| file_str(&f))) {
        Ok(Ok(s)) => s,
        Ok(Err(e)) => format!("err:{}", perr_str(&e)),
        Err(_) => "P".to_string(),
    }
}

/// items up to the first None (at most |bs|+2 calls), then `extra` further calls
pub fn stream_str(bs: &[u8], extra: usize) -> String {
    let mut p = Parser::new(bs);
    let mut items = Vec::new();
    let mut ended = false;
    let mut panicked = false;
    for _ in 0..bs.len() + 2 + extra {
        match catch_unwind(AssertUnwindSafe(|| p.next().map(|r| r.map(|e| event_str(&e))))) {
            Ok(None) => {
                ended = true;
                break;
            }
            Ok(Some(Ok(s))) => items.push(s),
            Ok(Some(Err(e))) => items.push(format!("err:{}", perr_str(&e))),
            Err(_) => {
                items.push("P".to_string());
                panicked = true;
                break;
            }
        }
    }
    let mut extras = Vec::new();
    if ended && !panicked {
        for _ in 0..extra {
            match catch_unwind(AssertUnwindSafe(|| p.next().map(|r| r.map(|e| event_str(&e))))) {
                Ok(None) => extras.push("-".to_string()),
                Ok(Some(Ok(s))) => extras.push(s),
                Ok(Some(Err(e))) => extras.push(format!("err:{}", perr_str(&e))),
                Err(_) => extras.push("P".to_string()),
            }
        }
    }
    format!("{}|{}", nonempty(items.join(";")), nonempty(extras.join(";")))
}

pub fn handle(f: &[&str]) -> Option<String> {
    match f {
        ["parse", h] => {
            let bs = unhex(h);
            Some(format!("{} # {}", complete_str(&bs), stream_str(&bs, 3)))
        }
        // palloc <hex>: heap requests of complete::parse and of iterating streaming::Parser
        ["palloc", h] => {
            let bs = unhex(h);
            let (b0, c0) = crate::alloc_snapshot();
            let r = catch_unwind(|| complete::parse(&bs).is_ok());
            let (b1, c1) = crate::alloc_snapshot();
            let mut n = 0usize;
            let r2 = catch_unwind(AssertUnwindSafe(|| {
                let mut p = Parser::new(&bs);
                for _ in 0..bs.len() + 5 {
                    if p.next().is_none() {
                        break;
                    }
                    n += 1;
                }
            }));
            let (b2, c2) = crate::alloc_snapshot();
            // collecting the iterator: what it reserves must be bounded by the number of items it can yield (size_hint),
            // never by a declared length
            let mut items = 0u64;
            let r3 = catch_unwind(AssertUnwindSafe(|| {
                let v: Vec<_> = Parser::new(&bs).collect();
                items = v.len() as u64;
            }));
            let (b3, _c3) = crate::alloc_snapshot();
            let collect_ok = r3.is_ok() && (b3 - b2) <= 256 * (items + bs.len() as u64) + 4096;
            if !collect_ok {
                return Some(format!("collect-requested={}:items={}:len={}", b3 - b2, items, bs.len()));
            }
            Some(format!(
                "complete={}:bytes={}:calls={};streaming={}:bytes={}:calls={}",
                match r {
                    Ok(true) => "ok",
                    Ok(false) => "err",
                    Err(_) => "P",
                },
                b1 - b0,
                c1 - c0,
                if r2.is_ok() { "done" } else { "P" },
                b2 - b1,
                c2 - c1
            ))
        }
        _ => None,
    }
}
