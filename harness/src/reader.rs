//! reader suite `rd <kind> <cap> <events> <calls>` and the ArrayBuf suites
use crate::parse::{complete_str, event_str, file_str, perr_str};
use crate::{err_str, hex, nonempty, unhex};
use sml_rs::parser::complete::File;
use sml_rs::parser::streaming::Parser;
use sml_rs::transport::ReadDecodedError;
use sml_rs::util::{ArrayBuf, Buffer, ByteSourceErr, ErrKind};
use sml_rs::{DecodedBytes, ReadParsedError, SmlReader};
use std::panic::{catch_unwind, AssertUnwindSafe};

#[derive(Clone, Copy, Debug)]
pub enum Sev {
    Byte(u8),
    WouldBlock,
    Interrupted,
    Other,
    Zero,
}

pub fn sevs(s: &str) -> Vec<Sev> {
    let mut v = Vec::new();
    for tok in s.split(',') {
        if tok.is_empty() {
            continue;
        }
        match tok.as_bytes()[0] {
            b'x' => v.extend(unhex(&tok[1..]).into_iter().map(Sev::Byte)),
            b'W' => v.push(Sev::WouldBlock),
            b'I' => v.push(Sev::Interrupted),
            b'O' => v.push(Sev::Other),
            b'Z' => v.push(Sev::Zero),
            _ => panic!("bad source event"),
        }
    }
    v
}

/// std::io::Read that plays back the events; after the last one it returns Ok(0) forever
pub struct IoMock {
    evs: Vec<Sev>,
    pos: usize,
}
impl std::io::Read for IoMock {
    fn read(&mut self, buf: &mut [u8]) -> std::io::Result<usize> {
        use std::io::{Error, ErrorKind};
        if buf.is_empty() {
            return Ok(0);
        }
        if self.pos >= self.evs.len() {
            return Ok(0);
        }
        let e = self.evs[self.pos];
        self.pos += 1;
        match e {
            Sev::Byte(b) => {
                // like a Cursor or a driver FIFO: hand over as many consecutive bytes as the caller's buffer takes
                buf[0] = b;
                let mut n = 1;
                while n < buf.len() && self.pos < self.evs.len() {
                    if let Sev::Byte(b2) = self.evs[self.pos] {
                        buf[n] = b2;
                        n += 1;
                        self.pos += 1;
                    } else {
                        break;
                    }
                }
                Ok(n)
            }
            Sev::WouldBlock => Err(Error::new(ErrorKind::WouldBlock, "wb")),
            Sev::Interrupted => Err(Error::new(ErrorKind::Interrupted, "int")),
            // "any other read error": the kind varies with the position in the schedule
            Sev::Other => Err(Error::new(OTHER_KINDS[self.pos % OTHER_KINDS.len()], "other")),
            // end of input: a zero-length read, or the error read_exact would turn it into
            Sev::Zero => {
                if self.pos % 2 == 0 {
                    Ok(0)
                } else {
                    Err(Error::new(ErrorKind::UnexpectedEof, "eof"))
                }
            }
        }
    }
}

const OTHER_KINDS: [std::io::ErrorKind; 12] = [
    std::io::ErrorKind::PermissionDenied,
    std::io::ErrorKind::TimedOut,
    std::io::ErrorKind::BrokenPipe,
    std::io::ErrorKind::ConnectionReset,
    std::io::ErrorKind::InvalidData,
    std::io::ErrorKind::Other,
    std::io::ErrorKind::ConnectionAborted,
    std::io::ErrorKind::NotConnected,
    std::io::ErrorKind::InvalidInput,
    std::io::ErrorKind::AddrInUse,
    std::io::ErrorKind::NotFound,
    std::io::ErrorKind::WriteZero,
];

/// an iterator that is NOT fused: a Zero event makes it return None once, later calls resume
/// (what e.g. `mpsc::Receiver::try_iter()` does); after the last event it returns None forever
pub struct IterMock {
    evs: Vec<Sev>,
    pos: usize,
}
impl Iterator for IterMock {
    type Item = u8;
    fn next(&mut self) -> Option<u8> {
        while self.pos < self.evs.len() {
            let e = self.evs[self.pos];
            self.pos += 1;
            match e {
                Sev::Byte(b) => return Some(b),
                Sev::Zero => return None,
                _ => {}
            }
        }
        None
    }
}

/// embedded_hal 0.2 serial reader; after the last event it would block forever
pub struct EhMock {
    evs: Vec<Sev>,
    pos: usize,
}
impl embedded_hal_02::serial::Read<u8> for EhMock {
    type Error = ();
    fn read(&mut self) -> nb::Result<u8, ()> {
        if self.pos >= self.evs.len() {
            return Err(nb::Error::WouldBlock);
        }
        let e = self.evs[self.pos];
        self.pos += 1;
        match e {
            Sev::Byte(b) => Ok(b),
            Sev::WouldBlock => Err(nb::Error::WouldBlock),
            _ => Err(nb::Error::Other(())),
        }
    }
}

fn ek<E: ByteSourceErr>(e: &E) -> &'static str {
    match e.kind() {
        ErrKind::Eof => "Eof",
        ErrKind::WouldBlock => "WouldBlock",
        ErrKind::Other => "Other",
        #[allow(unreachable_patterns)]
        _ => "Unknown",
    }
}

fn rde_str<E: ByteSourceErr>(e: &ReadDecodedError<E>) -> String {
    match e {
        ReadDecodedError::DecodeErr(d) => format!("E{}", err_str(d)),
        ReadDecodedError::IoErr(io, n) => format!("IO{}:{}", ek(io), n),
        #[allow(unreachable_patterns)]
        _ => "?unknown-variant".to_string(),
    }
}
fn rpe_str<E: ByteSourceErr + core::fmt::Debug>(e: &ReadParsedError<E>) -> String {
    match e {
        ReadParsedError::ParseErr(p) => format!("PE{}", perr_str(p)),
        ReadParsedError::DecodeErr(d) => format!("E{}", err_str(d)),
        ReadParsedError::IoErr(io, n) => format!("IO{}:{}", ek(io), n),
        #[allow(unreachable_patterns)]
        _ => "?unknown-variant".to_string(),
    }
}

fn drain(p: Parser, len: usize) -> String {
    let mut p = p;
    let mut items = Vec::new();
    for _ in 0..len + 2 {
        match p.next() {
            None => break,
            Some(Ok(e)) => items.push(event_str(&e)),
            Some(Err(e)) => items.push(format!("err:{}", perr_str(&e))),
        }
    }
    format!("V{{{}}}", nonempty(items.join(";")))
}

fn nbwrap<T, E>(r: nb::Result<T, E>, f: impl FnOnce(Result<T, E>) -> String) -> String {
    match r {
        Ok(x) => f(Ok(x)),
        Err(nb::Error::WouldBlock) => "WB".to_string(),
        Err(nb::Error::Other(e)) => f(Err(e)),
    }
}

macro_rules! run_calls {
    ($reader:expr, $calls:expr) => {{
        let mut reader = $reader;
        let mut out: Vec<String> = Vec::new();
        let cb = $calls.as_bytes();
        for i in 0..cb.len() / 2 {
            let (m, t) = (cb[2 * i], cb[2 * i + 1]);
            let r = catch_unwind(AssertUnwindSafe(|| -> String {
                let fb = |r: Result<DecodedBytes, _>| match r {
                    Ok(b) => format!("M{}", hex(b)),
                    Err(e) => rde_str(&e),
                };
                let ff = |r: Result<File, _>| match r {
                    Ok(f) => format!("F{{{}}}", file_str(&f)),
                    Err(e) => rpe_str(&e),
                };
                // the parser borrows the reader's buffer: drain it right away
                let fp = |r: Result<Parser, _>, n: usize| match r {
                    Ok(p) => drain(p, n),
                    Err(e) => rde_str(&e),
                };
                match (m, t) {
                    (b'r', b'b') => fb(reader.read::<DecodedBytes>()),
                    (b'r', b'f') => ff(reader.read::<File>()),
                    (b'r', b'p') => fp(reader.read::<Parser>(), 70000),
                    (b'n', b'b') => match reader.next::<DecodedBytes>() {
                        None => "-".to_string(),
                        Some(r) => fb(r),
                    },
                    (b'n', b'f') => match reader.next::<File>() {
                        None => "-".to_string(),
                        Some(r) => ff(r),
                    },
                    (b'n', b'p') => match reader.next::<Parser>() {
                        None => "-".to_string(),
                        Some(r) => fp(r, 70000),
                    },
                    (b'R', b'b') => nbwrap(reader.read_nb::<DecodedBytes>(), fb),
                    (b'R', b'f') => nbwrap(reader.read_nb::<File>(), ff),
                    (b'R', b'p') => nbwrap(reader.read_nb::<Parser>(), |r| fp(r, 70000)),
                    (b'N', b'b') => match reader.next_nb::<DecodedBytes>() {
                        Ok(None) => "-".to_string(),
                        Ok(Some(b)) => fb(Ok(b)),
                        Err(nb::Error::WouldBlock) => "WB".to_string(),
                        Err(nb::Error::Other(e)) => fb(Err(e)),
                    },
                    (b'N', b'f') => match reader.next_nb::<File>() {
                        Ok(None) => "-".to_string(),
                        Ok(Some(b)) => ff(Ok(b)),
                        Err(nb::Error::WouldBlock) => "WB".to_string(),
                        Err(nb::Error::Other(e)) => ff(Err(e)),
                    },
                    (b'N', b'p') => match reader.next_nb::<Parser>() {
                        Ok(None) => "-".to_string(),
                        Ok(Some(b)) => fp(Ok(b), 70000),
                        Err(nb::Error::WouldBlock) => "WB".to_string(),
                        Err(nb::Error::Other(e)) => fp(Err(e), 70000),
                    },
                    _ => panic!("bad call"),
                }
            }));
            match r {
                Ok(s) => out.push(s),
                Err(_) => {
                    out.push("P".to_string());
                    break;
                }
            }
        }
        nonempty(out.join(";"))
    }};
}

// SmlReaderBuilder<Buf> can only be obtained for ArrayBuf<N> and Vec<u8>: dispatch by hand
pub trait Mk: Buffer {
    fn builder() -> sml_rs::SmlReaderBuilder<Self>;
}
impl<const N: usize> Mk for ArrayBuf<N> {
    fn builder() -> sml_rs::SmlReaderBuilder<Self> {
        SmlReader::with_static_buffer::<N>()
    }
}
impl Mk for Vec<u8> {
    fn builder() -> sml_rs::SmlReaderBuilder<Self> {
        SmlReader::with_vec_buffer()
    }
}

fn run_rd2<B: Mk>(kind: &str, evs: &str, calls: &str) -> String {
    let ev = sevs(evs);
    let bytes: Vec<u8> = ev.iter().filter_map(|e| if let Sev::Byte(b) = e { Some(*b) } else { None }).collect();
    match kind {
        "slice" => run_calls!(B::builder().from_slice(&bytes), calls),
        "iter" => {
            if ev.iter().any(|e| matches!(e, Sev::Zero)) {
                run_calls!(B::builder().from_iterator(IterMock { evs: ev, pos: 0 }), calls)
            } else {
                run_calls!(B::builder().from_iterator(bytes.iter()), calls)
            }
        }
        "io" => run_calls!(B::builder().from_reader(IoMock { evs: ev, pos: 0 }), calls),
        "eh" => run_calls!(B::builder().from_eh_reader(EhMock { evs: ev, pos: 0 }), calls),
        _ => panic!("bad source kind"),
    }
}

/// the default 8 KiB buffer through the DummySmlReader constructors
fn run_rd_default(kind: &str, evs: &str, calls: &str) -> String {
    let ev = sevs(evs);
    let bytes: Vec<u8> = ev.iter().filter_map(|e| if let Sev::Byte(b) = e { Some(*b) } else { None }).collect();
    match kind {
        "slice" => run_calls!(SmlReader::from_slice(&bytes), calls),
        "iter" => {
            if ev.iter().any(|e| matches!(e, Sev::Zero)) {
                run_calls!(SmlReader::from_iterator(IterMock { evs: ev, pos: 0 }), calls)
            } else {
                run_calls!(SmlReader::from_iterator(bytes.clone().into_iter()), calls)
            }
        }
        "io" => run_calls!(SmlReader::from_reader(IoMock { evs: ev, pos: 0 }), calls),
        "eh" => run_calls!(SmlReader::from_eh_reader(EhMock { evs: ev, pos: 0 }), calls),
        _ => panic!("bad source kind"),
    }
}

// ---------------------------------------------------------------------------------------
// ArrayBuf suites
// ---------------------------------------------------------------------------------------
fn apply_ops<const N: usize>(a: &mut ArrayBuf<N>, ops: &str, mut obs: impl FnMut(&str, &ArrayBuf<N>)) -> bool {
    for tok in ops.split(',') {
        if tok.is_empty() {
            continue;
        }
        let arg = &tok[1..];
        let r = catch_unwind(AssertUnwindSafe(|| match tok.as_bytes()[0] {
            b'p' => {
                if a.push(unhex(arg)[0]).is_ok() {
                    "k"
                } else {
                    "o"
                }
            }
            b'e' => {
                if a.extend_from_slice(&unhex(arg)).is_ok() {
                    "k"
                } else {
                    "o"
                }
            }
            b't' => {
                a.truncate(arg.parse().unwrap());
                "k"
            }
            b'c' => {
                a.clear();
                "k"
            }
            _ => panic!("bad abuf op"),
        }));
        match r {
            Ok(s) => obs(s, a),
            Err(_) => {
                obs("P", a);
                return false;
            }
        }
    }
    true
}

fn run_abuf<const N: usize>(ops: &str) -> String {
    let mut a: ArrayBuf<N> = Default::default();
    let mut out = Vec::new();
    apply_ops(&mut a, ops, |r, a| {
        let c = catch_unwind(AssertUnwindSafe(|| hex(a))).unwrap_or_else(|_| "P".to_string());
        out.push(format!("{}:{}", r, c))
    });
    nonempty(out.join(";"))
}

/// FromIterator must depend on the yielded bytes only: the same bytes are offered through
/// iterators with an exact, a loose (lower 0), an over-estimating and an absent size hint
fn run_abfrom<const N: usize>(h: &str) -> String {
    let v = unhex(h);
    fn show<const N: usize>(r: std::thread::Result<ArrayBuf<N>>) -> String {
        match r {
            Ok(a) => format!("ok:{}", hex(&a)),
            Err(_) => "P".to_string(),
        }
    }
    let exact = show(catch_unwind(|| v.iter().cloned().collect::<ArrayBuf<N>>()));
    let loose = show(catch_unwind(|| v.iter().cloned().filter(|_| true).collect::<ArrayBuf<N>>()));
    let junk = [0x1bu8; 300];
    let over = show(catch_unwind(|| {
        v.iter().cloned().chain(junk.iter().cloned().filter(|_| false)).collect::<ArrayBuf<N>>()
    }));
    let nohint = show(catch_unwind(|| {
        let mut i = 0;
        std::iter::from_fn(|| {
            i += 1;
            v.get(i - 1).cloned()
        })
        .collect::<ArrayBuf<N>>()
    }));
    // an iterator that is not fused: the bytes, None once, then junk - collecting stops at the first None
    let unfused = show(catch_unwind(|| {
        let mut i = 0usize;
        let n = v.len();
        std::iter::from_fn(|| {
            i += 1;
            if i - 1 < n {
                Some(v[i - 1])
            } else if i - 1 == n {
                None
            } else if i - 1 < n + 4 {
                Some(0xEE)
            } else {
                None
            }
        })
        .collect::<ArrayBuf<N>>()
    }));
    if exact == loose && exact == over && exact == nohint && exact == unfused {
        exact
    } else {
        format!("MIXED:exact={},loose={},over={},nohint={},unfused={}", exact, loose, over, nohint, unfused)
    }
}

fn run_abeq<const N: usize>(o1: &str, o2: &str) -> String {
    let mut a: ArrayBuf<N> = Default::default();
    let mut b: ArrayBuf<N> = Default::default();
    apply_ops(&mut a, o1, |_, _| {});
    apply_ops(&mut b, o2, |_, _| {});
    let r = catch_unwind(AssertUnwindSafe(|| {
        let dbg_same = format!("{:.3?}", a) == format!("{:.3?}", &*a)
            && format!("{:.40?}", b) == format!("{:.40?}", &*b)
            && format!("{:10.2x?}", a) == format!("{:10.2x?}", &*a)
            && format!("{:?}", a) == format!("{:?}", &*a)
            && format!("{:x?}", a) == format!("{:x?}", &*a)
            && format!("{:#?}", b) == format!("{:#?}", &*b);
        format!("eq:{}:{}:{}", (a == b) as u8, (*a == *b) as u8, dbg_same as u8)
    }));
    r.unwrap_or_else(|_| "P".to_string())
}

macro_rules! with_n {
    ($n:expr, $f:ident, $args:tt) => {
        with_n!(@go $n, $f, $args,
            0 1 2 3 4 5 6 7 8 9 10 11 12 13 14 15 16 17 18 19 20 21 22 23 24 25 26 27 28 29 30 31 32
            33 34 35 36 37 38 39 40 48 60 64 100 128 200 252 253 254 255 256 257 258 259 260 300 512
            1000 1020 1021 1022 1023 1024 1025 1026 1027 1028 2048 4096 8188 8189 8190 8191 8192
            8193 8194 8195 8196 16384 65536 70000)
    };
    (@go $n:expr, $f:ident, $args:tt, $($k:literal)*) => {
        match $n.parse::<usize>().expect("capacity") {
            $( $k => $f::<$k> $args, )*
            other => panic!("capacity {} not in the harness menu", other),
        }
    };
}

pub fn handle(f: &[&str]) -> Option<String> {
    match f {
        ["rd", kind, cap, evs, calls] => Some(if *cap == "default" {
            run_rd_default(kind, evs, calls)
        } else {
            crate::with_cap_small!(*cap, run_rd2, (kind, evs, calls))
        }),
        ["abuf", n, ops] => Some(with_n!(n, run_abuf, (ops))),
        ["abfrom", n, h] => Some(with_n!(n, run_abfrom, (h))),
        ["abeq", n, o1, o2] => Some(with_n!(n, run_abeq, (o1, o2))),
        _ => None,
    }
}

#[allow(dead_code)]
fn _unused() {
    let _ = complete_str;
}
