//! reader suites (filled in below)
pub fn handle(_f: &[&str]) -> Option<String> {
    None
}
