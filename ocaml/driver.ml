(* Runs the extracted Coq model (model.ml) on the case lines read from stdin and prints
   one canonical result line per case.  The Rust harness prints the same format for the
   real implementation.  Everything here is glue: parsing hex, converting numbers,
   printing.  Trusted (see DESIGN.md section 3). *)
open Model

(* ---------- conversions ---------- *)
let rec pos_of_int (i : int) : positive =
  if i = 1 then XH
  else if i land 1 = 0 then XO (pos_of_int (i lsr 1))
  else XI (pos_of_int (i lsr 1))
let n_of_int (i : int) : n = if i = 0 then N0 else Npos (pos_of_int i)
let rec int_of_pos (p : positive) : int =
  match p with XH -> 1 | XO q -> 2 * int_of_pos q | XI q -> 2 * int_of_pos q + 1
let int_of_n (x : n) : int = match x with N0 -> 0 | Npos p -> int_of_pos p
let rec nat_of_int (i : int) : nat = if i = 0 then O else S (nat_of_int (i - 1))
let nat_of_int i =
  (* tail recursive *)
  let rec go acc i = if i = 0 then acc else go (S acc) (i - 1) in go O i
let rec int_of_nat (x : nat) : int = match x with O -> 0 | S y -> 1 + int_of_nat y

(* decimal printing of an arbitrary N through Z-free big arithmetic is not needed: all
   numbers the model prints are < 2^62 *)
let dec_of_n (x : n) : string = string_of_int (int_of_n x)

let hexval c =
  match c with
  | '0' .. '9' -> Char.code c - 48
  | 'a' .. 'f' -> Char.code c - 87
  | 'A' .. 'F' -> Char.code c - 55
  | _ -> failwith "bad hex"

let bytes_of_hex (s : string) : n list =
  if s = "." then []
  else begin
    let l = String.length s in
    if l mod 2 <> 0 then failwith "odd hex";
    let acc = ref [] in
    for i = (l / 2) - 1 downto 0 do
      acc := n_of_int ((hexval s.[2 * i] * 16) + hexval s.[(2 * i) + 1]) :: !acc
    done;
    !acc
  end

let hex_of_bytes (l : n list) : string =
  match l with
  | [] -> "."
  | _ ->
    let b = Buffer.create 64 in
    List.iter (fun x -> Buffer.add_string b (Printf.sprintf "%02x" (int_of_n x))) l;
    Buffer.contents b

let cap_of_string (s : string) : nat option =
  if s = "-" then None else Some (nat_of_int (int_of_string s))

let b01 b = if b then "1" else "0"

let err_str (e : derr) : string =
  match e with
  | DiscardedBytes k -> "D" ^ dec_of_n k
  | InvalidEsc pl -> "X" ^ hex_of_bytes pl
  | OutOfMemory -> "O"
  | InvalidMessage (rd, calc, mis, npad, inv) ->
    Printf.sprintf "I%s,%s,%s,%s,%s" (dec_of_n rd) (dec_of_n calc) (b01 mis) (dec_of_n npad) (b01 inv)

let res_str (r : res) : string =
  match r with RMsg m -> "M" ^ hex_of_bytes m | RErr e -> "E" ^ err_str e | RPanic -> "P"

let ores_str (r : res option) : string = match r with None -> "-" | Some x -> res_str x

let join = String.concat ";"
let nonempty s = if s = "" then "." else s

(* ---------- suites ---------- *)

(* dec <cap> <ops>   ops = comma separated: x<hex> | F | R | N *)
let suite_dec (cap : nat option) (ops : string) : string =
  let out = ref [] in
  let idx = ref 0 in
  let d = ref init in
  let stop = ref false in
  let emit s = out := (string_of_int !idx ^ ":" ^ s) :: !out in
  let apply (o : op) =
    if not !stop then begin
      let d', e = do_op cap !d o in
      d := d';
      (match e with
       | EvPush (ONone, _) -> ()
       | EvPush (OMsg, m) -> emit ("M" ^ hex_of_bytes m)
       | EvPush (OErr e, _) -> emit ("E" ^ err_str e)
       | EvPush (OPanic, _) -> emit "P"; stop := true
       | EvFin None -> emit "F-"
       | EvFin (Some e) -> emit ("FE" ^ err_str e)
       | EvReset k -> emit ("R" ^ dec_of_n k)
       | EvNew -> emit "N");
      incr idx
    end
  in
  List.iter
    (fun tok ->
      if tok = "" then ()
      else
        match tok.[0] with
        | 'x' -> List.iter (fun b -> apply (Push b)) (bytes_of_hex (String.sub tok 1 (String.length tok - 1)))
        | 'F' -> apply Finalize
        | 'R' -> apply Reset
        | 'N' -> apply FromBuf
        | _ -> failwith "bad op")
    (String.split_on_char ',' ops);
  nonempty (join (List.rev !out))

let suite_encb cap hex =
  match encode_buf cap (bytes_of_hex hex) with
  | Some l -> "ok:" ^ hex_of_bytes l
  | None -> "oom"

let eout_str = function EByte b -> Printf.sprintf "b%02x" (int_of_n b) | ENone -> "-" | EPanic -> "P"

let suite_enci k hex =
  let p = bytes_of_hex hex in
  let (e, bytes), o = enc_collect_from (enc_limit p) (enc_new p) [] in
  match o with
  | ENone ->
    let extra = enc_after (nat_of_int k) e in
    hex_of_bytes bytes ^ "|" ^ nonempty (join (List.map eout_str extra))
  | _ -> hex_of_bytes bytes ^ "!P"

let suite_fdecode hex = nonempty (join (List.map res_str (decode_fn (bytes_of_hex hex))))

let suite_fstream cap k hex =
  let s = bytes_of_hex hex in
  let it, rs = di_all cap (nat_of_int (List.length s + 2)) (di_new s) in
  let extra = di_extra cap (nat_of_int k) it in
  nonempty (join (List.map res_str rs)) ^ "|" ^ nonempty (join (List.map ores_str extra))

(* rt <cap> <hex>: both encoders, then every decoder front-end on the produced frame *)
let suite_rt cap hex =
  let p = bytes_of_hex hex in
  let one (f : n list) =
    let l = List.length f in
    let ops = "x" ^ hex_of_bytes f ^ ",F" in
    Printf.sprintf "%d[%s]{%s}(%s)" l (suite_dec cap ops) (suite_fdecode (hex_of_bytes f))
      (suite_fstream cap 2 (hex_of_bytes f))
  in
  let fb = match encode_buf None p with Some l -> one l | None -> "oom" in
  let (_, bytes), o = enc_collect_from (enc_limit p) (enc_new p) [] in
  let fi = match o with ENone -> one bytes | _ -> "P" in
  "b" ^ fb ^ ";i" ^ fi

(* ---------- parser suites ---------- *)
let hex_of_pos (p : positive) : string =
  (* bits, least significant first *)
  let rec bits p acc = match p with XH -> 1 :: acc | XO q -> bits q (0 :: acc) | XI q -> bits q (1 :: acc) in
  let bs = bits p [] in                     (* most significant first *)
  let n = List.length bs in
  let padn = (4 - (n mod 4)) mod 4 in
  let bs = List.init padn (fun _ -> 0) @ bs in
  let b = Buffer.create 16 in
  let rec go = function
    | a :: b' :: c :: d :: r -> Buffer.add_string b (Printf.sprintf "%x" ((a * 8) + (b' * 4) + (c * 2) + d)); go r
    | _ -> ()
  in
  go bs; Buffer.contents b
let hex_of_n (x : n) : string = match x with N0 -> "0" | Npos p -> hex_of_pos p
let hex_of_z (x : z) : string = match x with Z0 -> "0" | Zpos p -> hex_of_pos p | Zneg p -> "-" ^ hex_of_pos p

let opt f = function None -> "~" | Some x -> f x
let time_str (x : time) = "T" ^ hex_of_n x
let status_str = function
  | Status8 x -> "S8:" ^ hex_of_n x | Status16 x -> "S16:" ^ hex_of_n x
  | Status32 x -> "S32:" ^ hex_of_n x | Status64 x -> "S64:" ^ hex_of_n x
let value_str = function
  | VBool b -> "B" ^ b01 b
  | VBytes l -> "Y" ^ hex_of_bytes l
  | VI8 z -> "I8:" ^ hex_of_z z | VI16 z -> "I16:" ^ hex_of_z z
  | VI32 z -> "I32:" ^ hex_of_z z | VI64 z -> "I64:" ^ hex_of_z z
  | VU8 x -> "U8:" ^ hex_of_n x | VU16 x -> "U16:" ^ hex_of_n x
  | VU32 x -> "U32:" ^ hex_of_n x | VU64 x -> "U64:" ^ hex_of_n x
  | VList t -> "L(" ^ time_str t ^ ")"
let le_str (e : list_entry) =
  Printf.sprintf "(E %s %s %s %s %s %s %s)" (hex_of_bytes e.obj_name) (opt status_str e.le_status)
    (opt time_str e.val_time) (opt hex_of_n e.le_unit) (opt hex_of_z e.scaler) (value_str e.le_value)
    (opt hex_of_bytes e.value_signature)
let open_str (o : open_response) =
  Printf.sprintf "(O %s %s %s %s %s %s)" (opt hex_of_bytes o.codepage) (opt hex_of_bytes o.o_client_id)
    (hex_of_bytes o.req_file_id) (hex_of_bytes o.o_server_id) (opt time_str o.ref_time) (opt hex_of_n o.sml_version)
let close_str sg = Printf.sprintf "(C %s)" (opt hex_of_bytes sg)
let glr_str (g : get_list_response) =
  Printf.sprintf "(G %s %s %s %s [%s] %s %s)" (opt hex_of_bytes g.g_client_id) (hex_of_bytes g.g_server_id)
    (opt hex_of_bytes g.list_name) (opt time_str g.act_sensor_time)
    (String.concat " " (List.map le_str g.val_list)) (opt hex_of_bytes g.list_signature)
    (opt time_str g.act_gateway_time)
let body_str = function BOpen o -> open_str o | BClose s -> close_str s | BGetList g -> glr_str g
let msg_str (m : message) =
  Printf.sprintf "(M %s %s %s %s)" (hex_of_bytes m.transaction_id) (hex_of_n m.group_no)
    (hex_of_n m.abort_on_error) (body_str m.message_body)
let tlferr_str = function
  | TlfLengthOverflow -> "Overflow" | TlfReserved -> "Reserved" | TlfLengthUnderflow -> "Underflow"
  | TlfNextByteTypeMismatch -> "NextByte" | TlfInvalidTy -> "InvalidTy"
let perr_str = function
  | LeftoverInput -> "Leftover" | UnexpectedEOF -> "EOF" | InvalidTlf e -> "Tlf:" ^ tlferr_str e
  | TlfMismatch -> "Mismatch" | CrcMismatch -> "Crc" | MsgEndMismatch -> "MsgEnd"
  | UnexpectedVariant -> "Variant"
let file_str (f : message list) = "ok:" ^ nonempty (String.concat " " (List.map msg_str f))
let parse_str = function
  | FileOk f -> file_str f
  | FileErr e -> "err:" ^ perr_str e
  | FilePanic -> "P"
let gs_str (g : glr_start) =
  Printf.sprintf "(GS %s %s %s %s %s)" (opt hex_of_bytes g.s_client_id) (hex_of_bytes g.s_server_id)
    (opt hex_of_bytes g.s_list_name) (opt time_str g.s_act_sensor_time) (hex_of_n g.num_vals)
let sbody_str = function SOpen o -> open_str o | SClose s -> close_str s | SGetList g -> gs_str g
let event_str = function
  | EMessageStart m ->
    Printf.sprintf "(MS %s %s %s %s)" (hex_of_bytes m.ms_transaction_id) (hex_of_n m.ms_group_no)
      (hex_of_n m.ms_abort_on_error) (sbody_str m.ms_body)
  | EGetListEnd (s, t) -> Printf.sprintf "(GE %s %s)" (opt hex_of_bytes s) (opt time_str t)
  | EListEntry e -> le_str e
let snext_str = function
  | SNone -> "-" | SEvent e -> event_str e | SErr e -> "err:" ^ perr_str e | SPanic -> "P"

(* the items of the iteration: up to the first None, then [extra] further calls *)
let stream_str (bs : n list) (extra : int) : string =
  let all = sp_calls (nat_of_int (List.length bs + 2 + extra)) (sp_new bs) in
  let rec split acc = function
    | [] -> (List.rev acc, [])
    | SNone :: r -> (List.rev acc, SNone :: r)
    | x :: r -> split (x :: acc) r
  in
  let items, rest = split [] all in
  let rec take k l = if k = 0 then [] else match l with [] -> [] | x :: r -> x :: take (k - 1) r in
  (* rest starts with the first None; the extra calls are those after it *)
  let extras = match rest with [] -> [] | _ :: r -> take extra r in
  nonempty (join (List.map snext_str items)) ^ "|" ^ nonempty (join (List.map snext_str extras))

(* parse <hex>: complete::parse # streaming events *)
let suite_parse hex =
  let bs = bytes_of_hex hex in
  parse_str (parse bs) ^ " # " ^ stream_str bs 3

(* tlf <hex>: TypeLengthField::parse as seen through a list TLF / octet string (see harness) *)
let suite_tlf hex =
  match tlf_parse (bytes_of_hex hex) with
  | POk (rest, t) ->
    let tyc = match t.tty with TOctet -> "o" | TBool -> "b" | TInt -> "i" | TUns -> "u" | TList -> "l" in
    Printf.sprintf "ok:%s:%s:%d" tyc (hex_of_n t.tlen) (List.length rest)
  | PErr e -> "err:" ^ perr_str e
  | PPanic -> "P"

(* ---------- reader suite ---------- *)
let ek_str = function EkEof -> "Eof" | EkWouldBlock -> "WouldBlock" | EkOther -> "Other"
let item_str = function
  | IBytes m -> "M" ^ hex_of_bytes m
  | IFile f -> "F{" ^ file_str f ^ "}"
  | IEvents evs ->
    let rec upto acc = function [] -> List.rev acc | SNone :: _ -> List.rev acc | x :: r -> upto (x :: acc) r in
    "V{" ^ nonempty (join (List.map snext_str (upto [] evs))) ^ "}"
  | IParseErr e -> "PE" ^ perr_str e
  | IDecErr e -> "E" ^ err_str e
  | IIoErr (k, n) -> "IO" ^ ek_str k ^ ":" ^ dec_of_n n
  | IPanic -> "P"
let callres_str = function CItem i -> item_str i | CNone -> "-" | CWouldBlock -> "WB"

let sevs_of_string (s : string) : sev list =
  List.concat_map
    (fun tok ->
      if tok = "" then []
      else
        match tok.[0] with
        | 'x' -> List.map (fun b -> SByte b) (bytes_of_hex (String.sub tok 1 (String.length tok - 1)))
        | 'W' -> [ SWouldBlock ] | 'I' -> [ SInterrupted ] | 'O' -> [ SOther ] | 'Z' -> [ SZero ]
        | _ -> failwith "bad source event")
    (String.split_on_char ',' s)

let calls_of_string (s : string) : (meth * target) list =
  let l = String.length s in
  List.init (l / 2) (fun i ->
      let m = match s.[2 * i] with 'r' -> MRead | 'n' -> MNext | 'R' -> MReadNb | 'N' -> MNextNb | _ -> failwith "meth" in
      let t = match s.[(2 * i) + 1] with 'b' -> TBytes | 'f' -> TFile | 'p' -> TParser | _ -> failwith "target" in
      (m, t))

(* rd <kind> <cap> <events> <calls> *)
let suite_rd kind cap evs calls =
  let k = match kind with "slice" | "iter" -> KSlice | "io" -> KIo | "eh" -> KEh | _ -> failwith "kind" in
  let rs = sr_calls cap (calls_of_string calls) (rd_new k (sevs_of_string evs)) in
  (* the harness stops at the first panic *)
  let rec cut = function [] -> [] | CItem IPanic :: _ -> [ CItem IPanic ] | x :: r -> x :: cut r in
  nonempty (join (List.map callres_str (cut rs)))

(* ---------- ArrayBuf suite ---------- *)
let aops_of_string (s : string) : aop list =
  List.filter_map
    (fun tok ->
      if tok = "" then None
      else
        let arg = String.sub tok 1 (String.length tok - 1) in
        match tok.[0] with
        | 'p' -> Some (OpPush (List.hd (bytes_of_hex arg)))
        | 'e' -> Some (OpExtend (bytes_of_hex arg))
        | 't' -> Some (OpTruncate (nat_of_int (int_of_string arg)))
        | 'c' -> Some OpClear
        | _ -> failwith "bad abuf op")
    (String.split_on_char ',' s)

let ares_str = function AOk -> "k" | AOom -> "o" | APanic -> "P"
let suite_abuf n ops =
  let n = nat_of_int n in
  let rs = ab_run n (ab_default n) (aops_of_string ops) in
  nonempty (join (List.map (fun (r, c) -> ares_str r ^ ":" ^ (match c with Some l -> hex_of_bytes l | None -> "P")) rs))
let suite_abfrom n hex =
  match ab_from_iter (nat_of_int n) (bytes_of_hex hex) with
  | Some a -> (match ab_deref a with Some l -> "ok:" ^ hex_of_bytes l | None -> "P")
  | None -> "P"
let suite_abeq n ops1 ops2 =
  let n = nat_of_int n in
  let a = ab_state n (ab_default n) (aops_of_string ops1) in
  let b = ab_state n (ab_default n) (aops_of_string ops2) in
  match ab_eq a b with Some e -> "eq:" ^ b01 e ^ ":" ^ b01 e ^ ":1" | None -> "P"

let suite_frame hex = hex_of_bytes (frame (bytes_of_hex hex))
let suite_crc hex = dec_of_n (crc16 (bytes_of_hex hex))

let ops_of_string (ops : string) : op list =
  List.concat_map
    (fun tok ->
      if tok = "" then []
      else
        match tok.[0] with
        | 'x' -> List.map (fun b -> Push b) (bytes_of_hex (String.sub tok 1 (String.length tok - 1)))
        | 'F' -> [ Finalize ]
        | 'R' -> [ Reset ]
        | 'N' -> [ FromBuf ]
        | _ -> failwith "bad op")
    (String.split_on_char ',' ops)

let handle (line : string) : string =
  match String.split_on_char ' ' line with
  | [ "dec"; cap; ops ] -> suite_dec (cap_of_string cap) ops
  | [ "encb"; cap; hex ] -> suite_encb (cap_of_string cap) hex
  | [ "enci"; k; hex ] -> suite_enci (int_of_string k) hex
  | [ "fdecode"; hex ] -> suite_fdecode hex
  | [ "fstream"; cap; k; hex ] -> suite_fstream (cap_of_string cap) (int_of_string k) hex
  | [ "rt"; cap; hex ] -> suite_rt (cap_of_string cap) hex
  | [ "parse"; hex ] -> suite_parse hex
  | [ "tlf"; hex ] -> suite_tlf hex
  | [ "rd"; kind; cap; evs; calls ] -> suite_rd kind (cap_of_string cap) evs calls
  | [ "abuf"; n; ops ] -> suite_abuf (int_of_string n) ops
  | [ "abfrom"; n; hex ] -> suite_abfrom (int_of_string n) hex
  | [ "abeq"; n; o1; o2 ] -> suite_abeq (int_of_string n) o1 o2
  | [ "hdec"; cap; ops ] -> dec_of_n (x_dec (cap_of_string cap) (ops_of_string ops))
  | [ "henc"; hex ] -> dec_of_n (x_enc (bytes_of_hex hex))
  | [ "hparse"; hex ] -> dec_of_n (x_parse (bytes_of_hex hex))
  | [ "hrd"; kind; cap; evs; calls ] ->
    let k = match kind with "slice" | "iter" -> KSlice | "io" -> KIo | "eh" -> KEh | _ -> failwith "kind" in
    dec_of_n (x_rd k (cap_of_string cap) (sevs_of_string evs) (calls_of_string calls))
  | [ "habuf"; n; ops ] -> dec_of_n (x_abuf (nat_of_int (int_of_string n)) (aops_of_string ops))
  | [ "frame"; hex ] -> suite_frame hex
  | [ "crc"; hex ] -> suite_crc hex
  | _ -> failwith ("unknown suite: " ^ line)

let () =
  try
    while true do
      let line = input_line stdin in
      if line <> "" then begin
        let r = try handle line with Failure m -> "DRIVER-ERROR:" ^ m | Stack_overflow -> "DRIVER-ERROR:stack" in
        print_string r;
        print_char '\n'
      end
    done
  with End_of_file -> ()
