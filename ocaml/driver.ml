(* Runs the extracted Coq model (model.ml) on the case lines read from stdin and prints
   one canonical result line per case.  The Rust harness prints the same format for the
   real implementation.  Everything here is glue: parsing hex, converting numbers,
   printing.  Trusted (see DESIGN.md section 3). *)
open Model

(* ---------- conversions ---------- *)
let rec pos_of_int (i : int) : positive =
  if i = 1 then XH
  else if i land 1 = 0 then XO (pos_of_int (i lsr 1))
  else XI (pos_of_int (i lsr 1))
let n_of_int (i : int) : n = if i = 0 then N0 else Npos (pos_of_int i)
let rec int_of_pos (p : positive) : int =
  match p with XH -> 1 | XO q -> 2 * int_of_pos q | XI q -> 2 * int_of_pos q + 1
let int_of_n (x : n) : int = match x with N0 -> 0 | Npos p -> int_of_pos p
let rec nat_of_int (i : int) : nat = if i = 0 then O else S (nat_of_int (i - 1))
let nat_of_int i =
  (* tail recursive *)
  let rec go acc i = if i = 0 then acc else go (S acc) (i - 1) in go O i
let rec int_of_nat (x : nat) : int = match x with O -> 0 | S y -> 1 + int_of_nat y

(* decimal printing of an arbitrary N through Z-free big arithmetic is not needed: all
   numbers the model prints are < 2^62 *)
let dec_of_n (x : n) : string = string_of_int (int_of_n x)

let hexval c =
  match c with
  | '0' .. '9' -> Char.code c - 48
  | 'a' .. 'f' -> Char.code c - 87
  | 'A' .. 'F' -> Char.code c - 55
  | _ -> failwith "bad hex"

let bytes_of_hex (s : string) : n list =
  if s = "." then []
  else begin
    let l = String.length s in
    if l mod 2 <> 0 then failwith "odd hex";
    let acc = ref [] in
    for i = (l / 2) - 1 downto 0 do
      acc := n_of_int ((hexval s.[2 * i] * 16) + hexval s.[(2 * i) + 1]) :: !acc
    done;
    !acc
  end

let hex_of_bytes (l : n list) : string =
  match l with
  | [] -> "."
  | _ ->
    let b = Buffer.create 64 in
    List.iter (fun x -> Buffer.add_string b (Printf.sprintf "%02x" (int_of_n x))) l;
    Buffer.contents b

let cap_of_string (s : string) : nat option =
  if s = "-" then None else Some (nat_of_int (int_of_string s))

let b01 b = if b then "1" else "0"

let err_str (e : derr) : string =
  match e with
  | DiscardedBytes k -> "D" ^ dec_of_n k
  | InvalidEsc pl -> "X" ^ hex_of_bytes pl
  | OutOfMemory -> "O"
  | InvalidMessage (rd, calc, mis, npad, inv) ->
    Printf.sprintf "I%s,%s,%s,%s,%s" (dec_of_n rd) (dec_of_n calc) (b01 mis) (dec_of_n npad) (b01 inv)

let res_str (r : res) : string =
  match r with RMsg m -> "M" ^ hex_of_bytes m | RErr e -> "E" ^ err_str e | RPanic -> "P"

let ores_str (r : res option) : string = match r with None -> "-" | Some x -> res_str x

let join = String.concat ";"
let nonempty s = if s = "" then "." else s

(* ---------- suites ---------- *)

(* dec <cap> <ops>   ops = comma separated: x<hex> | F | R | N *)
let suite_dec (cap : nat option) (ops : string) : string =
  let out = ref [] in
  let idx = ref 0 in
  let d = ref init in
  let stop = ref false in
  let emit s = out := (string_of_int !idx ^ ":" ^ s) :: !out in
  let apply (o : op) =
    if not !stop then begin
      let d', e = do_op cap !d o in
      d := d';
      (match e with
       | EvPush (ONone, _) -> ()
       | EvPush (OMsg, m) -> emit ("M" ^ hex_of_bytes m)
       | EvPush (OErr e, _) -> emit ("E" ^ err_str e)
       | EvPush (OPanic, _) -> emit "P"; stop := true
       | EvFin None -> emit "F-"
       | EvFin (Some e) -> emit ("FE" ^ err_str e)
       | EvReset k -> emit ("R" ^ dec_of_n k)
       | EvNew -> emit "N");
      incr idx
    end
  in
  List.iter
    (fun tok ->
      if tok = "" then ()
      else
        match tok.[0] with
        | 'x' -> List.iter (fun b -> apply (Push b)) (bytes_of_hex (String.sub tok 1 (String.length tok - 1)))
        | 'F' -> apply Finalize
        | 'R' -> apply Reset
        | 'N' -> apply FromBuf
        | _ -> failwith "bad op")
    (String.split_on_char ',' ops);
  nonempty (join (List.rev !out))

let suite_encb cap hex =
  match encode_buf cap (bytes_of_hex hex) with
  | Some l -> "ok:" ^ hex_of_bytes l
  | None -> "oom"

let eout_str = function EByte b -> Printf.sprintf "b%02x" (int_of_n b) | ENone -> "-" | EPanic -> "P"

let suite_enci k hex =
  let p = bytes_of_hex hex in
  let (e, bytes), o = enc_collect_from (enc_limit p) (enc_new p) [] in
  match o with
  | ENone ->
    let extra = enc_after (nat_of_int k) e in
    hex_of_bytes bytes ^ "|" ^ nonempty (join (List.map eout_str extra))
  | _ -> hex_of_bytes bytes ^ "!P"

let suite_fdecode hex = nonempty (join (List.map res_str (decode_fn (bytes_of_hex hex))))

let suite_fstream cap k hex =
  let s = bytes_of_hex hex in
  let it, rs = di_all cap (nat_of_int (List.length s + 2)) (di_new s) in
  let extra = di_extra cap (nat_of_int k) it in
  nonempty (join (List.map res_str rs)) ^ "|" ^ nonempty (join (List.map ores_str extra))

(* rt <cap> <hex>: both encoders, then every decoder front-end on the produced frame *)
let suite_rt cap hex =
  let p = bytes_of_hex hex in
  let one (f : n list) =
    let l = List.length f in
    let ops = "x" ^ hex_of_bytes f ^ ",F" in
    Printf.sprintf "%d[%s]{%s}(%s)" l (suite_dec cap ops) (suite_fdecode (hex_of_bytes f))
      (suite_fstream cap 2 (hex_of_bytes f))
  in
  let fb = match encode_buf None p with Some l -> one l | None -> "oom" in
  let (_, bytes), o = enc_collect_from (enc_limit p) (enc_new p) [] in
  let fi = match o with ENone -> one bytes | _ -> "P" in
  "b" ^ fb ^ ";i" ^ fi

let suite_frame hex = hex_of_bytes (frame (bytes_of_hex hex))
let suite_crc hex = dec_of_n (crc16 (bytes_of_hex hex))

let handle (line : string) : string =
  match String.split_on_char ' ' line with
  | [ "dec"; cap; ops ] -> suite_dec (cap_of_string cap) ops
  | [ "encb"; cap; hex ] -> suite_encb (cap_of_string cap) hex
  | [ "enci"; k; hex ] -> suite_enci (int_of_string k) hex
  | [ "fdecode"; hex ] -> suite_fdecode hex
  | [ "fstream"; cap; k; hex ] -> suite_fstream (cap_of_string cap) (int_of_string k) hex
  | [ "rt"; cap; hex ] -> suite_rt (cap_of_string cap) hex
  | [ "frame"; hex ] -> suite_frame hex
  | [ "crc"; hex ] -> suite_crc hex
  | _ -> failwith ("unknown suite: " ^ line)

let () =
  try
    while true do
      let line = input_line stdin in
      if line <> "" then begin
        let r = try handle line with Failure m -> "DRIVER-ERROR:" ^ m | Stack_overflow -> "DRIVER-ERROR:stack" in
        print_string r;
        print_char '\n'
      end
    done
  with End_of_file -> ()
