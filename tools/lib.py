"""Shared plumbing of the checks: paths, builds (Coq, extraction, OCaml driver, Rust harness),
running both sides on a case file, proof audit, evidence and verdict output."""
import fcntl, hashlib, json, os, re, subprocess, sys, time

VERIF = os.path.dirname(os.path.dirname(os.path.abspath(__file__)))
REPO = "/repo"
BUILD = os.path.join(VERIF, "build")
# (only tools/matrix.py sets these, to evaluate seeded changes on scratch copies in parallel)
HARNESS_DIR = os.environ.get("VERIF_HARNESS_DIR") or os.path.join(VERIF, "harness")
COQ = os.path.join(VERIF, "coq")
EXTRACT = os.path.join(BUILD, "extract")
TARGET = os.environ.get("VERIF_TARGET_DIR") or os.path.join(BUILD, "target")
RUN = os.path.join(BUILD, "run")
REPLAYS = os.path.join(VERIF, "replays")
NCPU = os.cpu_count() or 4

ENV = dict(os.environ, CARGO_NET_OFFLINE="true", CARGO_TARGET_DIR=TARGET)

MODELLED_SOURCES = [
    "src/transport/decode.rs", "src/transport/encode.rs", "src/transport/decoder_reader.rs",
    "src/util.rs", "src/lib.rs", "src/parser/mod.rs", "src/parser/tlf.rs", "src/parser/num.rs",
    "src/parser/octet_string.rs", "src/parser/common.rs", "src/parser/complete.rs",
    "src/parser/streaming.rs",
]


class BuildError(Exception):
    def __init__(self, what, log):
        super().__init__(what)
        self.what = what
        self.log = log


def sh(cmd, cwd=None, timeout=1800, env=None, inp=None):
    p = subprocess.run(cmd, cwd=cwd, env=env or ENV, input=inp, stdout=subprocess.PIPE,
                       stderr=subprocess.STDOUT, timeout=timeout, text=True)
    return p.returncode, p.stdout


class Lock:
    def __init__(self, name):
        os.makedirs(BUILD, exist_ok=True)
        self.path = os.path.join(BUILD, name + ".lock")

    def __enter__(self):
        self.f = open(self.path, "w")
        fcntl.flock(self.f, fcntl.LOCK_EX)
        return self

    def __exit__(self, *a):
        fcntl.flock(self.f, fcntl.LOCK_UN)
        self.f.close()


def sha256_file(path):
    h = hashlib.sha256()
    with open(path, "rb") as f:
        h.update(f.read())
    return h.hexdigest()


def source_hashes():
    out = {}
    for s in MODELLED_SOURCES:
        p = os.path.join(REPO, s)
        out[s] = sha256_file(p) if os.path.exists(p) else None
    return out


# ------------------------------------------------------------------------------------------
# builds
# ------------------------------------------------------------------------------------------
def build_coq(targets=None):
    """Full .vo build of the development (or of the given .vo targets and their cone)."""
    with Lock("coq"):
        mk = os.path.join(COQ, "Makefile")
        cp = os.path.join(COQ, "_CoqProject")
        if not os.path.exists(mk) or os.path.getmtime(mk) < os.path.getmtime(cp):
            rc, out = sh(["coq_makefile", "-f", "_CoqProject", "-o", "Makefile"], cwd=COQ)
            if rc != 0:
                raise BuildError("coq_makefile", out)
        cmd = ["timeout", "3000", "make", "-j%d" % NCPU]
        if targets:
            cmd += targets
        rc, out = sh(cmd, cwd=COQ, timeout=3100)
        if rc != 0:
            raise BuildError("coq make " + " ".join(targets or []), out)
        return out


def build_driver():
    """Extract the model to OCaml and compile the driver (only when inputs changed)."""
    with Lock("driver"):
        os.makedirs(EXTRACT, exist_ok=True)
        stamp = os.path.join(EXTRACT, "stamp")
        deps = [os.path.join(COQ, "theories", "Extract.v"), os.path.join(COQ, "theories", "Digest.v"),
                os.path.join(VERIF, "ocaml", "driver.ml")]
        for root, _, files in os.walk(os.path.join(COQ, "theories")):
            if any(root.endswith(x) for x in ("Base", "Model", "Spec")):
                deps += [os.path.join(root, f) for f in files if f.endswith(".v")]
        h = hashlib.sha256()
        for d in sorted(deps):
            h.update(d.encode())
            h.update(open(d, "rb").read())
        key = h.hexdigest()
        drv = os.path.join(EXTRACT, "driver")
        if os.path.exists(stamp) and open(stamp).read() == key and os.path.exists(drv):
            return
        rc, out = sh(["timeout", "600", "coqc", "-Q", os.path.join(COQ, "theories"), "Sml", "-o",
                      os.path.join(EXTRACT, "Extract.vo"), os.path.join(COQ, "theories", "Extract.v")],
                     cwd=EXTRACT)
        if rc != 0:
            raise BuildError("extraction", out)
        sh(["cp", os.path.join(VERIF, "ocaml", "driver.ml"), EXTRACT])
        rc, out = sh(["timeout", "600", "ocamlfind", "ocamlopt", "-O3", "-w", "-a", "model.mli", "model.ml",
                      "driver.ml", "-o", "driver"], cwd=EXTRACT)
        if rc != 0:
            raise BuildError("ocaml driver", out)
        open(stamp, "w").write(key)


def build_harness():
    """cargo build of the harness against /repo's current working tree, debug and release (concurrently)."""
    import threading
    with Lock("cargo" + ("-" + str(abs(hash(TARGET)) % 100000) if os.environ.get("VERIF_TARGET_DIR") else "")):
        hd = HARNESS_DIR
        lock = os.path.join(hd, "Cargo.lock")
        if not os.path.exists(lock):
            sh(["cp", os.path.join(REPO, "Cargo.lock"), lock])
        res = {}

        def one(prof):
            res[tuple(prof)] = sh(["timeout", "1500", "cargo", "build", "--offline", "--target-dir", TARGET] + prof, cwd=hd, timeout=1600)

        ths = [threading.Thread(target=one, args=(prof,)) for prof in ([], ["--release"])]
        for t in ths:
            t.start()
        for t in ths:
            t.join()
        for prof, (rc, out) in res.items():
            if rc != 0:
                raise BuildError("cargo build " + " ".join(prof), out)


def harness_bin(profile):
    return os.path.join(TARGET, profile, "harness")


def driver_bin():
    return os.path.join(EXTRACT, "driver")


def run_lines(binary, lines, timeout=1800, shards=None):
    """Feed case lines to a line-oriented binary; returns the output lines (same count)."""
    if not lines:
        return []
    # cases that may kill the process (allocation-failure sweeps) run one per process
    ISO = lambda l: l.startswith("alloclim ") or len(l) > 120000        # very long inputs may overflow the stack
    iso = [i for i, l in enumerate(lines) if ISO(l)]
    if iso and len(iso) < len(lines):
        rest_idx = [i for i in range(len(lines)) if not ISO(lines[i])]
        rest = run_lines(binary, [lines[i] for i in rest_idx], timeout, shards)
        out = [None] * len(lines)
        for i, o in zip(rest_idx, rest):
            out[i] = o
        for i in iso:
            out[i] = run_lines(binary, [lines[i]], timeout, 1)[0]
        return out
    if iso:
        outs = []
        for l in lines:
            p = subprocess.run(["bash", "-c", ("ulimit -s unlimited 2>/dev/null; " if "driver" in binary else "") + "exec " + binary], input=l + "\n",
                               stdout=subprocess.PIPE, stderr=subprocess.DEVNULL, text=True, env=ENV, timeout=timeout)
            o = p.stdout.split("\n")[0] if p.stdout else ""
            outs.append(o if p.returncode == 0 and o else "ABORT(rc=%d)%s" % (p.returncode, o[:200]))
        return outs
    shards = shards or min(NCPU, max(1, len(lines) // 200))
    chunks = [lines[i::shards] for i in range(shards)]
    procs = []
    for ch in chunks:
        p = subprocess.Popen(["bash", "-c", ("ulimit -s unlimited 2>/dev/null; " if "driver" in binary else "") + "exec " + binary], stdin=subprocess.PIPE,
                             stdout=subprocess.PIPE, stderr=subprocess.DEVNULL, text=True, env=ENV)
        procs.append(p)
    outs = []
    import threading
    res = [None] * shards

    def feed(i):
        try:
            o, _ = procs[i].communicate("\n".join(chunks[i]) + "\n", timeout=timeout)
        except subprocess.TimeoutExpired:
            procs[i].kill()
            o = ""
        res[i] = o.split("\n")
        if res[i] and res[i][-1] == "":
            res[i].pop()

    ths = [threading.Thread(target=feed, args=(i,)) for i in range(shards)]
    for t in ths:
        t.start()
    for t in ths:
        t.join()
    out = [None] * len(lines)
    for i in range(shards):
        r = res[i]
        for j, idx in enumerate(range(i, len(lines), shards)):
            out[idx] = r[j] if j < len(r) else "NO-OUTPUT"
    return out


# ------------------------------------------------------------------------------------------
# proof audit
# ------------------------------------------------------------------------------------------
FORBIDDEN = re.compile(r"\b(Admitted|admit|Axiom|Axioms|Parameter|Parameters|Conjecture|Hypothesis|Variable"
                       r"|Unset\s+Guard|bypass_check|type-in-type|impredicative-set|Admit\s+Obligations)\b")
ALLOWED_AXIOMS = set()  # the development is expected to be closed under the global context


def strip_comments(src):
    out, depth, i = [], 0, 0
    while i < len(src):
        if src.startswith("(*", i):
            depth += 1
            i += 2
        elif src.startswith("*)", i) and depth > 0:
            depth -= 1
            i += 2
        else:
            if depth == 0:
                out.append(src[i])
            i += 1
    return "".join(out)


def cone_of(vfile):
    """.v files the given file depends on (transitively), through coqdep."""
    rc, out = sh(["coqdep", "-Q", "theories", "Sml", "-sort", vfile], cwd=COQ)
    files = [f for f in out.split() if f.endswith(".v")]
    return files


def audit_sources(files):
    """grep the cone for constructs that would weaken the development"""
    bad = []
    for f in files:
        src = strip_comments(open(os.path.join(COQ, f)).read())
        in_section = 0
        for ln, line in enumerate(src.split("\n"), 1):
            if re.match(r"\s*Section\b", line):
                in_section += 1
            if re.match(r"\s*End\b", line) and in_section:
                in_section -= 1
            m = FORBIDDEN.search(line)
            if m:
                if m.group(1) in ("Variable", "Hypothesis") and in_section:
                    continue
                bad.append("%s:%d: %s" % (f, ln, line.strip()))
    return bad


def _gallina_bytes(h):
    bs = b"" if h == "." else bytes.fromhex(h)
    return "[" + "; ".join(str(b) for b in bs) + "]"


def _gallina_cap(c):
    return "None" if c == "-" else "(Some (N.to_nat %d))" % int(c)


def _gallina_ops(ops):
    out = []
    for tok in ops.split(","):
        if not tok:
            continue
        if tok[0] == "x":
            h = tok[1:]
            out += ["Push %d" % b for b in (b"" if h == "." else bytes.fromhex(h))]
        else:
            out.append({"F": "Finalize", "R": "Reset", "N": "FromBuf"}[tok[0]])
    return "[" + "; ".join(out) + "]"


def extraction_crosscheck(pid, lines, k=24, maxlen=700):
    """Evaluate the digest of the model's result for a slice of the cases (a) with the extracted OCaml program and
    (b) inside Coq with vm_compute, and compare.  Returns (n_compared, [mismatch descriptions])."""
    sel = []     # (driver line, gallina term)
    seen = set()
    for l in lines:
        f = l.split(" ")
        if len(l) > maxlen or l in seen:
            continue
        if f[0] == "dec" and len(f) == 3:
            sel.append(("hdec %s %s" % (f[1], f[2]), "x_dec %s %s" % (_gallina_cap(f[1]), _gallina_ops(f[2]))))
        elif f[0] == "parse" and len(f) == 2:
            sel.append(("hparse " + f[1], "x_parse " + _gallina_bytes(f[1])))
        elif f[0] in ("enci", "encb", "rt") and len(f) == 3:
            sel.append(("henc " + f[2], "x_enc " + _gallina_bytes(f[2])))
        elif f[0] == "rd" and len(f) == 5:
            kind = {"slice": "KSlice", "iter": "KSlice", "io": "KIo", "eh": "KEh"}[f[1]]
            evs = []
            for tok in f[3].split(","):
                if not tok:
                    continue
                if tok[0] == "x":
                    evs += ["SByte %d" % b for b in (b"" if tok[1:] == "." else bytes.fromhex(tok[1:]))]
                else:
                    evs.append({"W": "SWouldBlock", "I": "SInterrupted", "O": "SOther", "Z": "SZero"}[tok[0]])
            calls = []
            for i in range(len(f[4]) // 2):
                calls.append("(%s, %s)" % ({"r": "MRead", "n": "MNext", "R": "MReadNb", "N": "MNextNb"}[f[4][2 * i]],
                                          {"b": "TBytes", "f": "TFile", "p": "TParser"}[f[4][2 * i + 1]]))
            sel.append(("hrd " + " ".join(f[1:]), "x_rd %s %s [%s] [%s]" % (kind, _gallina_cap(f[2]), "; ".join(evs), "; ".join(calls))))
        elif f[0] == "abuf" and len(f) == 3:
            ops = []
            for tok in f[2].split(","):
                if not tok:
                    continue
                a = tok[1:]
                if tok[0] == "p":
                    ops.append("OpPush %d" % bytes.fromhex(a)[0])
                elif tok[0] == "e":
                    ops.append("OpExtend " + _gallina_bytes(a if a else "."))
                elif tok[0] == "t":
                    ops.append("OpTruncate (N.to_nat %d)" % int(a))
                else:
                    ops.append("OpClear")
            sel.append(("habuf %s %s" % (f[1], f[2]), "x_abuf (N.to_nat %d) [%s]" % (int(f[1]), "; ".join(ops))))
        else:
            continue
        seen.add(l)
        if len(sel) >= k:
            break
    if not sel:
        return 0, []
    ocaml = run_lines(driver_bin(), [a for a, _ in sel], shards=1)
    xd = os.path.join(BUILD, "xcheck")
    os.makedirs(xd, exist_ok=True)
    vf = os.path.join(xd, "X_%s.v" % pid)
    with open(vf, "w") as f:
        f.write("Require Import Sml.Base.Prelude Sml.Model.Decode Sml.Model.Parser Sml.Model.Reader Sml.Model.ArrayBuf Sml.Digest.\n")
        f.write("Eval vm_compute in [\n  " + ";\n  ".join(b for _, b in sel) + "\n].\n")
    with Lock("coq"):
        rc, out = sh(["timeout", "900", "coqc", "-noglob", "-Q", os.path.join(COQ, "theories"), "Sml", vf], cwd=xd, timeout=1000)
    if rc != 0:
        return len(sel), ["coqc failed on the cross-check file: " + out[-400:]]
    m = re.search(r"=\s*\[(.*?)\]\s*:\s*list N", out, re.S)
    nums = re.findall(r"\d+", m.group(1)) if m else []
    bad = []
    if len(nums) != len(sel):
        return len(sel), ["could not read %d digests from coqc's output (%d found)" % (len(sel), len(nums))]
    for (dl, _), a, b in zip(sel, ocaml, nums):
        if a.strip() != b:
            bad.append("%s: extracted program %s, vm_compute %s" % (dl[:200], a, b))
    return len(sel), bad


def coqchk_property(pid):
    """thorough tier: re-check the compiled cone of Properties/<pid>.vo with the independent checker coqchk and
    require that it reports no axioms, no type-in-type, no unsafe fixpoints, no assumed positivity."""
    with Lock("coq"):
        rc, out = sh(["timeout", "1500", "coqchk", "-o", "-silent", "-Q", "theories", "Sml", "Sml.Properties." + pid],
                     cwd=COQ, timeout=1600)
    tail = out[-1500:]
    ok = rc == 0
    for key in ("Axioms:", "type-in-type:", "unsafe (co)fixpoints:", "positivity is assumed:"):
        m = re.search(re.escape(key) + r"\s*(\S+)", out)
        if not m or m.group(1) != "<none>":
            ok = False
    return ok, tail


def audit_property(pid, theorems):
    """Compile Properties/<pid>.vo (cone), then re-check statements and print assumptions in a
    fresh audit file.  theorems: list of (name, statement-or-None).
    Returns dict(ok, obligations, discharged, log, axioms, lemmas)."""
    vfile = "theories/Properties/%s.v" % pid
    res = dict(ok=False, obligations=0, discharged=0, log="", axioms=[], lemmas=0, failed=[])
    if not os.path.exists(os.path.join(COQ, vfile)):
        res["log"] = "no property file " + vfile
        res["failed"] = ["Properties/%s.v missing" % pid]
        return res
    try:
        build_coq([vfile + "o"])
    except BuildError as e:
        res["log"] = e.log[-4000:]
        res["failed"] = ["make %so" % vfile]
        # which file failed?
        m = re.findall(r'File "([^"]+)", line (\d+)', e.log)
        if m:
            res["failed"] = ["%s line %s does not compile" % m[-1]]
        return res
    cone = cone_of(vfile)
    bad = audit_sources(cone)
    if bad:
        res["log"] = "forbidden constructs:\n" + "\n".join(bad)
        res["failed"] = bad
        return res
    # count Qed-closed lemmas in the cone
    lemmas = 0
    for f in cone:
        src = strip_comments(open(os.path.join(COQ, f)).read())
        lemmas += len(re.findall(r"\bQed\.", src)) + len(re.findall(r"\bDefined\.", src))
    res["lemmas"] = lemmas
    os.makedirs(os.path.join(RUN, pid), exist_ok=True)
    audit = os.path.join(RUN, pid, "Audit_%s.v" % pid)
    with open(audit, "w") as f:
        f.write("Require Import Sml.Properties.%s.\n" % pid)
        for name, stmt in theorems:
            if stmt:
                f.write("Check (%s : %s).\n" % (name, stmt))
            f.write("Print Assumptions %s.\n" % name)
    rc, out = sh(["timeout", "600", "coqc", "-Q", os.path.join(COQ, "theories"), "Sml", "-o",
                  os.path.join(RUN, pid, "Audit_%s.vo" % pid), audit], cwd=os.path.join(RUN, pid))
    res["log"] = out[-4000:]
    if rc != 0:
        res["failed"] = ["audit of %s: statement check failed" % pid]
        res["obligations"] = lemmas + len(theorems)
        return res
    closed = out.count("Closed under the global context")
    # Print Assumptions prints either "Closed under the global context" or "Axioms:" followed by "name : type" lines
    axioms = []
    for blk in re.split(r"^Axioms:\s*$", out, flags=re.M)[1:]:
        for line in blk.split("\n"):
            m = re.match(r"^([A-Za-z_][\w.']*)[ \t]*(:|$)", line)
            if m:
                axioms.append(m.group(1))
            elif line.strip() == "" or line.startswith(" "):
                continue
            else:
                break
    axioms = [a for a in axioms if a not in [t[0] for t in theorems]]
    res["axioms"] = sorted(set(axioms))
    notallowed = [a for a in res["axioms"] if a not in ALLOWED_AXIOMS]
    res["obligations"] = lemmas + len(theorems)
    if closed + (0 if notallowed else 0) == len(theorems) and not notallowed:
        res["ok"] = True
        res["discharged"] = res["obligations"]
    else:
        res["failed"] = ["Print Assumptions of %s: %s" % (pid, ", ".join(notallowed) or "not closed")]
        res["discharged"] = lemmas
    return res


# ------------------------------------------------------------------------------------------
# evidence
# ------------------------------------------------------------------------------------------
def write_evidence(pid, ev):
    os.makedirs(os.path.join(VERIF, "evidence"), exist_ok=True)
    p = os.path.join(VERIF, "evidence", pid + ".json")
    with open(p, "w") as f:
        json.dump(ev, f, indent=1, sort_keys=True)
    return p


def write_replay(pid, name, content):
    d = os.path.join(REPLAYS, pid)
    os.makedirs(d, exist_ok=True)
    p = os.path.join(d, name)
    with open(p, "w") as f:
        if isinstance(content, str):
            f.write(content)
        else:
            json.dump(content, f, indent=1)
    return p


def load_known_findings():
    """known_findings.txt: 'finding: property=<id> match=<regex on the case line> <text>' (open) and
    'fixed: property=<id> <commit> <text>' (suppresses nothing)."""
    p = os.path.join(VERIF, "known_findings.txt")
    open_f = []
    if os.path.exists(p):
        for line in open(p):
            line = line.strip()
            if line.startswith("finding:"):
                m = re.match(r"finding:\s+property=(\S+)\s+match=(\S+)\s+(.*)", line)
                if m:
                    open_f.append((m.group(1), re.compile(m.group(2)), m.group(3)))
    return open_f
