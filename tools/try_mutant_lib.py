from try_mutant import evaluate
