#!/usr/bin/env python3
"""tools/try_mutant.py <seeded-dir> [Cxx ...]: apply seeded/<dir>/patch.diff to /repo, run correspondence + oracle
of the listed properties (default: all), undo the patch.  Prints one line per property."""
import os, random, subprocess, sys, time
sys.path.insert(0, os.path.dirname(os.path.abspath(__file__)))
import lib, props

def evaluate(pid, tier="quick", seed=1):
    P = props.REGISTRY_ALL[pid]()
    rng = random.Random("%s/%d/%s" % (pid, seed, tier))
    cases = P.corpus() + P.cases(tier, rng)
    lines = [c.line for c in cases]
    dbg = lib.run_lines(lib.harness_bin("debug"), lines)
    rel = lib.run_lines(lib.harness_bin("release"), lines)
    mod = lib.run_lines(lib.driver_bin(), [props.model_line(l) for l in lines])
    div = [i for i in range(len(lines)) if P.project(cases[i], dbg[i]) != P.project(cases[i], mod[i]) or P.project(cases[i], rel[i]) != P.project(cases[i], mod[i])]
    bad = P.oracle(cases, dbg, rel, lambda q: lib.run_lines(lib.driver_bin(), q))
    return len(lines), div, bad, cases

def main():
    d = sys.argv[1]
    pids = sys.argv[2:] or sorted(props.REGISTRY_ALL)
    patch = os.path.abspath(os.path.join(d, "patch.diff"))
    subprocess.check_call(["git", "-C", "/repo", "apply", patch])
    try:
        lib.build_harness()
        for pid in pids:
            t = time.time()
            n, div, bad, cases = evaluate(pid)
            verdict = "ORACLE" if bad else ("CORR-ONLY" if div else "MISSED")
            print("%s %-9s cases=%d div=%d oracle=%d %.1fs %s" % (pid, verdict, n, len(div), len(bad), time.time() - t,
                  (bad[0]["why"][:160] if bad else (cases[div[0]].line[:100] if div else ""))))
    finally:
        subprocess.check_call(["git", "-C", "/repo", "checkout", "--", "."])
        lib.build_harness()

if __name__ == '__main__':
    main()
