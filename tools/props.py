"""Per-property definitions: theorems to audit, case generators (L2/L3), observation projections
for the correspondence check, and the executable property statement (oracle) evaluated on the
implementation's own outputs."""
import json, os, re
import gen, lib
from gen import hx

MODEL_FILES = [
    "theories/Base/Prelude.v", "theories/Base/Crc.v", "theories/Spec/Frame.v",
    "theories/Model/Decode.v", "theories/Model/Encode.v", "theories/Model/Frontends.v",
    "theories/Model/Parser.v", "theories/Model/Reader.v", "theories/Model/ArrayBuf.v", "theories/Digest.v",
]

TRUSTED_BASE = [
    "Coq 8.16.1 kernel (coqc); vm_compute used for closed computations and finite byte sweeps; native_compute not used",
    "no axioms: every property theorem is 'Closed under the global context' (Print Assumptions checked on every run)",
    "hand-written Gallina model of the Rust code, tied to /repo by the correspondence check (differential: extracted OCaml model vs real crate, debug+release builds)",
    "extraction: ExtrOcamlBasic only, no Extract Constant; OCaml 4.13.1; ocaml/driver.ml (hex parsing/printing glue)",
    "Rust harness (harness/src), tools/*.py, rustc/cargo, the crc crate",
    "usize arithmetic modelled as unbounded N; Vec::try_reserve never fails; std::io::Read::read_exact as documented",
]


class Case:
    __slots__ = ("line", "tag", "meta")

    def __init__(self, line, tag, meta=None):
        self.line = line
        self.tag = tag
        self.meta = meta or {}
        if meta is None and line.startswith("parse "):
            # replayed / corpus parser cases: the input bytes are all the oracles need
            h = line.split(" ", 1)[1].strip()
            try:
                self.meta = dict(d=b"" if h == "." else bytes.fromhex(h))
            except ValueError:
                pass


def load_replay(path):
    """a replay is either a json written by check.py (field 'case') or a plain case file"""
    txt = open(path).read()
    try:
        j = json.loads(txt)
        lines = [j["case"]] + j.get("more", []) if "case" in j else [d["case"] for d in j.get("first_divergences", [])]
    except Exception:
        lines = [l for l in txt.split("\n") if l.strip() and not l.startswith("#")]
    out = []
    for l in lines:
        for sub in l.split(" || "):
            out.append(Case(sub, "replay"))
    return out


def parse_ops(ops):
    """ops string -> list of ('x', byte) / ('F',) / ('R',) / ('N',)"""
    out = []
    for tok in ops.split(","):
        if not tok:
            continue
        if tok[0] == "x":
            h = tok[1:]
            if h != ".":
                out += [("x", b) for b in bytes.fromhex(h)]
        else:
            out.append((tok[0],))
    return out


def parse_events(s):
    """'19:M1234;20:F-' -> [(19,'M','1234'), (20,'F','-')]"""
    if s == "." or s == "":
        return []
    evs = []
    for it in s.split(";"):
        i, _, r = it.partition(":")
        evs.append((int(i), r[0], r[1:]))
    return evs


def alloc_failure_cases(rng, n):
    """growable-buffer encoder / decoder under an allocator that refuses requests above L bytes, for every L up to twice
    the frame length: OutOfMemory must be reported (or the call succeed), the process must never abort.  Not modelled
    (the model's Vec never fails): an implementation-only measurement."""
    out = []
    for _ in range(n):
        r = rng.random()
        if r < 0.4:
            p = gen.payload(rng, rng.randint(0, 70))
        elif r < 0.8:
            # escapes, padding and trailer land on every offset relative to the Vec's capacity steps (8, 16, 32, 64, ...)
            p = bytes(rng.randint(0, 3)) + bytes([0x1b] * rng.choice([3, 4, 5, 8, 9])) + gen.payload(rng, rng.randint(0, 40))
        else:
            p = bytes([0x1b] * rng.randint(1, 40))
        out.append(Case("alloclim " + hx(p), "alloc-failure", dict(alloclim=True)))
    return out


def alloc_failure_check(o):
    if o.startswith("ABORT") or o in ("NO-OUTPUT", ""):
        return "the process died while the allocator refused a request (expected: Err(OutOfMemory)): %s" % o[:120]
    if "x" in o:
        return "under allocation failure the encoder/decoder returned something other than the frame/payload or OutOfMemory: %s" % o[:120]
    return None


def long_run_cases(rng):
    """more than 65 536 bytes without any event (one long noise run; one long payload) through decode(), decode_streaming
    and the readers: exactly one DiscardedBytes with the exact count, then the frame (recursion depth, per-call budgets
    and 16-bit counters must not matter)"""
    out = []
    f = gen.frame(b"\x12\x34\x56\x78")
    for ln, fill in ((70000, 0x55), (66000, 0x1b), (131080, 0x01)):
        g = bytes([fill]) * ln
        exp = "ED%d;M12345678" % ln
        h = hx(g + f)
        out.append(Case("fdecode " + h, "longrun-decode", dict(longrun=exp)))
        out.append(Case("fstream - 2 " + h, "longrun-stream", dict(longrun=exp + "|-;-")))
        for kind in ("slice", "iter", "io"):
            out.append(Case("rd %s - x%s nbnbnbnb" % (kind, h), "longrun-rd-" + kind, dict(longrun=exp + ";-;-")))
    # a stream that ends right after a start sequence (after noise / after an aborted transmission): the 8 start bytes are
    # still to be reported at the end
    for _ in range(12):
        g = gen.clean_noise(rng, 12)
        q = bytes(b for b in gen.payload(rng, rng.randint(0, 9)) if b != 0x1b)      # no escape may be in progress at the restart
        for st, exp in ((g + gen.START, (["ED%d" % len(g)] if g else []) + ["ED8"]),
                        (gen.START + gen.esc(q) + gen.START, ["ED%d" % (8 + len(gen.esc(q))), "ED8"])):
            if (st[:-8] + gen.START).find(gen.START) != len(st) - 8 and st[:8] != gen.START:
                continue
            if st[:8] == gen.START and gen.esc(q).find(bytes([0x1b] * 4)) >= 0:
                continue
            h2 = hx(st)
            out.append(Case("fdecode " + h2, "tail-decode", dict(longrun=";".join(exp))))
            out.append(Case("fstream - 2 " + h2, "tail-stream", dict(longrun=";".join(exp) + "|-;-")))
            out.append(Case("rd slice - x%s %s" % (h2, "nb" * (len(exp) + 2)), "tail-rd",
                            dict(longrun=";".join(exp[:-1] + ["IOEof:8"]) + ";-;-")))
    big = gen.payload(rng, 70000)
    h = hx(gen.frame(big))
    out.append(Case("fdecode " + h, "longrun-decode", dict(longrun="M" + hx(big))))
    out.append(Case("fstream - 2 " + h, "longrun-stream", dict(longrun="M" + hx(big) + "|-;-")))
    out.append(Case("rd slice - x%s nbnb" % h, "longrun-rd-slice", dict(longrun="M" + hx(big) + ";-")))
    out.append(Case("rd io - x%s nbnb" % h, "longrun-rd-io", dict(longrun="M" + hx(big) + ";-")))
    return out


def long_run_check(c, o):
    if o != c.meta["longrun"]:
        return "long run without events: got %s expected %s" % (o[:160], c.meta["longrun"][:160])
    return None


def coarse_derr(o):
    return re.sub(r"EX[0-9a-f.]*", "EX", re.sub(r"EI\d+,\d+,\d,\d+,\d", "EI", o))


def unhx(h):
    return b"" if h == "." else bytes.fromhex(h)


class Prop:
    theorems = []
    level_text = ""
    level_note = ("trusted: Coq kernel; fidelity of the hand-written model = the correspondence check (differential testing, bounded by "
                  "the generators); extraction (ExtrOcamlBasic only) + OCaml driver; Rust harness; usize modelled as unbounded")
    suite_names = "?"
    rule = ""
    assumptions = []
    extra_trusted = []
    corpus_dir = None

    def corpus(self):
        d = os.path.join(lib.VERIF, "corpus", self.pid)
        out = []
        if os.path.isdir(d):
            for fn in sorted(os.listdir(d)):
                for l in open(os.path.join(d, fn)):
                    l = l.rstrip("\n")
                    if l and not l.startswith("#"):
                        out.append(Case(l, "corpus:" + fn))
        return out

    def project(self, case, out):
        # default projection of the correspondence check: everything, except the diagnostic detail inside
        # InvalidMessage{..} / InvalidEsc(..) - no property constrains it (the oracles of C14/C15 compare it
        # implementation-vs-implementation where "identical behaviour" is the claim)
        return coarse_derr(out)

    def nontrivial(self, case, out):
        return True

    def oracle(self, cases, dbg, rel, spec):
        return []


def both(dbg, rel, i):
    return (("debug", dbg[i]), ("release", rel[i]))


# ==========================================================================================
# C07 encoders emit the wire format and agree
# ==========================================================================================
class C07(Prop):
    pid = "C07"
    theorems = [("C07_format",
                 "forall p : list N, enc_collect p = frame p /\\ encode_buf None p = Some (frame p) /\\ "
                 "(forall n : nat, encode_buf (Some n) p = if Nat.leb (length (frame p)) n then Some (frame p) else None) /\\ "
                 "(forall k : nat, snd (enc_collect_from (enc_limit p) (enc_new p) []) = ENone /\\ "
                 "enc_after k (fst (fst (enc_collect_from (enc_limit p) (enc_new p) []))) = repeat ENone k)"),
                ("C07_size", "forall p : list N, length (frame p) = (length (esc p) + pad_of (length (esc p)) + 16)%nat /\\ "
                 "(Nat.modulo (length (frame p)) 4 = 0)%nat /\\ (length p + 16 <= length (frame p) <= 2 * length p + 19)%nat"),
                ("C07_buffer_suffices", "forall (p : list N) (n : nat), (2 * length p + 19 <= n)%nat -> encode_buf (Some n) p = Some (frame p)"),
                ("C07_bytes", "forall p : list N, bytes_ok p -> bytes_ok (frame p)")]
    level_text = ("Theorem C07_format (Coq, closed under the global context): for every payload the iterator encoder collects to frame p, "
                  "the buffer encoder returns frame p (growable) resp. frame p iff it fits / OutOfMemory otherwise (any capacity), and "
                  "the iterator returns None forever afterwards; frame is the independent wire-format specification (Spec/Frame.v). "
                  "Correspondence + oracle: real encoders vs extracted frame on payloads incl. >=256 bytes and 0x1b runs.")
    suite_names = "S-ENC (enci, encb)"
    rule = ("payloads from G-PAY (lengths 0..40, 252..260, 1020..1028, 8188..8196, thorough 65530..65540; random, "
            "5-symbol alphabet, 0x1b/zero runs, embedded start/end look-alikes); per payload: iterator encoder with 3 "
            "extra next() calls, Vec encoder, ArrayBuf<N> encoders for N around the frame length. non-trivial = payload non-empty")
    assumptions = ["Vec<u8>::try_reserve does not fail", "ArrayBuf capacities limited to the harness menu"]

    def project(self, case, out):
        return "" if case.line.startswith("encbx ") or case.line.startswith("alloclim ") else coarse_derr(out)

    def cases(self, tier, rng):
        n = 700 if tier == "quick" else 6000
        out = []
        for _ in range(n):
            p = gen.payload(rng, thorough=(tier == "thorough"))
            h = hx(p)
            fl = len(gen.frame(p))
            # calls after the end: a few, or enough to pass any 8-bit state counter (i8: 120, u8: 248)
            k = 3 if rng.random() < 0.85 else rng.choice([125, 130, 260, 400])
            out.append(Case("enci %d %s" % (k, h), "enci" if k == 3 else "enci-long-after-end", dict(p=h)))
            out.append(Case("encb - " + h, "encb-vec", dict(p=h, cap=None)))
            for _ in range(2):
                c = gen.cap_near(rng, fl)
                out.append(Case("encb %d %s" % (c, h), "encb-array", dict(p=h, cap=c)))
        # the largest fixed buffers of the harness menu with frames beyond 65 535 bytes (16-bit length fields); too slow
        # for the model's linear capacity test, so compared with the frame specification only (suite encbx)
        for cap, n in ((70000, 65536), (70000, 69000), (65536, 65500), (65536, 65530)):
            p = gen.payload(rng, n)
            out.append(Case("encbx %d %s" % (cap, hx(p)), "encb-giant-array", dict(p=hx(p), cap=cap)))
        out += alloc_failure_cases(rng, 16 if tier == "quick" else 200)
        # frames whose checksum bytes are 00 00 / 1b 1b / ff ff / ...
        for sp in gen.SPECIAL_CRC_PAYLOADS:
            out.append(Case("enci 3 " + hx(sp), "enci-special-crc", dict(p=hx(sp))))
            out.append(Case("encb - " + hx(sp), "encb-special-crc", dict(p=hx(sp), cap=None)))
            out.append(Case("encb %d %s" % (len(gen.frame(sp)), hx(sp)), "encb-special-crc", dict(p=hx(sp), cap=len(gen.frame(sp)))))
        # the public Encoder::new over a source that is not fused (yields again after its first None)
        for _ in range(20 if tier == "quick" else 300):
            a = gen.payload(rng, rng.randint(0, 24))
            b = gen.payload(rng, rng.randint(1, 12))
            out.append(Case("encu %s %s" % (hx(a), hx(b)), "enc-unfused-source", dict(encu=hx(a))))
        if tier == "thorough":
            for b in gen.small_bodies(6):
                out.append(Case("enci 1 " + hx(b), "small-enci", dict(p=hx(b))))
                out.append(Case("encb - " + hx(b), "small-encb", dict(p=hx(b), cap=None)))
        return out

    def nontrivial(self, case, out):
        return case.meta.get("p", ".") != "."

    def oracle(self, cases, dbg, rel, spec):
        ps = sorted(set(c.meta["p"] for c in cases if "p" in c.meta))
        fr = dict(zip(ps, spec(["frame " + p for p in ps])))
        bad = []
        for i, c in enumerate(cases):
            if c.meta.get("alloclim"):
                for prof, o in both(dbg, rel, i):
                    why = alloc_failure_check(o)
                    if why:
                        bad.append(dict(case=c.line, why="%s build: %s" % (prof, why)))
                        break
                continue
            if "encu" in c.meta:
                exp = hx(gen.frame(unhx(c.meta["encu"])))
                for prof, o in both(dbg, rel, i):
                    if o != exp:
                        bad.append(dict(case=c.line, why="%s build: encoder over an unfused source: got %s expected the frame of the bytes before the first None %s" % (prof, o[:200], exp[:200])))
                        break
                continue
            if "p" not in c.meta:
                continue
            f = fr[c.meta["p"]]
            for prof, o in both(dbg, rel, i):
                if c.line.startswith("enci"):
                    k = int(c.line.split()[1])
                    exp = f + "|" + ";".join(["-"] * k)
                else:
                    cap = c.meta["cap"]
                    exp = "ok:" + f if cap is None or len(f) // 2 <= cap else "oom"
                if o != exp:
                    bad.append(dict(case=c.line, why="%s build: encoder output differs from the specified frame: got %s expected %s" % (prof, o[:200], exp[:200])))
                    break
        return bad


# ==========================================================================================
# C01 round trip
# ==========================================================================================
class C01(Prop):
    pid = "C01"
    theorems = [("C01_roundtrip",
                 "forall (cap : cap_t) (p : list N), cap_ok cap (length p) -> "
                 "enc_collect p = frame p /\\ encode_buf None p = Some (frame p) /\\ "
                 "(exists d', run cap init (frame p) = (d', map (fun _ => (ONone, [])) (removelast (frame p)) ++ [(OMsg, p)]) /\\ snd (finalize d') = None) /\\ "
                 "decode_fn (frame p) = [RMsg p] /\\ "
                 "(snd (di_all cap (length (frame p) + 2) (di_new (frame p))) = [RMsg p] /\\ "
                 "forall k, di_extra cap k (fst (di_all cap (length (frame p) + 2) (di_new (frame p)))) = repeat None k) /\\ "
                 "(forall kind, kind <> KEh -> snd (rd_all cap (length (frame p) + 2) (rd_new kind (map SByte (frame p)))) = [RdOk p])"),
                ("C01_injective", "forall p q : list N, frame p = frame q -> p = q")]
    level_text = ("Theorems C01_roundtrip, C01_injective (Coq, closed; framing is injective): for every payload and every buffer holding |p| bytes, both encoders yield frame p and "
                  "the push decoder, decode(), decode_streaming and the slice/iterator/io::Read readers yield exactly p at the last byte "
                  "and nothing else (forward simulation along the encoder loop incl. the 8-bit pad counter, zero cache and re-alignment). "
                  "Oracle: real encoders -> real front-ends on payloads up to 8 KiB (thorough 64 KiB) with capacity exactly |p|.")
    suite_names = "S-ENC+S-DEC+S-FRONT (rt)"
    rule = ("payloads from G-PAY; per payload the real encoders (Vec + iterator) produce the frame, which is fed to the push "
            "decoder (+finalize), decode() and decode_streaming (+2 extra next()) with a buffer of capacity >= |p| from the "
            "menu (often exactly |p|) or Vec. non-trivial = payload non-empty")

    def project(self, case, out):
        return "" if case.line.startswith("rtx ") else coarse_derr(out)

    def cases(self, tier, rng):
        n = 1200 if tier == "quick" else 10000
        out = []
        for _ in range(n):
            p = gen.payload(rng, thorough=(tier == "thorough"))
            r = rng.random()
            if r < 0.35:
                cap = "-"
            elif r < 0.75:
                c = gen.cap_at_least(len(p))
                cap = str(c) if c is not None else "-"
            else:
                c = rng.choice([x for x in gen.CAP_MENU if x >= len(p)] or [None])
                cap = str(c) if c is not None else "-"
            if len(p) > 20000:
                cap = "-"      # the model's capacity test is linear in the buffer length: giant payloads go to the growable buffer
            out.append(Case("rt %s %s" % (cap, hx(p)), "rt" + ("-vec" if cap == "-" else "-array"), dict(p=hx(p))))
            if len(p) <= 2000 and rng.random() < 0.3:
                f = gen.frame(p)
                # a decoder built by Decoder::from_buf on a used buffer, and a reader over an io::Read that reports
                # Interrupted in the middle of the frame (read_exact retries), must return the payload just the same
                out.append(Case("dec %s N,x%s,F" % (cap, hx(f)), "frombuf", dict(rt_dec=hx(p), flen=len(f))))
                cut = rng.randint(1, len(f) - 1)
                rcap = cap if cap in ("-", "64", "8192") or cap in [str(x) for x in RD_CAPS] else "-"
                out.append(Case("rd io %s I,x%s,I,I,x%s,I nbnbnb" % (rcap, hx(f[:cut]), hx(f[cut:])), "io-interrupted", dict(rt_rd=hx(p))))
        # payloads beyond 64 KiB and 1 MiB in the growable buffer (no size limit may hide in it); the larger one is not
        # run through the model (suite rtx)
        for sp in gen.SPECIAL_CRC_PAYLOADS:
            out.append(Case("rt - %s" % hx(sp), "rt-special-crc", dict(p=hx(sp))))
            out.append(Case("rt 4 %s" % hx(sp), "rt-special-crc", dict(p=hx(sp))))
        for n in (70000, 65520, 65535):
            p = gen.payload(rng, n)
            if n < 70000:
                # frame length exactly 2^16 / just above (a wrapped 16-bit length counter looks "too short"): no escapes
                p = bytes(b if b != 0x1b else 0x1c for b in p)
            out.append(Case("rt - %s" % hx(p), "rt-vec-64k", dict(p=hx(p))))
        p = gen.payload(rng, (1 << 20) + 37)
        out.append(Case("rtx - %s" % hx(p), "rt-vec-1M", dict(p=hx(p))))
        # frames whose last byte is 0x00 (checksum high byte) through the slice reader: nothing may be trimmed
        k = 0
        while k < 6:
            p = gen.payload(rng, rng.randint(1, 12))
            f = gen.frame(p)
            if f[-1] == 0:
                k += 1
                out.append(Case("rd slice - x%s nbnbnb" % hx(f), "slice-frame-ending-00", dict(rt_rd=hx(p))))
                out.append(Case("rd slice default x%s nbnbnb" % hx(f), "slice-frame-ending-00", dict(rt_rd=hx(p))))
        if tier == "thorough":
            for b in gen.small_bodies(7):
                c = gen.cap_at_least(len(b))
                out.append(Case("rt %d %s" % (c, hx(b)), "small", dict(p=hx(b))))
            for _ in range(4):      # largest bounded buffer that the model runs in seconds: 16 KiB at exact capacity
                p = gen.payload(rng, 16384)
                out.append(Case("rt 16384 %s" % hx(p), "rt-array", dict(p=hx(p))))
        return out

    def nontrivial(self, case, out):
        return case.meta.get("p", ".") != "."

    def oracle(self, cases, dbg, rel, spec):
        bad = []
        for i, c in enumerate(cases):
            if "rt_dec" in c.meta or "rt_rd" in c.meta:
                for prof, o in both(dbg, rel, i):
                    if "rt_dec" in c.meta:
                        L = c.meta["flen"]
                        exp = "0:N;%d:M%s;%d:F-" % (L, c.meta["rt_dec"], L + 1)
                    else:
                        exp = "M%s;-;-" % c.meta["rt_rd"]
                    if o != exp:
                        bad.append(dict(case=c.line, why="%s build: round trip does not yield exactly the payload: got %s expected %s" % (prof, o[:300], exp[:300])))
                        break
                continue
            if not (c.line.startswith("rt ") or c.line.startswith("rtx ")):
                continue
            p = c.line.split()[2]
            for prof, o in both(dbg, rel, i):
                ok = True
                parts = o.split(";i")
                if len(parts) != 2 or not parts[0].startswith("b"):
                    ok = False
                else:
                    for part in (parts[0][1:], parts[1]):
                        m = re.match(r"^(\d+)\[(.*)\]\{(.*)\}\((.*)\)$", part)
                        if not m:
                            ok = False
                            break
                        L = int(m.group(1))
                        if m.group(2) != "%d:M%s;%d:F-" % (L - 1, p, L) or m.group(3) != "M" + p or m.group(4) != "M%s|-;-" % p:
                            ok = False
                            break
                if not ok:
                    bad.append(dict(case=c.line, why="%s build: round trip does not yield exactly the payload at the last byte: %s" % (prof, o[:400])))
                    break
        return bad


# ==========================================================================================
# C02 decoder soundness
# ==========================================================================================
def stream_cases(rng, n, maxpay=40, with_ops=True):
    out = []
    for _ in range(n):
        s, desc = gen.stream(rng, maxpay=maxpay)
        r = rng.random()
        cap = "-" if r < 0.4 else str(rng.choice([c for c in gen.CAP_MENU if c <= 64] + [8192]))
        ops = gen.ops_of_stream(s, rng, 0.3 if with_ops and rng.random() < 0.4 else 0.0)
        out.append(Case("dec %s %s" % (cap, ops or "x."), "dec:" + "+".join(sorted(set(re.sub(r"\d+", "", d) for d in desc))), dict(s=s)))
        if rng.random() < 0.25:
            out.append(Case("fdecode " + hx(s), "fdecode", dict(s=s)))
        if rng.random() < 0.25:
            out.append(Case("fstream %s 1 %s" % (cap, hx(s)), "fstream", dict(s=s)))
    return out


def small_family_cases(maxlen, families=(1, 2, 3, 4)):
    """bounded-exhaustive adversarial streams over the 5-symbol alphabet (DESIGN G-SMALL)"""
    out = []
    x = bytes([0x12, 0x34])
    for b in gen.small_bodies(maxlen):
        if 1 in families:
            out.append(Case("dec - x" + hx(gen.frame(b)), "small-frame"))
        if 2 in families:
            for pad in range(0, 5):
                out.append(Case("dec - x" + hx(gen.end_seq(gen.START + b, pad)), "small-rawend"))
        if 3 in families:
            out.append(Case("dec - x" + hx(gen.START + b) + ",F", "small-cut"))
        if 4 in families:
            out.append(Case("dec - x" + hx(b + gen.frame(x)), "small-noise"))
    return out


def check_sound(case, o, fr_lookup):
    """every M event: the bytes pushed since the last boundary op end with frame(m)"""
    ops = parse_ops(case.line.split(" ", 2)[2])
    evs = parse_events(o)
    for (idx, k, rest) in evs:
        if k != "M":
            continue
        # bytes consumed since the last non-push op before idx
        seg = bytearray()
        for j in range(idx, -1, -1):
            if j >= len(ops) or ops[j][0] != "x":
                break
            seg.append(ops[j][1])
        seg.reverse()
        f = fr_lookup(rest)
        if not bytes(seg).endswith(unhx(f)):
            return "payload %s reported at op %d although the consumed bytes do not end with its canonical frame" % (rest[:80], idx)
    return None


class C02(Prop):
    pid = "C02"
    theorems = [("C02_sound",
                 "forall (cap : cap_t) (ops : list op) (i : nat) (m : list N), Forall op_ok ops -> "
                 "nth_error (snd (run_ops cap init ops)) i = Some (EvPush OMsg m) -> "
                 "exists pre, trailing (firstn (S i) ops) [] = pre ++ frame m"),
                ("C02_frontends",
                 "forall (s m : list N), bytes_ok s -> "
                 "(In (RMsg m) (decode_fn s) -> exists pre suf, s = pre ++ frame m ++ suf) /\\ "
                 "(forall cap, In (RMsg m) (snd (di_all cap (length s + 2) (di_new s))) -> exists pre suf, s = pre ++ frame m ++ suf) /\\ "
                 "(forall cap kind, kind <> KEh -> In (RdOk m) (snd (rd_all cap (length s + 2) (rd_new kind (map SByte s)))) -> "
                 "exists pre suf, s = pre ++ frame m ++ suf)")]
    suite_names = "S-DEC/S-FRONT (dec, fdecode, fstream)"
    level_text = ("Theorems C02_sound, C02_frontends (Coq, closed; C02_frontends: a payload reported by decode(), decode_streaming or a "
                  "reader occurs canonically framed in the stream it was given). C02_sound: for every capacity and every history of push_byte/finalize/"
                  "reset/from_buf, a reported payload m implies the bytes pushed since the last boundary end with frame m - unbounded in "
                  "stream length, for any attacker-chosen bytes. Correspondence model<->code on adversarial streams (debug+release) and the "
                  "same statement evaluated on the real decoder's outputs with the extracted spec.")
    rule = ("adversarial streams from G-STREAM: valid frames, frames with flip/drop/insert/truncate, wrong pad count, pad bytes "
            "counted as data, misaligned end, end shifted by 1-3 0x1b, non-zero padding, missing escape, restart inside, invalid "
            "escape - CRC recomputed for the manipulated framing - plus noise; interleaved finalize/reset/new; quick adds the "
            "bounded-exhaustive families over {00,01,1a,1b,55} up to length 4, thorough up to 7. non-trivial = at least one "
            "decoder event produced")

    def cases(self, tier, rng):
        out = stream_cases(rng, 2500 if tier == "quick" else 30000)
        out += small_family_cases(4 if tier == "quick" else 7, (2, 3, 4))
        return out

    def project(self, case, out):
        if case.line.startswith("dec "):
            return ";".join("%d:%s%s" % e for e in parse_events(out) if e[1] in "MP")
        return ";".join(x for x in out.replace("|", ";").split(";") if x[:1] in "MP")

    def nontrivial(self, case, out):
        return out not in (".", "")

    def oracle(self, cases, dbg, rel, spec):
        ms = set()
        for i, c in enumerate(cases):
            for prof, o in both(dbg, rel, i):
                for m in re.findall(r"M([0-9a-f.]+)", o):
                    ms.add(m)
        ms = sorted(ms)
        fr = dict(zip(ms, spec(["frame " + m for m in ms])))
        bad = []
        for i, c in enumerate(cases):
            for prof, o in both(dbg, rel, i):
                why = None
                if c.line.startswith("dec "):
                    why = check_sound(c, o, lambda m: fr[m])
                elif c.line.startswith("fdecode ") or c.line.startswith("fstream "):
                    s = unhx(c.line.split()[-1])
                    for m in re.findall(r"M([0-9a-f.]+)", o):
                        if unhx(fr[m]) not in s:
                            why = "payload %s reported although its canonical frame does not occur in the stream" % m[:80]
                if why:
                    bad.append(dict(case=c.line, why="%s build: %s" % (prof, why)))
                    break
        return bad



# ==========================================================================================
# C05 transport totality
# ==========================================================================================
def has_panic(o):
    return bool(re.search(r"(^|[;:|\[{(!])P($|[;|\]})])", o)) or "HARNESS-ERROR" in o or "NO-OUTPUT" in o or o == "panic" or o.startswith("ABORT")


class C05(Prop):
    pid = "C05"
    theorems = [("C05_total",
                 "(forall (cap : cap_t) (ops : list op), forallb (fun e => negb (ev_panics e)) (snd (run_ops cap init ops)) = true) /\\ "
                 "(forall (p : list N) (k : nat), ~ In EPanic (enc_after k (enc_new p))) /\\ "
                 "(forall s : list N, ~ In RPanic (decode_fn s)) /\\ "
                 "(forall (cap : cap_t) (s : list N) (k : nat), ~ In (Some RPanic) (di_extra cap k (di_new s))) /\\ "
                 "(forall (cap : cap_t) (kind : skind) (evs : list sev) (calls : list (meth * target)), "
                 "Forall (fun c => snd c = TBytes) calls -> forallb (fun c => negb (call_panics c)) (sr_calls cap calls (rd_new kind evs)) = true)"),
                ("C05_readers",
                 "forall (cap : cap_t) (kind : skind) (evs : list sev) (calls : list (meth * target)), "
                 "Forall (fun e => match e with SByte b => b < 256 | _ => True end) evs -> lenN evs < 4294967296 -> "
                 "forallb (fun c => negb (match c with | CItem IPanic => true "
                 "| CItem (IEvents l) => existsb (fun x => match x with SPanic => true | _ => false end) l | _ => false end)) "
                 "(sr_calls cap calls (rd_new kind evs)) = true")]
    level_text = ("Theorems C05_total, C05_readers (Coq, closed; C05_readers: no SmlReader call panics for any target type incl. File and "
                  "Parser, via a payload-length invariant of the decoder and C06). C05_total: every panic site of the transport code (checked arithmetic, indexing, asserts, "
                  "borrow guard, fuel) is an explicit output value of the model and is proved unreachable for all histories, capacities, "
                  "payloads, sources and fault schedules; termination by structural recursion. Correspondence/oracle in debug (overflow "
                  "checks) and release incl. 2^16..2^17+ noise runs.")
    level_note = Prop.level_note + "; allocator failure of Vec growth and stack depth are outside the model (recursion depth <= 3)"
    suite_names = "S-DEC/S-FRONT/S-ENC/S-IO (dec, fdecode, fstream, rt, enci, encb, rd)"
    rule = ("all transport suites in debug (overflow checks on) and release: adversarial streams with interleaved finalize/reset/new, "
            "capacities incl. 0, noise runs of 2^16-2..2^16+2 and 2^17 bytes, payloads up to 8196 (thorough 65540), reader call "
            "sequences with faults. non-trivial = the case produced at least one event")

    def cases(self, tier, rng):
        out = stream_cases(rng, 1200 if tier == "quick" else 12000)
        for c in out:
            pass
        n = 300 if tier == "quick" else 3000
        for _ in range(n):
            p = gen.payload(rng, thorough=(tier == "thorough"))
            out.append(Case("rt %s %s" % (rng.choice(["-", "0", "1", "4", "64", "8192"]), hx(p)), "rt"))
            out.append(Case("enci %d %s" % (2 if rng.random() < 0.85 else rng.choice([125, 130, 260, 400]), hx(p)), "enci"))
            out.append(Case("encb %d %s" % (rng.choice(gen.CAP_MENU), hx(p)), "encb"))
        # long noise runs around the former 16-bit counter limit, followed by a frame
        f = gen.frame(b"\x12\x34\x56\x78")
        for ln in [65533, 65534, 65535, 65536, 65537, 131072, 196609]:
            for fill in (0x55, 0x1b):
                out.append(Case("dec - x%s,x%s,F" % (hx(bytes([fill]) * ln), hx(f)), "longnoise"))
                out.append(Case("dec 4 x%s,F,x%s,R" % (hx(bytes([fill]) * ln), hx(f)), "longnoise"))
            out.append(Case("fdecode " + hx(bytes([0x55]) * ln + f), "longnoise"))
            out.append(Case("rd io 8 x%s,x%s nbnbnb" % (hx(bytes([0x55]) * ln), hx(f)), "longnoise"))
        out += reader_cases(rng, 400 if tier == "quick" else 4000)
        out += long_run_cases(rng)
        out.append(Case("enchint", "encoder-endless-source", dict(enchint=True)))
        out += alloc_failure_cases(rng, 12 if tier == "quick" else 150)
        return out

    def project(self, case, out):
        if case.line == "enchint":
            return ""
        return "panic" if has_panic(out) else "ok"

    def nontrivial(self, case, out):
        return out not in (".", "", ".|.")

    def oracle(self, cases, dbg, rel, spec):
        bad = []
        for i, c in enumerate(cases):
            for prof, o in both(dbg, rel, i):
                if c.meta.get("alloclim"):
                    why = alloc_failure_check(o)
                    if why:
                        bad.append(dict(case=c.line, why="%s build: %s" % (prof, why)))
                        break
                    continue
                if c.meta.get("enchint"):
                    if o != "ok":
                        bad.append(dict(case=c.line, why="%s build: iterator encoder over an endless source (size_hint / first bytes): %s" % (prof, o[:120])))
                        break
                    continue
                if has_panic(o):
                    bad.append(dict(case=c.line, why="%s build: a transport entry point panicked / did not return: %s" % (prof, o[:300])))
                    break
        return bad


# ==========================================================================================
# reader cases (shared by C05, C10, C11, C15)
# ==========================================================================================
RD_CAPS = ["-", "default", "8192", "1024", "256", "64", "32", "16", "8", "4", "0"]


def model_line(line):
    if line.startswith("encu "):
        return "frame " + line.split(" ")[1]      # the specification: the frame of the bytes before the first None
    if line.startswith("encbx ") or line.startswith("alloclim ") or line.startswith("rtx ") or line == "enchint":
        return "crc ."           # not run through the model (see C07.cases / alloc_failure_cases)
    if line.startswith("rd "):
        line = line.replace(" default ", " 8192 ")
        f = line.split(" ")
        # an iterator source that pauses (returns None, then resumes) behaves like an io::Read source whose read
        # returns Ok(0) at that point: Eof is reported, later bytes are still delivered
        if f[1] == "iter" and "Z" in f[3]:
            f[1] = "io"
            line = " ".join(f)
    return line


def transmission(rng, sml=True, maxpay=40, bad=0.15, with_noise=0.5):
    """a sequence of frames (SML files or raw payloads), optionally separated by noise; returns (bytes, parts)"""
    parts = []
    out = bytearray()
    for _ in range(rng.randint(0, 3)):
        g = gen.clean_noise(rng, 10) if rng.random() < with_noise else b""
        if sml and rng.random() < 0.8:
            d, text, evs, _ = gen.gen_file(rng, rng.choice([1, 2, 3, 1, 2, 3, 0]))       # also the empty file (empty payload)
        else:
            d, text, evs = gen.payload(rng, rng.randint(0, maxpay)), None, None
        if rng.random() < bad:
            f = gen.bad_frame(rng, d)
            parts.append(("bad", g, d, None, None))
        else:
            f = gen.frame(d)
            parts.append(("frame", g, d, text, evs))
        out += g + f
    return bytes(out), parts


def fault_tokens(rng, s, kind, p=0.5, maxchunk=30):
    toks = []
    i = 0
    menu = ["W", "W", "I", "O", "Z"] if kind == "io" else ["W", "W", "O"]
    if rng.random() < 0.3:
        toks.append(rng.choice(menu))
    while i < len(s):
        j = min(len(s), i + rng.randint(1, maxchunk))
        toks.append("x" + hx(s[i:j]))
        i = j
        if rng.random() < p:
            for _ in range(rng.randint(1, 2)):
                toks.append(rng.choice(menu))
    return toks


def reader_cases(rng, n, faults=True):
    out = []
    for _ in range(n):
        s, parts = transmission(rng)
        if rng.random() < 0.3:
            s += gen.noise(rng, 6)
        kind = rng.choice(["slice", "iter", "io", "eh"])
        if faults and kind in ("io", "eh") and rng.random() < 0.7:
            toks = fault_tokens(rng, s, kind)
        else:
            toks = ["x" + hx(s)] if s else []
        calls = "".join(rng.choice("rnRN" if kind != "eh" else "rR") + rng.choice("bfp") for _ in range(rng.randint(1, 14)))
        cap = rng.choice(RD_CAPS)
        out.append(Case("rd %s %s %s %s" % (kind, cap, ",".join(toks) or "x.", calls), "rd-" + kind, dict(s=s)))
    out += iter_pause_cases(rng, max(20, n // 10))
    return out


def iter_pause_cases(rng, n):
    """an iterator source that is not fused: it returns None between (or inside) transmissions and resumes later.
    Every frame must still be delivered; each pause is one end-of-input report (or None when nothing is pending)."""
    out = []
    for _ in range(n):
        frames = [gen.payload(rng, rng.randint(0, 12)) for _ in range(rng.randint(1, 3))]
        toks = []
        for p in frames:
            f = gen.frame(p)
            r = rng.random()
            if r < 0.5:
                toks += ["Z", "x" + hx(f)]                 # pause before the transmission
            elif r < 0.8:
                cut = rng.randint(1, len(f) - 1)
                toks += ["x" + hx(f[:cut]), "Z", "x" + hx(f[cut:])]     # pause inside (costs that frame)
            else:
                toks += ["x" + hx(f)]
        calls = "nb" * (2 * len(toks) + 4)
        out.append(Case("rd iter %s %s %s" % (rng.choice(["-", "64", "default"]), ",".join(toks), calls), "rd-iter-pause",
                        dict(pause_frames=[hx(p) for p in frames], toks=toks)))
    return out


# ==========================================================================================
# C08 resynchronisation
# ==========================================================================================
class C08(Prop):
    pid = "C08"
    theorems = [("C08_noise",
                 "forall (cap : cap_t) (d : dec) (g m : list N), norm d = norm init -> only_at_end g -> cap_ok cap (length m) -> "
                 "snd (run cap d (g ++ frame m)) = quiet g ++ quiet (firstn 7 start_seq) ++ "
                 "[(if 0 <? lenN g then OErr (DiscardedBytes (lenN g)) else ONone, [])] ++ "
                 "skipn 8 (quiet (removelast (frame m)) ++ [(OMsg, m)])"),
                ("C08_cutoff",
                 "forall (cap : cap_t) (d : dec) (q m : list N), norm d = norm init -> cnt_from 0 q = 0 -> "
                 "cap_ok cap (length q) -> cap_ok cap (length m) -> let x := start_seq ++ enc_from 0 q in "
                 "snd (run cap d (x ++ frame m)) = quiet x ++ quiet (firstn 7 start_seq) ++ [(OErr (DiscardedBytes (lenN x)), [])] ++ "
                 "skipn 8 (quiet (removelast (frame m)) ++ [(OMsg, m)])"),
                ("C08_side_condition", "forall g : list N, only_at_end_b g = true -> only_at_end g")]
    level_text = ("Theorems C08_noise, C08_cutoff (Coq, closed): from every idle state (norm = new; C14) noise without a start sequence - "
                  "also ending in 0x1b bytes or a partial start sequence - followed by frame m gives silence, DiscardedBytes(|g|) exactly "
                  "at the 8th start byte, silence, and m at the last byte; likewise for a cut-off frame. The start-sequence matcher is "
                  "shown complete via its transition function on all 8 states. Oracle: real decoder on noise incl. start-sequence fragments.")
    suite_names = "S-DEC (dec)"
    rule = ("idle decoder histories (new / after a delivered frame / after junk+reset / junk+finalize / from_buf) x noise g with the "
            "start sequence occurring in g++start only at |g| (random, 5-symbol alphabet, ending in 1-7 0x1b, in a partial start "
            "sequence, in >=4 0x1b + 0-3 01) x payload m; and frames cut where no 0x1b run/escape is in progress, followed by a frame. "
            "non-trivial = noise or cut part non-empty")

    def cases(self, tier, rng):
        n = 1500 if tier == "quick" else 15000
        out = []
        for _ in range(n):
            m = gen.payload(rng, rng.randint(0, 40))
            fam = rng.random()
            cap = rng.choice(["-", str(gen.cap_at_least(len(m))), "64", "8192"])
            if cap != "-" and int(cap) < len(m):
                cap = "-"
            if fam < 0.7:
                g = gen.clean_noise(rng, 30)
                pk = rng.randrange(5)
                junk = gen.noise(rng, 20)
                pre = ["", "x" + hx(gen.frame(gen.payload(rng, rng.randint(0, min(20, len(m)))))), "x%s,R" % hx(junk), "x%s,F" % hx(junk), "N"][pk]
                if pk == 1 and cap != "-":
                    cap = "64" if len(m) <= 64 else "-"
                ops = ",".join(x for x in [pre, "x" + hx(g) if g else "", "x" + hx(gen.frame(m))] if x)
                out.append(Case("dec %s %s" % (cap, ops), "noise-" + ["new", "afterframe", "reset", "finalize", "frombuf"][pk],
                                dict(pre=pre, g=g, m=m)))
            else:
                q = gen.payload(rng, rng.randint(0, 40))
                js = [j for j in range(len(q) + 1) if j == 0 or q[j - 1] != 0x1b]
                j = rng.choice(js)
                cut = gen.START + gen.esc(q[:j])
                if cap != "-" and int(cap) < max(len(q), len(m)):
                    cap = "-"
                out.append(Case("dec %s x%s,x%s" % (cap, hx(cut), hx(gen.frame(m))), "cutoff", dict(pre="", g=cut, m=m, cut=True)))
        if tier == "thorough":
            x = bytes([0x12, 0x34])
            for b in gen.small_bodies(7):
                if (b + gen.START).find(gen.START) == len(b):
                    out.append(Case("dec - x%s,x%s" % (hx(b), hx(gen.frame(x))) if b else "dec - x" + hx(gen.frame(x)), "small-noise", dict(pre="", g=b, m=x)))
        return out

    def project(self, case, out):
        return ";".join("%d:%s%s" % e for e in parse_events(out) if e[1] in "MPE" and (e[1] != "E" or e[2][:1] == "D"))

    def nontrivial(self, case, out):
        return len(case.meta.get("g", b"")) > 0

    def oracle(self, cases, dbg, rel, spec):
        bad = []
        for i, c in enumerate(cases):
            if "g" not in c.meta:
                continue
            g, m, pre = c.meta["g"], c.meta["m"], c.meta["pre"]
            npre = len(parse_ops(pre))
            fl = len(gen.frame(m))
            for prof, o in both(dbg, rel, i):
                evs = [e for e in parse_events(o) if e[0] >= npre]
                exp = []
                if len(g):
                    exp.append((npre + len(g) + 7, "E", "D%d" % len(g)))
                exp.append((npre + len(g) + fl - 1, "M", hx(m)))
                if evs != exp:
                    bad.append(dict(case=c.line, why="%s build: after %d noise/cut-off bytes the frame was not delivered with exactly one discarded-bytes report: got %s expected %s" % (prof, len(g), evs[:6], exp)))
                    break
        return bad


# ==========================================================================================
# C14 no memory across boundaries
# ==========================================================================================
BOUNDARY_KINDS = "MFRN"


def is_boundary_event(ev):
    idx, k, rest = ev
    if k in "MFRN":
        return True
    if k == "E" and rest[:1] in "IXO":
        return True
    return False


class C14(Prop):
    pid = "C14"
    theorems = [("C14_boundary",
                 "forall (cap : cap_t) (d0 : dec) (o : op) (ops2 : list op), boundary_ev (snd (do_op cap d0 o)) = true -> "
                 "snd (run_ops cap (fst (do_op cap d0 o)) ops2) = snd (run_ops cap init ops2)"),
                ("C14_concat",
                 "forall (cap : cap_t) (ops1 : list op) (o : op) (ops2 : list op), "
                 "boundary_ev (last (snd (run_ops cap init (ops1 ++ [o]))) EvNew) = true -> "
                 "snd (run_ops cap init ((ops1 ++ [o]) ++ ops2)) = snd (run_ops cap init (ops1 ++ [o])) ++ snd (run_ops cap init ops2)")]
    level_text = ("Theorems C14_boundary / C14_concat (Coq, closed): from any decoder state, after any boundary event the event sequence on "
                  "every continuation equals that of a new decoder (bisimulation up to a normalisation that erases the dead CRC register "
                  "and maps Done to the initial state). Oracle: used vs fresh real decoder on leak-exposing continuations.")
    suite_names = "S-DEC (dec)"
    rule = ("triples (prefix ending at a boundary event: delivered frame, InvalidMessage, InvalidEsc, OutOfMemory, reset, finalize, "
            "from_buf) x continuation streams chosen to expose leaked state (zeros, 0x1b runs, end sequences, frames, partial start "
            "sequences); the used decoder on the continuation is compared with a fresh decoder. non-trivial = the prefix really ended "
            "at a boundary and the continuation produced an event")

    def cases(self, tier, rng):
        n = 900 if tier == "quick" else 9000
        out = []
        for k in range(n):
            s, desc = gen.stream(rng, maxpay=24, nseg=rng.randint(1, 3))
            r = rng.random()
            if r < 0.45:
                pre = "x" + hx(s) if s else ""
            elif r < 0.75:
                cutp = s[:rng.randint(0, len(s))]
                pre = ",".join(x for x in ["x" + hx(cutp) if cutp else "", rng.choice(["F", "R", "N"])] if x)
            elif r < 0.80:
                # a transmission cut exactly where a fixed buffer overflows: the last event of the prefix is OutOfMemory
                capn = rng.choice([4, 8, 16])
                body = bytes(rng.choice([0x55, 0x12, 0x34, 0x7f]) for _ in range(capn + 1))
                if rng.random() < 0.5:
                    # ... overflowing while the withheld zeros are written
                    z = rng.randint(2, 4)
                    body = body[:capn - z + 1] + bytes(z) + b"\x9a"
                pre = "x" + hx(gen.START + body)
                out_cap_override = str(capn)
            elif r < 0.87:
                # a transmission that ends in an invalid escape sequence / a rejected end sequence: the error event is
                # the last event of the prefix, whatever bytes the rejected sequence consisted of
                body = gen.payload(rng, rng.randint(0, 12))
                if rng.random() < 0.6:
                    tail = bytes([rng.choice([0x02, 0x1c, 0x00, 0x55, 0x01])] + [rng.choice([0x1b, 0x1b, 0x01, 0x00, rng.getrandbits(8)]) for _ in range(3)])
                else:
                    tail = bytes([0x1a, rng.choice([0, 1, 2, 3, 4, 7]), rng.getrandbits(8), rng.choice([0x1b, rng.getrandbits(8)])])
                pre = "x" + hx(gen.START + gen.esc(body) + bytes([0x1b] * 4) + tail)
            else:
                p = gen.payload(rng, rng.randint(5, 30))
                pre = "x" + hx(gen.frame(p))
            cap = rng.choice(["-", "4", "8", "16", "32", "64"])
            if 0.75 <= r < 0.80:
                cap = out_cap_override
            # continuation
            cr = rng.random()
            if cr < 0.3:
                cont, _ = gen.stream(rng, maxpay=16, nseg=rng.randint(1, 2))
            elif cr < 0.5:
                m = gen.payload(rng, rng.randint(0, 16))
                cont = gen.end_seq(bytes(rng.randint(0, 4)) + m, rng.randint(0, 3))[len(m):] if False else gen.frame(m)
            elif cr < 0.65:
                cont = bytes(rng.randint(1, 6)) + bytes([0x1b] * 4 + [0x1a, rng.randint(0, 3), rng.getrandbits(8), rng.getrandbits(8)])
            elif cr < 0.8:
                cont = gen.START[rng.randint(1, 7):] + gen.payload(rng, rng.randint(0, 8)) + gen.end_seq(b"", 0)[-8:]
            else:
                cont = gen.noise(rng, 12) + gen.frame(gen.payload(rng, rng.randint(0, 12)))
            if not cont:
                cont = b"\x00"
            cont_ops = "x" + hx(cont) + ",F"
            out.append(Case("dec %s %s" % (cap, pre or "x."), "prefix", dict(grp=k, role="pre")))
            out.append(Case("dec %s %s" % (cap, ",".join(x for x in [pre, cont_ops] if x)), "prefix+cont", dict(grp=k, role="both", npre=len(parse_ops(pre)))))
            out.append(Case("dec %s %s" % (cap, cont_ops), "cont", dict(grp=k, role="cont")))
        return out

    def nontrivial(self, case, out):
        return case.meta.get("role") == "both" and out != "."

    def oracle(self, cases, dbg, rel, spec):
        bad = []
        groups = {}
        for i, c in enumerate(cases):
            if "grp" in c.meta:
                groups.setdefault(c.meta["grp"], {})[c.meta["role"]] = i
        self.boundary_hits = 0
        for g, d in groups.items():
            if len(d) != 3:
                continue
            for prof, outs in (("debug", dbg), ("release", rel)):
                pre_evs = parse_events(outs[d["pre"]])
                npre = cases[d["both"]].meta["npre"]
                if npre > 0:
                    if not pre_evs or pre_evs[-1][0] != npre - 1 or not is_boundary_event(pre_evs[-1]):
                        continue
                self.boundary_hits += 1
                both_evs = [(e[0] - npre, e[1], e[2]) for e in parse_events(outs[d["both"]]) if e[0] >= npre]
                cont_evs = parse_events(outs[d["cont"]])
                if both_evs != cont_evs:
                    bad.append(dict(case=cases[d["both"]].line + " || " + cases[d["cont"]].line,
                                    why="%s build: after a boundary the decoder behaves differently from a new one: used %s fresh %s" % (prof, both_evs[:6], cont_evs[:6])))
                    break
        return bad


# ==========================================================================================
# C15 all front-ends agree
# ==========================================================================================
def norm_results(kind, o):
    """-> list of result strings, trailing leftover normalised to ('LEFT', n)"""
    if "P" == o or has_panic(o):
        return ["PANIC"]
    if kind == "dec":
        res = []
        for (i, k, r) in parse_events(o):
            if k == "M":
                res.append("M" + r)
            elif k == "E":
                res.append("E" + r)
            elif k == "F":
                if r != "-":
                    res.append("LEFT" + r[2:])      # FED<n>
        return res
    if kind == "fdecode":
        items = [] if o == "." else o.split(";")
    elif kind == "fstream":
        items = [] if o.split("|")[0] == "." else o.split("|")[0].split(";")
    else:  # rd with next-bytes calls
        items = [x for x in o.split(";") if x != "-"]
    res = []
    for x in items:
        if x.startswith("IOEof:"):
            res.append("LEFT" + x[6:])
        else:
            res.append(x)
    # a trailing DiscardedBytes from finalize is the leftover report of decode/decode_streaming
    return res


class C15(Prop):
    pid = "C15"
    theorems = [("C15_frontends",
                 "forall s : list N, decode_fn s = results (snd (run None init s)) ++ fin (fst (run None init s)) /\\ "
                 "(forall cap, snd (di_all cap (length s + 2) (di_new s)) = results (snd (run cap init s)) ++ fin (fst (run cap init s)) /\\ "
                 "(forall k, di_extra cap k (fst (di_all cap (length s + 2) (di_new s))) = repeat None k)) /\\ "
                 "(forall cap kind, kind <> KEh -> snd (rd_all cap (length s + 2) (rd_new kind (map SByte s))) = "
                 "map to_rd (results (snd (run cap init s))) ++ map eof_of (fin (fst (run cap init s))))")]
    level_text = ("Theorem C15_frontends (Coq, closed): decode(), decode_streaming and the readers over slice/iterator/io::Read report exactly "
                  "the push decoder's results followed by finalize's leftover report (readers: the same count as IoErr(Eof, n)); buffer "
                  "independence below capacity is C16_until_full. Oracle: all real front-ends pairwise on adversarial streams.")
    suite_names = "S-FRONT (dec+finalize, fdecode, fstream, rd slice/iter/io)"
    rule = ("byte streams from G-STREAM (frames, corrupted frames with recomputed CRC, noise, trailing partial data); every front-end "
            "(push decoder + finalize, decode, decode_streaming, SmlReader over slice / iterator / io::Read calling next::<DecodedBytes> "
            "until None) x buffers {Vec, ArrayBuf<N>, N >= |s|}; results compared pairwise, the trailing leftover report normalised "
            "(DiscardedBytes(n) from finalize vs IoErr(Eof, n)). non-trivial = at least one result")

    def cases(self, tier, rng):
        n = 700 if tier == "quick" else 7000
        out = []
        for k in range(n):
            s, desc = gen.stream(rng, maxpay=30, nseg=None if rng.random() < 0.9 else rng.randint(10, 16))
            if rng.random() < 0.3:
                s = s[:rng.randint(0, len(s))]
            caps = ["-"] + [str(c) for c in [16, 32, 64, 256, 1024, 8192] if c >= len(s)]
            bigcaps = ["-"] + [str(c) for c in gen.CAP_MENU if c >= len(s)][:6]
            h = hx(s)
            ncalls = "nb" * (len(s) // 8 + 4)
            out.append(Case("dec %s x%s,F" % (rng.choice(bigcaps), h), "dec", dict(grp=k, fe="dec")))
            out.append(Case("fdecode " + h, "fdecode", dict(grp=k, fe="fdecode")))
            out.append(Case("fstream %s 2 %s" % (rng.choice(bigcaps), h), "fstream", dict(grp=k, fe="fstream")))
            for kind in ("slice", "iter", "io"):
                out.append(Case("rd %s %s x%s %s" % (kind, rng.choice(caps + ["default"] if len(s) <= 8192 else caps), h, ncalls), "rd-" + kind, dict(grp=k, fe="rd")))
            if rng.random() < 0.5:
                # a push decoder built with Decoder::from_buf from a buffer that still holds bytes is one more front-end
                out.append(Case("dec %s N,x%s,F" % (rng.choice(bigcaps), h), "dec-frombuf", dict(grp=k, fe="dec")))
            if s and rng.random() < 0.5:
                # the same bytes through an io::Read that is interrupted now and then (read_exact retries): same stream
                toks, i = [], 0
                while i < len(s):
                    j = min(len(s), i + rng.randint(1, 24))
                    if rng.random() < 0.5:
                        toks.append("I")
                    toks.append("x" + hx(s[i:j]))
                    i = j
                out.append(Case("rd io %s %s %s" % (rng.choice(caps), ",".join(toks), ncalls), "rd-io-interrupted", dict(grp=k, fe="rd")))
        return out

    def nontrivial(self, case, out):
        return out not in (".", ".|-;-", "")

    def oracle(self, cases, dbg, rel, spec):
        bad = []
        groups = {}
        for i, c in enumerate(cases):
            if "grp" in c.meta:
                groups.setdefault(c.meta["grp"], []).append(i)
        for g, idxs in groups.items():
            for prof, outs in (("debug", dbg), ("release", rel)):
                ref = None
                for i in idxs:
                    r = norm_results(cases[i].meta["fe"], outs[i])
                    # decode()/decode_streaming report the leftover as a trailing DiscardedBytes error
                    if cases[i].meta["fe"] in ("fdecode", "fstream") and r and r[-1].startswith("ED"):
                        pass
                    if ref is None:
                        ref = (i, r)
                    elif not same_results(ref[1], r):
                        bad.append(dict(case=cases[ref[0]].line + " || " + cases[i].line,
                                        why="%s build: front-ends disagree: %s vs %s" % (prof, ref[1][:8], r[:8])))
                        break
                else:
                    continue
                break
        return bad


def same_results(a, b):
    """equal up to the representation of the final leftover report: LEFTn == trailing EDn"""
    def canon(r):
        r = list(r)
        if r and r[-1].startswith("LEFT"):
            r[-1] = "TAIL" + r[-1][4:]
        elif r and r[-1].startswith("ED"):
            r[-1] = "TAIL?" + r[-1][2:]
        return r
    ca, cb = canon(a), canon(b)
    if len(ca) != len(cb):
        # a front-end with explicit leftover vs one where the trailing ED might be a genuine mid-stream discard
        return False
    for x, y in zip(ca[:-1], cb[:-1]):
        if x != y:
            return False
    if not ca:
        return True
    x, y = ca[-1], cb[-1]
    nx = x.replace("TAIL?", "").replace("TAIL", "")
    ny = y.replace("TAIL?", "").replace("TAIL", "")
    if x.startswith("TAIL") or y.startswith("TAIL"):
        return x.startswith("TAIL") and y.startswith("TAIL") and nx == ny
    return x == y


# ==========================================================================================
# C16 buffer need = payload length
# ==========================================================================================
class C16(Prop):
    pid = "C16"
    theorems = [("C16_exact",
                 "forall m : list N, exists d', run (Some (length m)) init (frame m) = "
                 "(d', map (fun _ => (ONone, [])) (removelast (frame m)) ++ [(OMsg, m)]) /\\ st d' = Done /\\ rev (rbuf d') = m"),
                ("C16_oom",
                 "forall (n : nat) (m : list N), (n < length m)%nat -> exists s1 b s2 d1, frame m = s1 ++ b :: s2 /\\ "
                 "run (Some n) init s1 = (d1, map (fun _ => (ONone, [])) s1) /\\ snd (step (Some n) d1 b) = OErr OutOfMemory /\\ "
                 "norm (fst (step (Some n) d1 b)) = norm init"),
                ("C16_until_full", None)]
    level_text = ("Theorems C16_exact, C16_oom, C16_until_full (Coq, closed): capacity exactly |m| decodes frame m; any smaller capacity "
                  "yields OutOfMemory with nothing (no payload) before it and a state equal to a new decoder's up to norm (C14); a "
                  "fixed-capacity decoder equals the growable one until the first write beyond its capacity. Oracle: real ArrayBuf<N> "
                  "decoders for N around |m| incl. the 8 KiB default, each frame followed by a second frame.")
    suite_names = "S-DEC (dec, rd)"
    rule = ("payloads (esp. ending in zero runs / 0x1b runs) x fixed capacities N around |m| from the menu (N = |m| exactly, N < |m|, "
            "N = |m|+1), incl. the default 8 KiB reader buffer with payloads of 8190..8194 bytes; each frame is followed by a second "
            "frame that fits. non-trivial = payload non-empty")

    def cases(self, tier, rng):
        n = 1200 if tier == "quick" else 12000
        out = []
        for _ in range(n):
            r = rng.random()
            if r < 0.6:
                L = rng.choice([c for c in gen.CAP_MENU if c <= 64])
            elif r < 0.9:
                L = rng.choice([c for c in gen.CAP_MENU if 64 < c <= 1028])
            else:
                L = rng.choice([8188, 8189, 8190, 8191, 8192, 8193, 8194])
            d = rng.choice([0, 0, 0, 1, 1, 2, 3, -1])      # payload longer than the capacity by d
            ml = max(0, L + d)
            m = gen.payload(rng, ml)
            q = gen.payload(rng, rng.randint(0, min(L, 12)))
            # a quarter of the decoders are built with Decoder::from_buf from a buffer that still holds bytes
            fb = rng.random() < 0.25
            out.append(Case("dec %d %sx%s,x%s" % (L, "N," if fb else "", hx(gen.frame(m)), hx(gen.frame(q))),
                            ("exact" if d <= 0 else "toosmall") + ("-frombuf" if fb else ""), dict(m=m, q=q, N=L, shift=1 if fb else 0)))
        # the same through SmlReader with a small static buffer: OutOfMemory for the oversized frame, then the next frame
        for _ in range(60 if tier == "quick" else 600):
            L = rng.choice([4, 8, 16, 32, 64])
            ml = L + rng.choice([1, 1, 2, 3])
            m = bytearray(gen.payload(rng, ml))
            tail = rng.random()
            if tail < 0.35:
                k = rng.randint(1, 3); m[-k:] = bytes(k)                                   # ends in zeros
            elif tail < 0.7:
                k = rng.randint(1, 3); m[-k:] = bytes([0x1b] * k)                          # ends in 1-3 0x1b
            m = bytes(m)
            q = gen.payload(rng, rng.randint(0, min(L, 8)))
            kind = rng.choice(["slice", "iter", "io"])
            out.append(Case("rd %s %d x%s,x%s nbnbnbnbnbnb" % (kind, L, hx(gen.frame(m)), hx(gen.frame(q))), "rd-toosmall",
                            dict(rdq=hx(q), rdm=hx(m))))
        for nz in (252, 253, 254, 255, 256, 257, 258, 510, 511, 512):
            for head in (b"\x12", b"\x12\x34", b"\x12\x34\x56", b"\x12\x34\x56\x78"):
                m = head + bytes(nz)
                L = len(m)
                if L in gen.CAP_MENU:
                    out.append(Case("dec %d x%s,x%s" % (L, hx(gen.frame(m)), hx(gen.frame(b"\x07"))), "exact-long-zero-run", dict(m=m, q=b"\x07", N=L, shift=0)))
        for ml in (2047, 2048, 2049, 4096, 8192):
            m = gen.payload(rng, ml)
            out.append(Case("rd eh default x%s rbrb" % hx(gen.frame(m)), "default8k-eh", dict(m=m, N=8192, rd=True, eh=True)))
        for ml in [8190, 8191, 8192, 8193, 8194]:
            for _ in range(2 if tier == "quick" else 10):
                m = gen.payload(rng, ml)
                out.append(Case("rd slice default x%s nbnb" % hx(gen.frame(m)), "default8k", dict(m=m, N=8192, rd=True)))
        if tier == "thorough":
            for b in gen.small_bodies(6):
                for N in range(0, len(b) + 2):
                    out.append(Case("dec %d x%s,x%s" % (N, hx(gen.frame(b)), hx(gen.frame(b"\x07" * min(N, 1)))), "small", dict(m=b, q=b"\x07" * min(N, 1), N=N)))
        return out

    def nontrivial(self, case, out):
        return len(case.meta.get("m", b"")) > 0

    def project(self, case, out):
        if case.line.startswith("dec "):
            evs = parse_events(out)
            oom = [e for e in evs if e[1] == "E" and e[2] == "O"]
            return ";".join("%d:%s%s" % e for e in evs if e[1] in "MP") + ("#oom" if oom else "")
        return out

    def oracle(self, cases, dbg, rel, spec):
        bad = []
        for i, c in enumerate(cases):
            if "rdq" in c.meta:
                for prof, o in both(dbg, rel, i):
                    items = o.split(";")
                    if items[0] != "EO":
                        why = "oversized frame through a small reader buffer: first result is not OutOfMemory: %s" % items[:3]
                    elif any(x.startswith("M") and x != "M" + c.meta["rdq"] for x in items):
                        why = "a payload other than the second frame's was reported: %s" % [x[:40] for x in items if x.startswith("M")][:2]
                    elif ("M" + c.meta["rdq"]) not in items:
                        why = "after OutOfMemory the next frame was not delivered: %s" % items[:5]
                    else:
                        why = None
                    if why:
                        bad.append(dict(case=c.line, why="%s build: %s" % (prof, why)))
                        break
                continue
            if "m" not in c.meta:
                continue
            m, N = c.meta["m"], c.meta["N"]
            fl = len(gen.frame(m))
            for prof, o in both(dbg, rel, i):
                why = None
                if c.meta.get("rd"):
                    exp = ("M%s;-" % hx(m)) if len(m) <= N else None
                    if c.meta.get("eh") and exp is not None:
                        exp = "M%s;IOWouldBlock:0" % hx(m)         # an embedded-hal source blocks at the end, it has no end of input
                    if exp is not None and o != exp:
                        why = "payload of %d bytes not delivered through the %d-byte reader buffer: %s" % (len(m), N, o[:200])
                    if exp is None and (not o.startswith("EO") or "M" in o.split(";")[0]):
                        why = "payload of %d bytes in a %d-byte buffer did not yield OutOfMemory first: %s" % (len(m), N, o[:200])
                else:
                    q = c.meta["q"]
                    sh = c.meta.get("shift", 0)
                    evs = [(e[0] - sh, e[1], e[2]) for e in parse_events(o) if e[1] != "N"]
                    first = [e for e in evs if e[0] < fl]
                    if len(m) <= N:
                        exp = [(fl - 1, "M", hx(m)), (fl + len(gen.frame(q)) - 1, "M", hx(q))]
                        if evs != exp:
                            why = "payload of %d bytes in capacity %d: expected exactly the two payloads, got %s" % (len(m), N, evs[:6])
                    else:
                        if not first or first[0][1:] != ("E", "O"):
                            why = "payload of %d bytes in capacity %d: first event is not OutOfMemory: %s" % (len(m), N, evs[:6])
                        elif any(e[1] == "M" and e[0] < fl and unhx(e[2]) != m for e in evs) and False:
                            why = "altered payload"
                        else:
                            # a payload reported inside the first frame must not be a shortened/altered version of m
                            for e in first:
                                if e[1] == "M":
                                    why = "a payload (%s) was reported from a frame that does not fit the buffer" % e[2][:60]
                            # ready for the next frame: when the rest of the frame is clean noise, q is delivered
                            idx = first[0][0]
                            left = gen.frame(m)[idx + 1:]
                            if why is None and (left + gen.START).find(gen.START) == len(left):
                                tail = [e for e in evs if e[0] >= fl]
                                exp = ([(fl + 7, "E", "D%d" % len(left))] if left else []) + [(fl + len(gen.frame(q)) - 1, "M", hx(q))]
                                mid = [e for e in evs if idx < e[0] < fl]
                                if tail != exp or mid:
                                    why = "after OutOfMemory the next frame was not delivered as by a fresh decoder: %s (expected %s)" % (evs[:6], exp)
                if why:
                    bad.append(dict(case=c.line, why="%s build: %s" % (prof, why)))
                    break
        return bad


# ==========================================================================================
# C17 every byte accounted for once
# ==========================================================================================
def tiles(case_line, o):
    """the byte-accounting monitor of DESIGN C17 on a `dec` event sequence; returns None or a complaint"""
    ops = parse_ops(case_line.split(" ", 2)[2])
    evs = {e[0]: e for e in parse_events(o)}
    consumed = 0     # bytes pushed so far
    covered = 0      # bytes accounted for
    for i, op in enumerate(ops):
        e = evs.get(i)
        if op[0] == "x":
            consumed += 1
            if e is None:
                continue
            if e[1] == "E" and e[2][0] == "D":
                n = int(e[2][1:])
                # reported when a start sequence completes: covers up to its first byte
                if covered + n != consumed - 8:
                    return "op %d: DiscardedBytes(%d) but %d bytes lie between the last boundary and the start sequence" % (i, n, consumed - 8 - covered)
                covered = consumed - 8
            elif e[1] == "M":
                covered = consumed
            elif e[1] == "E":          # InvalidMessage / InvalidEsc / OutOfMemory: the frame in flight is rejected
                covered = consumed
        else:
            if e is None:
                return "op %d: no event for %s" % (i, op[0])
            if op[0] == "F":
                n = 0 if e[2] == "-" else int(e[2][2:])
            elif op[0] == "R":
                n = int(e[2])
            else:
                n = consumed - covered      # from_buf: a new decoder, nothing reported
            if covered + n != consumed:
                return "op %d: %s reports %d leftover bytes but %d are unaccounted" % (i, op[0], n, consumed - covered)
            covered = consumed
    return None


class C17(Prop):
    pid = "C17"
    theorems = [("C17_tiles",
                 "forall (cap : cap_t) (ops : list op), Forall op_ok ops -> tiles 0 0 (combine ops (snd (run_ops cap init ops))) = true")]
    level_text = ("Theorem C17_tiles (Coq, closed): for every history of any length the byte-accounting monitor (Spec/Tiling.v) accepts "
                  "the decoder's events: discarded counts, delivered frames (|frame m| bytes) and rejected frames tile the input; counts "
                  "are unbounded naturals. Oracle: the same monitor on the real decoder incl. 2^16+ noise and I/O error counts.")
    suite_names = "S-DEC/S-IO (dec, rd)"
    rule = ("adversarial streams with interleaved finalize/reset, every stream ending in finalize; long noise runs 2^16-2..2^16+2 and "
            "2^17+1; reader runs over io::Read with Other/EOF faults where the counts attached to I/O errors are checked against the "
            "bytes consumed. The monitor: each DiscardedBytes(n) covers exactly the bytes between the previous boundary and the start "
            "sequence that triggered it; finalize/reset/IoErr counts cover exactly the rest. non-trivial = at least one count reported")

    def cases(self, tier, rng):
        n = 2000 if tier == "quick" else 20000
        out = []
        for _ in range(n):
            s, desc = gen.stream(rng, maxpay=30)
            if rng.random() < 0.4:
                s += gen.noise(rng, 10)
            cap = rng.choice(["-", "0", "4", "8", "16", "32", "64", "8192"])
            ops = gen.ops_of_stream(s, rng, 0.3 if rng.random() < 0.4 else 0.0)
            ops = ",".join(x for x in [ops, rng.choice(["F", "R"])] if x)
            out.append(Case("dec %s %s" % (cap, ops), "dec"))
        f = gen.frame(b"\x12\x34\x56\x78")
        for ln in [65534, 65535, 65536, 65537, 65538, 131073]:
            for fill in (0x55, 0x1b, 0x01):
                out.append(Case("dec - x%s,x%s,F" % (hx(bytes([fill]) * ln), hx(f)), "longnoise"))
                out.append(Case("dec - x%s,F" % hx(bytes([fill]) * ln), "longnoise"))
                out.append(Case("dec - x%s,R" % hx(bytes([fill]) * ln), "longnoise"))
        out += io_count_cases(rng, 500 if tier == "quick" else 5000)
        out += long_run_cases(rng)
        return out

    def project(self, case, out):
        if case.line.startswith("dec "):
            r = []
            for (i, k, rest) in parse_events(out):
                if k == "E" and rest[0] in "IX":
                    rest = rest[0]
                r.append("%d:%s%s" % (i, k, rest))
            return ";".join(r)
        return out

    def nontrivial(self, case, out):
        return bool(re.search(r"D\d|R\d|IO", out))

    def oracle(self, cases, dbg, rel, spec):
        bad = []
        for i, c in enumerate(cases):
            for prof, o in both(dbg, rel, i):
                why = None
                if c.line.startswith("dec "):
                    why = tiles(c.line, o)
                elif "iocount" in c.meta:
                    why = io_count_check(c, o)
                elif "longrun" in c.meta:
                    why = long_run_check(c, o)
                if why:
                    bad.append(dict(case=c.line, why="%s build: %s" % (prof, why)))
                    break
        return bad


def io_count_cases(rng, n):
    """reader over io::Read: noise/partial data, then a fault (Other or EOF); the count must equal the bytes since the last report"""
    out = []
    for _ in range(n):
        pieces = []
        expect = []
        for _k in range(rng.randint(1, 4)):
            kind = rng.random()
            if kind < 0.35:
                g = gen.clean_noise(rng, 20)
                g = bytes(b for b in g)
                # noise that never starts a frame: report = its length at the fault
                pieces.append(("x" + hx(g)) if g else "")
                n_unrep = len(g)
            elif kind < 0.7:
                q = bytes(b for b in gen.payload(rng, rng.randint(0, 20)))
                cut = gen.START + gen.esc(q)
                pieces.append("x" + hx(cut))
                n_unrep = len(cut)
            else:
                g = gen.clean_noise(rng, 10)
                q = gen.payload(rng, rng.randint(0, 10))
                cut = gen.START + gen.esc(q)
                pieces.append("x" + hx(g + cut))
                # the noise is reported (DiscardedBytes) when the start sequence completes; the fault reports the cut frame
                n_unrep = (len(g), len(cut)) if g else len(cut)
            fault = rng.choice(["O", "Z"])
            pieces.append(fault)
            expect.append((n_unrep, fault))
        evs = ",".join(p for p in pieces if p)
        meth = rng.choice("rRnN")            # read / read_nb / next / next_nb: the same counts through every entry point
        tgt = rng.choice("bbfp")             # ... and for every target type (the count travels through the error conversions)
        calls = (meth + tgt) * (2 * len(expect) + 2)
        out.append(Case("rd io %s %s %s" % (rng.choice(["-", "64", "8192"]), evs, calls), "io-count-" + meth, dict(iocount=expect, meth=meth)))
    return out


def io_count_check(c, o):
    items = o.split(";")
    exp = []
    for n_unrep, fault in c.meta["iocount"]:
        kind = "Other" if fault == "O" else "Eof"
        if isinstance(n_unrep, tuple):
            exp.append("ED%d" % n_unrep[0])
            exp.append("IO%s:%d" % (kind, n_unrep[1]))
        else:
            exp.append("IO%s:%d" % (kind, n_unrep))
    nothing = "IOEof:0"
    if c.meta.get("meth", "r") in "nN":
        # next / next_nb: end of input with nothing pending is None
        exp = ["-" if x == "IOEof:0" else x for x in exp]
        nothing = "-"
    got = [x for x in items][:len(exp)]
    if got != exp:
        return "counts attached to I/O errors do not tile the input: got %s expected %s" % (got, exp)
    rest = items[len(exp):]
    if any(x != nothing for x in rest):
        return "after the input ended, the reader reported %s" % rest[:4]
    return None


# ==========================================================================================
# C18 ArrayBuf
# ==========================================================================================
class C18(Prop):
    pid = "C18"
    theorems = [("C18_refines",
                 "forall (n : nat) (ops : list aop), ab_run n (ab_default n) ops = bv_run n [] ops /\\ "
                 "Forall (fun r => fst r <> APanic /\\ snd r <> None) (ab_run n (ab_default n) ops)"),
                ("C18_failing_op", None), ("C18_from_iter", None), ("C18_eq", None)]
    level_text = ("Theorems C18_refines, C18_failing_op, C18_from_iter, C18_eq (Coq, closed): the ArrayBuf model (array with stale bytes + "
                  "count, index guards) refines the ideal bounded vector for every capacity and operation sequence. Oracle: real "
                  "ArrayBuf<N> vs an ideal vector, equality/Debug vs the visible slice.")
    suite_names = "S-ABUF (abuf, abfrom, abeq)"
    rule = ("capacities N from the menu (0..40, 255..257, 1024, ...) x operation sequences of up to 40 push/extend_from_slice/truncate/"
            "clear with sizes clustered at N-1, N, N+1; FromIterator with |l| around N; equality/Debug of two histories. The oracle is "
            "an ideal bounded vector evaluated in the check. non-trivial = at least one operation changed the contents")

    def gen_ops(self, rng, N, maxops=40):
        ops = []
        cur = 0
        for _ in range(rng.randint(0, maxops)):
            r = rng.random()
            if r < 0.35:
                ops.append("p%02x" % rng.getrandbits(8))
            elif r < 0.7:
                room = N - cur
                k = max(0, rng.choice([room - 1, room, room + 1, rng.randint(0, 6), 0]))
                k = min(k, 300)
                ops.append("e" + hx(bytes(rng.getrandbits(8) for _ in range(k))))
            elif r < 0.9:
                ops.append("t%d" % max(0, rng.choice([cur - 1, cur, cur + 1, 0, rng.randint(0, N + 2)])))
            else:
                ops.append("c")
            cur = min(N, cur + 1)
        return ",".join(ops)

    def cases(self, tier, rng):
        n = 1500 if tier == "quick" else 20000
        out = []
        menu = [c for c in gen.CAP_MENU if c <= 300] + [1024]
        for _ in range(n):
            N = rng.choice(menu)
            out.append(Case("abuf %d %s" % (N, self.gen_ops(rng, N) or "c"), "abuf", dict(N=N)))
        for _ in range(n // 5):
            N = rng.choice(menu)
            k = max(0, rng.choice([N - 1, N, N + 1, 0, rng.randint(0, N + 3)]))
            out.append(Case("abfrom %d %s" % (N, hx(bytes(rng.getrandbits(8) for _ in range(k)))), "abfrom", dict(N=N, k=k)))
        # capacities beyond 65 535 with the fill level crossing 2^16 (a 16-bit length field would wrap)
        for N, first in ((70000, 40000), (65536, 65530), (70000, 65535)):
            rb = lambda k: hx(bytes(rng.getrandbits(8) for _ in range(max(0, k))))
            ops = ["e" + rb(first), "e" + rb(65534 - first), "p11", "p22", "p33", "e" + rb(20), "t65534", "p01", "p02", "p03",
                   "p04", "e" + rb(N - 65538), "p05", "e0102", "t3", "p06"]
            out.append(Case("abuf %d %s" % (N, ",".join(ops)), "abuf-giant", dict(N=N)))
        for _ in range(n // 5):
            N = rng.choice([c for c in menu if c <= 40] + [64, 100, 128, 200, 256, 300])
            o1 = self.gen_ops(rng, N, 12) or "c"
            o2 = o1 + ",p00,t%d" % rng.randint(0, N) if rng.random() < 0.4 else (self.gen_ops(rng, N, 12) or "c")
            out.append(Case("abeq %d %s %s" % (N, o1, o2), "abeq", dict(N=N)))
        return out

    def nontrivial(self, case, out):
        return bool(re.search(r"k:[0-9a-f]", out)) or out.startswith("ok:") or out.startswith("eq:")

    @staticmethod
    def ideal(N, ops):
        v = bytearray()
        res = []
        for tok in ops.split(","):
            if not tok:
                continue
            a = tok[1:]
            if tok[0] == "p":
                if len(v) < N:
                    v.append(int(a, 16)); res.append("k")
                else:
                    res.append("o")
            elif tok[0] == "e":
                b = unhx(a)
                if len(v) + len(b) <= N:
                    v += b; res.append("k")
                else:
                    res.append("o")
            elif tok[0] == "t":
                del v[int(a):]; res.append("k")
            else:
                v.clear(); res.append("k")
            res[-1] += ":" + hx(v)
        return res, bytes(v)

    def oracle(self, cases, dbg, rel, spec):
        bad = []
        for i, c in enumerate(cases):
            f = c.line.split(" ")
            for prof, o in both(dbg, rel, i):
                why = None
                if f[0] == "abuf":
                    exp = ";".join(self.ideal(int(f[1]), f[2])[0]) or "."
                    if o != exp:
                        why = "ArrayBuf differs from the ideal bounded vector: got %s expected %s" % (o[:200], exp[:200])
                elif f[0] == "abfrom":
                    b = unhx(f[2])
                    exp = "ok:" + hx(b) if len(b) <= int(f[1]) else "P"
                    if o != exp:
                        why = "from_iter: got %s expected %s" % (o[:200], exp[:200])
                elif f[0] == "abeq":
                    a = self.ideal(int(f[1]), f[2])[1]
                    b = self.ideal(int(f[1]), f[3])[1]
                    exp = "eq:%d:%d:1" % (a == b, a == b)
                    if o != exp:
                        why = "equality/Debug do not depend on the visible contents only: got %s expected %s" % (o, exp)
                if why:
                    bad.append(dict(case=c.line, why="%s build: %s" % (prof, why)))
                    break
        return bad



# ==========================================================================================
# parser properties: C03, C04, C06, C09, C12, C13
# ==========================================================================================
import refsml

_REAL = None


def real_payloads():
    """payloads decoded from /repo/tests/libsml-testing/*.bin by an independent python TLV-free frame splitter"""
    global _REAL
    if _REAL is None:
        import glob
        pays = []
        for f in sorted(glob.glob(os.path.join(lib.REPO, "tests", "libsml-testing", "*.bin"))):
            d = open(f, "rb").read()
            i = 0
            while True:
                a = d.find(gen.START, i)
                if a < 0:
                    break
                b = d.find(bytes([0x1b] * 4 + [0x1a]), a + 8)
                if b < 0:
                    break
                pad = d[b + 5] if b + 5 < len(d) else 0
                body = d[a + 8:b]
                if pad <= 3 and len(body) >= pad and bytes([0x1b] * 4) not in body:
                    pays.append(bytes(body[:len(body) - pad]))
                i = b + 8
        seen = set()
        _REAL = [p for p in pays if not (p in seen or seen.add(p))]
    return _REAL


def split_parse_out(o):
    """'complete # items|extras' -> (complete, [items], [extras])"""
    if " # " not in o:
        return o, [], []
    comp, st = o.split(" # ", 1)
    items, _, extras = st.partition("|")
    return comp, ([] if items == "." else items.split(";")), ([] if extras == "." else extras.split(";"))


def coarse_errors(o):
    """the error KIND is not part of a property that only demands 'an error': compare err vs data"""
    return re.sub(r"err:[A-Za-z0-9_:]+", "err", o)


def errors_agree(o):
    """C09: keep whether both parsers report the SAME error kind, not which one"""
    comp, items, extras = split_parse_out(o)
    ce = comp if comp.startswith("err:") else None
    se = [x for x in items if x.startswith("err:")]
    same = "same" if (ce is None and not se) or (ce is not None and se == [ce]) else "DIFFERENT(%s vs %s)" % (ce, se)
    return coarse_errors(o) + " {" + same + "}"


def sml_valid_cases(rng, n):
    out = []
    for _ in range(n):
        d, text, evs, _m = gen.gen_file(rng)
        out.append(Case("parse " + hx(d), "valid", dict(d=d, text=text, evs=evs)))
    return out


def sml_mutant_cases(rng, n):
    out = []
    for _ in range(n):
        d, desc = gen.gen_mutant(rng)
        out.append(Case("parse " + hx(d), "mut:" + desc, dict(d=d)))
    out += list_count_cases(rng)
    return out


def list_count_cases(rng):
    """get-list responses whose announced list length disagrees with the entries present (checksums recomputed):
    (a) shortest possible entries, list response last in the file, announced = present + d  (a parser that bounds its
        loop by the remaining input instead of failing would accept fewer entries than announced);
    (b) announced 2^32-1 / 2^32-2 with no entries, followed directly by the checksum field resp. by the next message
        (a 32-bit state counter num_vals+2 wraps to 'expect checksum' / 'expect message')."""
    out = []
    saved = dict(gen.STYLE)
    try:
        for k in range(0, 5):
            for d in (1, 2, 7, 100, 2 ** 32 - 1 - k):
                for style in ("compact", "random"):
                    if style == "compact":
                        gen.STYLE.update(nonmin=0.0, absent=1000.0, compact=True)
                    else:
                        gen.STYLE.clear(); gen.STYLE.update(saved)
                    m = gen.gen_message(rng, "list", nentries=k)
                    ch = list(m["chunks"])
                    j = len(ch) - 2 - 8 * k - 1          # the list TLF: before the entries (8 chunks each) and the 2 trailing fields
                    ch[j] = gen.tlf_bytes(7, k + d, max(1, ((k + d).bit_length() + 3) // 4))
                    pre = gen.close_message(rng, gen.gen_message(rng, "open")["chunks"]) if rng.random() < 0.5 else b""
                    data = pre + gen.close_message(rng, ch)
                    out.append(Case("parse " + hx(data), "mut:listcount-last", dict(d=data)))
        gen.STYLE.clear(); gen.STYLE.update(saved)
        # the value-list TLF replaced by a primitive TLF spelling the same number (72 -> 03 / 43 / 53 / 63)
        for k in (1, 2, 3):
            for ty in (0, 4, 5, 6):
                m = gen.gen_message(rng, "list", nentries=k)
                ch = list(m["chunks"])
                ch[len(ch) - 2 - 8 * k - 1] = bytes([(ty << 4) | (k + 1)])
                data = gen.close_message(rng, ch)
                out.append(Case("parse " + hx(data), "mut:listtlf-type", dict(d=data)))
        # a boolean value whose TLF has the boolean type bits but another length nibble (41, 43, 4f) followed by one byte
        for nib in (1, 3, 4, 15):
            for bv in (0, 1):
                m = gen.gen_message(rng, "list", nentries=1)
                ch = list(m["chunks"])
                ch[len(ch) - 2 - 8 + 6] = bytes([0x40 | nib, bv])         # the entry's value field
                data = gen.close_message(rng, ch)
                out.append(Case("parse " + hx(data), "mut:bool-length", dict(d=data)))
        # every prefix of a few small valid files, at least one of them with the vendor time encoding (65 xx xx xx xx)
        files = []
        while len(files) < 4:
            data, text, evs, msgs = gen.gen_file(rng, rng.choice([1, 2]))
            has_vendor = any(c[:1] == b"\x65" and len(c) == 5 for m in msgs for c in m["chunks"])
            if len(data) <= 160 and (has_vendor or len(files) >= 2):
                files.append(data)
        for data in files:
            for cut in range(len(data)):
                out.append(Case("parse " + hx(data[:cut]), "mut:every-prefix", dict(d=data[:cut])))
        for huge in ("ff8f8f8f8f8f8f0f", "ff8f8f8f8f8f8f0e"):
            for _ in range(3):
                m = gen.gen_message(rng, "list", nentries=0)
                ch = list(m["chunks"])[:-2]               # drop list signature and gateway time
                ch[-1] = bytes.fromhex(huge)
                nxt = gen.close_message(rng, gen.gen_message(rng, rng.choice(["open", "close"]))["chunks"])
                for data in (gen.close_message(rng, ch), b"".join(ch) + nxt, gen.close_message(rng, ch) + nxt):
                    out.append(Case("parse " + hx(data), "mut:listcount-wrap", dict(d=data)))
    finally:
        gen.STYLE.clear(); gen.STYLE.update(saved)
    return out


def real_cases(rng, mutate=0):
    out = []
    for p in real_payloads():
        out.append(Case("parse " + hx(p), "real", dict(d=p)))
    for _ in range(mutate):
        p = bytearray(rng.choice(real_payloads()))
        r = rng.random()
        if r < 0.5:
            p[rng.randrange(len(p))] ^= 1 << rng.randrange(8)
        elif r < 0.7:
            del p[rng.randrange(len(p)):]
        elif r < 0.85:
            p.insert(rng.randrange(len(p)), rng.getrandbits(8))
        else:
            del p[rng.randrange(len(p))]
        out.append(Case("parse " + hx(p), "real-mut", dict(d=bytes(p))))
    return out


def ref_check(c, o):
    """implementation result vs the independent reference reading; returns complaint or None"""
    comp, items, extras = split_parse_out(o)
    r = refsml.parse_file(c.meta["d"])
    if r[0] == "ok":
        if comp != r[1]:
            return "the allocating parser does not return the content of a well-formed file: got %s expected %s" % (comp[:300], r[1][:300])
        if items != r[2]:
            return "the streaming parser does not yield the content of a well-formed file: got %s expected %s" % (items[:6], r[2][:6])
    else:
        if comp.startswith("ok:"):
            return "input outside the grammar (%s) accepted by the allocating parser: %s" % (r[1], comp[:300])
        if items and not any(x.startswith("err:") for x in items):
            return "input outside the grammar (%s) accepted by the streaming parser: %s" % (r[1], items[:6])
    return None


class ParserProp(Prop):
    suite_names = "S-PARSE (parse)"

    def project(self, case, out):
        # C03 / C04 / C12 demand the exact content or *an* error: which error kind is not constrained
        return coarse_errors(out)


class C03(ParserProp):
    pid = "C03"
    theorems = [("C03_complete", "forall (f : list message) (bs : list N), ok_in bs -> enc_file f bs -> parse bs = FileOk f"),
                ("C03_streaming", "forall (f : list message) (bs : list N) (k : nat), ok_in bs -> enc_file f bs -> "
                 "sp_calls k (sp_new bs) = firstn k (map SEvent (flat_map flatten_msg f) ++ repeat SNone k)"),
                ("C03_unique", "forall (bs : list N) (f1 f2 : list message), ok_in bs -> enc_file f1 bs -> enc_file f2 bs -> f1 = f2"),
                ("C03_inhabited", "forall f : list message, wf_file f -> lenN (encode_file f) < 4294967296 -> "
                 "ok_in (encode_file f) /\\ enc_file f (encode_file f) /\\ parse (encode_file f) = FileOk f")]
    level_text = ("Theorems C03_complete, C03_streaming, C03_unique, C03_inhabited (Coq, closed; C03_inhabited: every well-formed abstract file "
                  "has a canonical encoding in the relation and parses back to itself - the statement is vacuous for no file): for every abstract file f and every byte string bs in the "
                  "grammar relation enc_file f bs (Spec/Grammar.v, written independently of the parsers: all TLF sizes incl. non-minimal, "
                  "every integer byte count of a width class, optional masks, both time encodings, 1/2-byte CRC field), complete::parse "
                  "returns exactly f and the streaming parser exactly f's events then None; the grammar is unambiguous. Proved production "
                  "by production (parser sound and complete for each), lists by induction on the entries. Oracle: generator AST and "
                  "independent Python reference reading vs the real parsers' output.")
    rule = ("random SML files (open/close/get-list responses, 0..40 list entries crossing the 15/16 TLF boundary, all ten value "
            "variants and status widths, every optional field present/absent, both time encodings) x random valid encodings "
            "(integer width within the class, non-minimal multi-byte TLFs, 1- or 2-byte CRC field) + the real meter payloads of "
            "tests/libsml-testing. Expected content comes from the generator's AST and from an independent reference reading. "
            "non-trivial = at least one message")

    def cases(self, tier, rng):
        return sml_valid_cases(rng, 1500 if tier == "quick" else 20000) + real_cases(rng) + self.big_strings(rng)

    @staticmethod
    def big_strings(rng):
        """valid files with byte strings of 65 535 / 65 536 / 70 000 bytes (5-byte TLF): nothing 16-bit may hide in the parsers"""
        out = []
        for n in (65535, 65536, 70000):
            m = gen.gen_message(rng, "close")
            ch = list(m["chunks"])
            big = bytes(rng.getrandbits(8) for _ in range(n))
            ch[-1] = gen.tlf_bytes(0, n + 5, 5) + big
            d = gen.close_message(rng, ch)
            out.append(Case("parse " + hx(d), "valid-big-string", dict(d=d)))
        return out

    def nontrivial(self, case, out):
        return out.startswith("ok:(")

    def oracle(self, cases, dbg, rel, spec):
        bad = []
        for i, c in enumerate(cases):
            for prof, o in both(dbg, rel, i):
                why = None
                if "text" in c.meta:
                    exp = c.meta["text"] + " # " + (";".join(c.meta["evs"]) if c.meta["evs"] else ".") + "|-;-;-"
                    if o != exp:
                        why = "valid encoding not parsed to its content: got %s expected %s" % (o[:300], exp[:300])
                if why is None and "d" in c.meta:
                    why = ref_check(c, o)
                if why:
                    bad.append(dict(case=c.line, why="%s build: %s" % (prof, why)))
                    break
        return bad


class C04(ParserProp):
    pid = "C04"
    theorems = [("C04_sound", "forall (bs : list N) (f : list message), ok_in bs -> parse bs = FileOk f -> enc_file f bs"),
                ("C04_exact", "forall (bs : list N) (f g : list message), ok_in bs -> parse bs = FileOk f -> enc_file g bs -> f = g"),
                ("C04_rejects", "forall bs : list N, ok_in bs -> (forall f, ~ enc_file f bs) -> exists e, parse bs = FileErr e"),
                ("C04_iff", "forall (bs : list N) (f : list message), ok_in bs -> (parse bs = FileOk f <-> enc_file f bs)"),
                ("C04_streaming_sound", "forall (bs : list N) (evs : list event), ok_in bs -> "
                 "sp_calls (S (length evs)) (sp_new bs) = map SEvent evs ++ [SNone] -> "
                 "exists f, enc_file f bs /\\ flat_map flatten_msg f = evs"),
                ("C04_streaming_rejects", None)]
    level_text = ("Theorems C04_sound, _exact, _rejects, _iff, _streaming_sound, _streaming_rejects (Coq, closed): complete::parse returns "
                  "f only if bs is in the grammar relation enc_file f bs (arities, types, byte-swapped CRC-16/X.25 over the bytes before "
                  "the checksum field, 0x00 end marker, nothing left over), f is the unique grammatical content, every byte string "
                  "outside the grammar yields an error from both parsers, and an error-free streaming run that reaches None produced "
                  "exactly a grammatical file's events. Oracle: real parsers accept iff the independent Python reference reading accepts "
                  "(then same content) on CRC-fixed-up corruptions.")
    rule = ("corruptions of valid files: bit flips, field-start byte replacement, truncation, insertion, deletion, duplicated / "
            "swapped fields, list-length nibble edits, TLFs replaced by ones declaring arbitrary lengths - message CRC recomputed in "
            "3/4 of the cases - plus raw flips/truncations/extensions and mutated real payloads. Oracle: the parsers return data iff "
            "the independent reference reading accepts the bytes, and then the same content. non-trivial = the corrupted input "
            "reaches past the first TLF")

    def cases(self, tier, rng):
        return (sml_mutant_cases(rng, 4000 if tier == "quick" else 60000) + sml_valid_cases(rng, 300)
                + real_cases(rng, 500 if tier == "quick" else 5000) + self.corpus_like())

    def corpus_like(self):
        return [Case("parse 7681808080808080800ddd434400620062007263020171016390ae00", "d3-witness",
                     dict(d=bytes.fromhex("7681808080808080800ddd434400620062007263020171016390ae00")))]

    def nontrivial(self, case, out):
        return not out.startswith("err:Mismatch # err:Mismatch")

    def oracle(self, cases, dbg, rel, spec):
        bad = []
        for i, c in enumerate(cases):
            for prof, o in both(dbg, rel, i):
                why = ref_check(c, o) if "d" in c.meta else None
                if why:
                    bad.append(dict(case=c.line, why="%s build: %s" % (prof, why)))
                    break
        return bad


# memory bound for the allocating parser: bytes requested <= ALLOC_K * |input| + ALLOC_C
# (size_of::<ListEntry>() = 88, size_of::<Message>() = 128 on this target; Vec growth doubles)
ALLOC_K = 88 + 2 * 88 + 4 * 128
ALLOC_C = 4 * 128 + 4 * 88 + 64


class C06(ParserProp):
    pid = "C06"
    theorems = [("C06_total",
                 "forall bs : list N, ok_in bs -> parse bs <> FilePanic /\\ forall k : nat, well_ended (sp_calls k (sp_new bs)) = true"),
                ("C06_reservation", "forall (t : tlf) (input : list N), list_reservation t input <= lenN input")]
    level_text = ("Theorems C06_total, C06_reservation (Coq, closed): on every byte string shorter than 2^32 neither parser reaches a panic "
                  "site (indexing, checked arithmetic, u32/u64 counters, fuel) and the streaming iteration ends; the list pre-allocation is "
                  "bounded by the remaining input. Heap usage of the real allocator (<= K*|x|+c, zero for the streaming parser) is MEASURED "
                  "with a counting allocator, and the no-alloc build of the crate is checked - these two are not theorems.")
    level_note = Prop.level_note + "; the real allocator, Vec growth policy and stack depth are outside the model: measured, not proved"
    suite_names = "S-PARSE (parse, palloc)"
    rule = ("valid files, corruptions with recomputed CRC, and valid messages in which any TLF is replaced by one declaring an "
            "arbitrary length up to and beyond 2^32-1; both parsers in debug and release; the real allocator is instrumented: total "
            "bytes requested by complete::parse <= %d*|x|+%d and zero requests while iterating streaming::Parser; additionally "
            "`cargo build --no-default-features` of /repo (streaming parser compiles without alloc). non-trivial = input longer than "
            "8 bytes" % (ALLOC_K, ALLOC_C))

    def cases(self, tier, rng):
        out = []
        n = 1500 if tier == "quick" else 20000
        base = sml_mutant_cases(rng, n) + sml_valid_cases(rng, n // 3) + real_cases(rng, 200)
        # every TLF position of a few valid messages replaced by every huge TLF
        for _ in range(12 if tier == "quick" else 150):
            m = gen.gen_message(rng, "list", nentries=rng.randint(0, 3))
            for i in range(len(m["chunks"])):
                for t in gen.HUGE_TLFS[:18] if tier == "quick" else gen.HUGE_TLFS:
                    ch = list(m["chunks"])
                    b = ch[i]
                    j = 0
                    while j < len(b) and b[j] & 0x80:
                        j += 1
                    ch[i] = t + b[j + 1:]
                    d = gen.close_message(rng, ch)
                    base.append(Case("parse " + hx(d), "declared-length", dict(d=d)))
        # every single-byte TLF at every field position (zero-length integers, wrong types, reserved bits, ...)
        for _ in range(3 if tier == "quick" else 30):
            m = gen.gen_message(rng, "list", nentries=rng.randint(1, 2))
            for i in range(len(m["chunks"])):
                for t in range(256):
                    ch = list(m["chunks"])
                    b = ch[i]
                    j = 0
                    while j < len(b) and b[j] & 0x80:
                        j += 1
                    ch[i] = bytes([t]) + b[j + 1:]
                    d = gen.close_message(rng, ch)
                    base.append(Case("parse " + hx(d), "one-byte-tlf", dict(d=d)))
        for c in base:
            out.append(c)
            if c.tag == "one-byte-tlf" and rng.random() < 0.9:
                continue
            out.append(Case("palloc " + c.line.split(" ", 1)[1], "alloc:" + c.tag.split(":")[0], dict(d=c.meta["d"], alloc=True)))
        out.append(Case("parse 7607000b06a5d3c562006200726307017701010101ff8f8f8f8f8f8f0f", "d5d6-witness", dict(d=b"")))
        out.append(Case("palloc 7607000b06a5d3c562006200726307017701010101ff8f8f8f8f8f8f0f", "d5d6-witness", dict(d=bytes(31), alloc=True)))
        return out

    def project(self, case, out):
        if case.line.startswith("palloc"):
            return ""
        # totality: a value or an error, never a panic; the iteration ends (what is returned is C03/C04/C09's business)
        comp, items, extras = split_parse_out(out)
        return "panic" if has_panic(out) else "returns/%s" % ";".join(extras)

    def nontrivial(self, case, out):
        return len(case.meta.get("d", b"")) > 8

    def oracle(self, cases, dbg, rel, spec):
        bad = []
        # static part: the streaming parser builds without the alloc crate
        rc, out = lib.sh(["timeout", "600", "cargo", "build", "--offline", "--no-default-features", "--lib"], cwd=lib.REPO,
                         env=dict(lib.ENV, CARGO_TARGET_DIR=os.path.join(lib.BUILD, "target-nodefault")))
        self.nodefault_build_ok = (rc == 0)
        if rc != 0:
            bad.append(dict(case="cargo build --no-default-features --lib", why="the crate no longer builds without the alloc feature (streaming parser must not allocate): " + out[-600:]))
        for i, c in enumerate(cases):
            for prof, o in both(dbg, rel, i):
                why = None
                if has_panic(o):
                    why = "a parser panicked / aborted: %s" % o[:200]
                elif c.meta.get("alloc"):
                    m = re.match(r"complete=(\w+):bytes=(\d+):calls=(\d+);streaming=(\w+):bytes=(\d+):calls=(\d+)", o)
                    if o.startswith("collect-requested"):
                        why = "collecting streaming::Parser reserved heap by a declared length, not by what it can yield: " + o[:100]
                    elif not m:
                        why = "unexpected output " + o[:100]
                    else:
                        n = len(unhx(c.line.split(" ")[1]))
                        if int(m.group(2)) > ALLOC_K * n + ALLOC_C:
                            why = "complete::parse requested %s bytes of heap for a %d-byte input (bound %d)" % (m.group(2), n, ALLOC_K * n + ALLOC_C)
                        elif int(m.group(6)) != 0:
                            why = "the streaming parser allocated (%s requests)" % m.group(6)
                else:
                    comp, items, extras = split_parse_out(o)
                    n = len(unhx(c.line.split(" ")[1]))
                    if len(items) > n + 1:
                        why = "streaming iteration longer than the input"
                if why:
                    bad.append(dict(case=c.line, why="%s build: %s" % (prof, why)))
                    break
        return bad


def reassemble(items):
    """streaming events (canonical strings) -> complete-parser text; None if the event sequence is ill-formed"""
    msgs = []
    i = 0
    while i < len(items):
        it = items[i]
        if not it.startswith("(MS "):
            return None
        m = re.match(r"^\(MS (\S+) (\S+) (\S+) \(GS (\S+) (\S+) (\S+) (\S+) ([0-9a-f]+)\)\)$", it)
        if m:
            n = int(m.group(8), 16)
            es = items[i + 1:i + 1 + n]
            if len(es) != n or any(not e.startswith("(E ") for e in es):
                return None
            if i + 1 + n >= len(items):
                return None
            ge = re.match(r"^\(GE (\S+) (\S+)\)$", items[i + 1 + n])
            if not ge:
                return None
            msgs.append("(M %s %s %s (G %s %s %s %s [%s] %s %s))" % (m.group(1), m.group(2), m.group(3), m.group(4), m.group(5),
                                                                      m.group(6), m.group(7), " ".join(es), ge.group(1), ge.group(2)))
            i += n + 2
        else:
            msgs.append("(M " + it[4:])
            i += 1
    return "ok:" + (" ".join(msgs) if msgs else ".")


class C09(ParserProp):
    pid = "C09"
    theorems = [("C09_agree",
                 "forall (bs : list N) (k : nat), ok_in bs -> match parse bs with "
                 "| FileOk f => sp_calls k (sp_new bs) = firstn k (map SEvent (flat_map flatten_msg f) ++ repeat SNone k) "
                 "| FileErr e => exists evs, sp_calls k (sp_new bs) = firstn k (map SEvent evs ++ [SErr e] ++ repeat SNone k) "
                 "| FilePanic => False end"),
                ("C09_lists", None)]
    level_text = ("Theorems C09_agree, C09_lists (Coq, closed): for every input and every number of next() calls, the streaming parser's "
                  "results are exactly the flattened events of the file the allocating parser returns (then None forever), or - when the "
                  "allocating parser fails with e - some events followed by exactly the error e; announced list lengths equal the number "
                  "of value events. Proved by relating both parsers to one message-by-message reading (state machine vs recursive "
                  "descent). Oracle: real events reassembled vs real complete::parse, same error kind, on corrupted inputs.")
    rule = ("valid files, corruptions / truncations / length manipulations with and without recomputed CRC, real payloads and their "
            "mutations; the streaming events up to the first error are reassembled (Rust vs Rust) and compared with the allocating "
            "parser's file; error iff error, same kind; n announced values -> exactly n value events and one end event. "
            "non-trivial = at least one streaming event")

    def project(self, case, out):
        return errors_agree(out)

    def cases(self, tier, rng):
        n = 3000 if tier == "quick" else 50000
        out = sml_mutant_cases(rng, n) + sml_valid_cases(rng, n // 3) + real_cases(rng, 500 if tier == "quick" else 5000)
        out.append(Case("parse 7607000b06a5d3c562006200726307017701010101ff8f8f8f8f8f8f0f", "d5-witness"))
        out.append(Case("parse 7607000b06a5d3c562006200726307017701010101ff8f8f8f8f8f8f0e", "d5-witness"))
        return out

    def nontrivial(self, case, out):
        return " # (" in out

    def oracle(self, cases, dbg, rel, spec):
        bad = []
        for i, c in enumerate(cases):
            for prof, o in both(dbg, rel, i):
                comp, items, extras = split_parse_out(o)
                why = None
                errs = [x for x in items if x.startswith("err:")]
                if comp.startswith("ok:"):
                    if errs:
                        why = "allocating parser Ok but streaming parser reports %s" % errs[0]
                    elif reassemble(items) != comp:
                        why = "reassembled streaming events differ from the allocating parser's file: %s vs %s" % (str(reassemble(items))[:200], comp[:200])
                elif comp.startswith("err:"):
                    if len(errs) != 1 or items[-1] != errs[0]:
                        why = "allocating parser reports %s but the streaming parser yields %s" % (comp, items[-3:])
                    elif errs[0] != comp:
                        why = "error kinds differ: allocating %s, streaming %s" % (comp, errs[0])
                else:
                    why = "unexpected output " + comp[:80]
                if why:
                    bad.append(dict(case=c.line, why="%s build: %s" % (prof, why)))
                    break
        return bad


def tlf_probe_list(t):
    """a get-list response whose val_list TLF is t: the streaming MessageStart shows num_vals"""
    ch = [b"\x76", b"\x03\xaa\xbb", b"\x62\x00", b"\x62\x00", b"\x72", b"\x63\x07\x01", b"\x77", b"\x01", b"\x02\x55", b"\x01", b"\x01", t]
    return b"".join(ch)


def tlf_probe_value(t, data):
    """a get-list response with one entry whose value field starts with TLF t followed by data"""
    pre = tlf_probe_list(b"\x71") + b"\x77" + b"\x02\x11" + b"\x01\x01\x01\x01" + t + data + b"\x01" + b"\x01\x01"
    c = gen.crc16(pre)
    return pre + bytes([0x63, c & 0xFF, c >> 8, 0x00])


class C12(ParserProp):
    pid = "C12"
    theorems = [("C12_tlf",
                 "forall input : list N, bytes_ok input -> lenN input < 4294967296 -> match tlf_parse input with "
                 "| POk rest t => tlf_ref input = Some (tty t, tlen t, rest) | PErr _ => tlf_ref input = None | PPanic => False end"),
                ("C12_int",
                 "forall data rest : list N, 1 <= lenN data <= 8 -> bytes_ok data -> "
                 "value_with_tlf (data ++ rest) (mktlf TInt (lenN data)) = POk rest (int_variant (lenN data) (twos data)) /\\ "
                 "value_with_tlf (data ++ rest) (mktlf TUns (lenN data)) = POk rest (uns_variant (lenN data) (be data)) /\\ "
                 "status_with_tlf (data ++ rest) (mktlf TUns (lenN data)) = POk rest (status_variant (lenN data) (be data))"),
                ("C12_int_rejects", None), ("C12_bool_octet", None)]
    level_text = ("Theorems C12_tlf, C12_int, C12_int_rejects, C12_bool_octet (Coq, closed): TypeLengthField::parse succeeds exactly when "
                  "the independent reading tlf_ref (unbounded integers, any number of TLF bytes) does, with the same type, length and rest, "
                  "and errs otherwise; 1..8-byte integers get exactly their two's-complement / plain value in the width class of their "
                  "encoded size; booleans and byte strings are exact. Oracle: all 1-/2-byte TLFs (thorough: all 2^24 3-byte ones), "
                  "boundary values around 2^32, every leading byte x width x signedness, vs an independent reference.")
    rule = ("TLF byte sequences of 1..12 bytes placed (a) as the list TLF of a get-list response (the streaming parser exposes the "
            "full 32-bit count) and (b) as the TLF of a value field followed by enough data: quick = all 1- and 2-byte TLFs and "
            "random/structured longer ones (values around 2^32, leading zero nibbles, reserved type bits), thorough = all 2^24 "
            "sequences of up to 3 bytes; integers of width 1..8 with every leading byte x sampled tails, signed and unsigned, in "
            "Value and Status position; all boolean bytes. Oracle: independent reference reading on unbounded integers. "
            "non-trivial = the probe reaches the TLF under test")

    def cases(self, tier, rng):
        out = []
        tl = [bytes([a]) for a in range(256)] + [bytes([a, b]) for a in range(128, 256) for b in range(256)]
        if tier == "thorough":
            tl += [bytes([a, b, c]) for a in range(128, 256) for b in range(128, 256) for c in range(256)]
        else:
            for _ in range(3000):
                k = rng.randint(3, 12)
                first = 0x80 | (rng.choice([0, 4, 5, 6, 7, 1, 2, 3]) << 4) | rng.randrange(16)
                mid = [0x80 | (rng.choice([0] * 12 + [1, 7]) << 4) | rng.choice([0, 0, 0, 15, 1, rng.randrange(16)]) for _ in range(k - 2)]
                last = (rng.choice([0] * 12 + [1]) << 4) | rng.randrange(16)
                tl.append(bytes([first] + mid + [last]))
            for V in [2 ** 32 - 1, 2 ** 32, 2 ** 32 + 1, 2 ** 32 + 13, 2 ** 31, 2 ** 28, 2 ** 36, 2 ** 32 - 16, 0, 15, 16, 17, 255, 256]:
                for ty in (0, 5, 6, 7):
                    for k in range(max(1, (V.bit_length() + 3) // 4), 13):
                        tl.append(gen.tlf_bytes(ty, V, k))
        # multi-byte (non-minimal) TLFs of every type with a small value, incl. the reserved multi-byte boolean
        forced = set()
        # zero-padded TLFs far longer than any counter of the TLF loop expects (a 32-bit value in 9..300 bytes)
        for ty in (0, 6, 7):
            for k in (9, 12, 17, 33, 255, 256, 257, 300):
                for ln in (0, 2, 6):
                    tl.append(gen.tlf_bytes(ty, ln + k if ty != 7 else ln, k))
                    forced.add(tl[-1])
        for ty in (0, 4, 5, 6, 7, 1, 2, 3):
            for k in (2, 3, 4):
                for ln in (0, 1, 2, 4, 8):
                    tl.append(gen.tlf_bytes(ty, ln + k if ty != 7 else ln, k))
                    forced.add(tl[-1])
        for t in tl:
            d = tlf_probe_list(t)
            out.append(Case("parse " + hx(d), "tlf-list", dict(d=d)))
            if len(t) <= 2 or t in forced or rng.random() < 0.2:
                # data of exactly the length the nibbles spell (whatever the type bits / reserved bits say), or a random length
                V = 0
                for x in t:
                    V = V * 16 + (x & 0xF)
                fit = V - len(t)
                lens = [0, 1, 2, 4, 8, 16, 20]
                if 0 <= fit <= 64:
                    lens = [fit] * 10 + lens
                elif fit < 0:
                    lens = [0] * 6 + lens          # "negative" length: a parser that saturates would read an empty value
                d = tlf_probe_value(t, bytes(rng.getrandbits(8) for _ in range(rng.choice(lens))))
                out.append(Case("parse " + hx(d), "tlf-value", dict(d=d)))
                if (t[0] >> 4) & 7 == 4:
                    # boolean type bits with any length nibble: one data byte, so that a parser that only looks at the type stays in step
                    d = tlf_probe_value(t, bytes([rng.choice([0, 1, 0xff])]))
                    out.append(Case("parse " + hx(d), "tlf-value", dict(d=d)))
                if fit < 0 or (0 <= fit <= 4 and len(t) >= 2):
                    # always also: no data at all / exactly the spelled amount
                    d = tlf_probe_value(t, bytes(rng.getrandbits(8) for _ in range(max(0, fit))))
                    out.append(Case("parse " + hx(d), "tlf-value", dict(d=d)))
        # integers: width x signedness x leading byte x tails
        for ty in (5, 6):
            for k in range(1, 10):
                for lead in range(256) if (tier == "thorough" or k <= 2) else list(range(0, 256, 7)) + [0x7f, 0x80, 0xff]:
                    tail = bytes(rng.choice([0, 0xff, 0x80, 0x7f, rng.getrandbits(8)]) for _ in range(k - 1))
                    d = tlf_probe_value(gen.tlf_bytes(ty, k + 1, 1) if k < 15 else b"", bytes([lead]) + tail)
                    out.append(Case("parse " + hx(d), "int", dict(d=d)))
        for b in range(256):
            d = tlf_probe_value(b"\x42", bytes([b]))
            out.append(Case("parse " + hx(d), "bool", dict(d=d)))
        # a time position holding a bare unsigned of 1-3 data bytes followed by filler: the declared length counts
        for k in (1, 2, 3):
            for _ in range(3):
                m = gen.gen_message(rng, "list", nentries=1)
                ch = list(m["chunks"])
                ch[len(ch) - 2 - 8 + 3] = bytes([0x61 + k]) + bytes(rng.getrandbits(8) for _ in range(4))     # val_time
                d = gen.close_message(rng, ch)
                out.append(Case("parse " + hx(d), "time-short-unsigned", dict(d=d)))
        # byte strings at the 16-bit boundary
        for n in (65535, 65536):
            data = bytes(rng.getrandbits(8) for _ in range(n))
            d = tlf_probe_value(gen.tlf_bytes(0, n + 5, 5), data)
            out.append(Case("parse " + hx(d), "octet", dict(d=d)))
        for _ in range(300):
            n = rng.choice([0, 1, 14, 15, 16, 17, 30, 255, 256, 300])
            data = bytes(rng.getrandbits(8) for _ in range(n))
            d = tlf_probe_value(gen.prim_tlf(rng, 0, n, nonmin=0.3), data + bytes(rng.randint(0, 3)))
            out.append(Case("parse " + hx(d), "octet", dict(d=d)))
        return out

    def nontrivial(self, case, out):
        return True

    def oracle(self, cases, dbg, rel, spec):
        bad = []
        for i, c in enumerate(cases):
            for prof, o in both(dbg, rel, i):
                why = None
                comp, items, extras = split_parse_out(o)
                if c.tag == "tlf-list":
                    # reference: the TLF alone
                    d = c.meta["d"]
                    pos = len(tlf_probe_list(b""))
                    try:
                        ty, ln, j = refsml.read_tlf(d, pos)
                        ok = (ty == 7)
                    except refsml.Bad:
                        ok = False
                    got = re.search(r"\(GS \S+ \S+ \S+ \S+ ([0-9a-f]+)\)\)$", items[0]) if items else None
                    if ok and (not got or int(got.group(1), 16) != ln):
                        why = "list TLF %s: prescribed count %d, parser used %s" % (hx(d[pos:]), ln, items[:1])
                    if not ok and got:
                        why = "ill-formed / non-list TLF %s accepted as a list of %s" % (hx(d[pos:]), got.group(1))
                else:
                    why = ref_check(c, o)
                if why:
                    bad.append(dict(case=c.line, why="%s build: %s" % (prof, why)))
                    break
        return bad


class C13(ParserProp):
    pid = "C13"
    theorems = [("C13_term",
                 "forall (bs : list N) (k : nat), ok_in bs -> well_ended (sp_calls k (sp_new bs)) = true /\\ "
                 "(n_items (sp_calls k (sp_new bs)) <= length bs + 1)%nat")]
    level_text = ("Theorem C13_term (Coq, closed): for every input and every number of next() calls the results are events, at most one "
                  "error, then None forever, with at most |bs|+1 items (each event consumes >= 1 byte; error and None are terminal). "
                  "Oracle: the real iterator on corrupted files, |x|+2 calls plus 3 more.")
    rule = ("valid files, corruptions (bad checksum in the middle of a multi-message file, truncated or corrupt lists), real payloads; "
            "next() is called until None (at most |x|+2 times) and then 3 more times. Oracle: at most |x|+1 items, at most one error "
            "and only as the last item, every later call None. non-trivial = at least one item")

    def cases(self, tier, rng):
        n = 3000 if tier == "quick" else 50000
        out = sml_mutant_cases(rng, n) + sml_valid_cases(rng, n // 3) + real_cases(rng, 300)
        out.append(Case("parse 760501188e6162006200726302017101634d8700", "d4-witness"))
        return out

    def project(self, case, out):
        comp, items, extras = split_parse_out(out)
        return "%d/%s/%s" % (len(items), ";".join("%d:%s" % (k, "err" if x != "P" else "P") for k, x in enumerate(items)
                                                    if x.startswith("err:") or x == "P"), ";".join(extras))

    def nontrivial(self, case, out):
        return " # .|" not in out

    def oracle(self, cases, dbg, rel, spec):
        bad = []
        for i, c in enumerate(cases):
            n = len(unhx(c.line.split(" ")[1]))
            for prof, o in both(dbg, rel, i):
                comp, items, extras = split_parse_out(o)
                why = None
                errs = [k for k, x in enumerate(items) if x.startswith("err:")]
                if len(items) > n + 1:
                    why = "%d items from %d input bytes" % (len(items), n)
                elif len(errs) > 1 or (errs and errs[0] != len(items) - 1):
                    why = "the iteration continues after an error: %s" % items[-4:]
                elif extras != ["-", "-", "-"]:
                    why = "next() after the end of the iteration yields %s" % extras
                if why:
                    bad.append(dict(case=c.line, why="%s build: %s" % (prof, why)))
                    break
        return bad


# ==========================================================================================
# C10 end to end, C11 I/O faults
# ==========================================================================================
def split_top(o):
    """split on ';' outside of {...}"""
    out, depth, cur = [], 0, []
    for ch in o:
        if ch == "{":
            depth += 1
        elif ch == "}":
            depth -= 1
        if ch == ";" and depth == 0:
            out.append("".join(cur))
            cur = []
        else:
            cur.append(ch)
    out.append("".join(cur))
    return out


class C10(Prop):
    pid = "C10"
    theorems = [("C10_stream",
                 "forall (cap : cap_t) (segs : list (list N * list N)) (tail : list N) (d : dec), norm d = norm init -> "
                 "segs_ok cap segs -> quiet_tail tail -> "
                 "results (snd (run cap d (stream_of segs tail))) = flat_map (fun gm => seg_results (fst gm) (snd gm)) segs /\\ "
                 "fin (fst (run cap d (stream_of segs tail))) = if 0 <? lenN tail then [RErr (DiscardedBytes (lenN tail))] else []"),
                ("C10_reader",
                 "forall (cap : cap_t) (kind : skind) (segs : list (list N * list N)) (tail : list N), kind <> KEh -> "
                 "segs_ok cap segs -> quiet_tail tail -> "
                 "snd (rd_all cap (length (stream_of segs tail) + 2) (rd_new kind (map SByte (stream_of segs tail)))) = "
                 "map to_rd (flat_map (fun gm => seg_results (fst gm) (snd gm)) segs) ++ "
                 "(if 0 <? lenN tail then [RdIoErr EkEof (lenN tail)] else [])"),
                ("C10_compose", None),
                ("C10_files",
                 "forall (cap : cap_t) (kind : skind) (t : target) (segs : list (list N * list N)) (tail : list N) "
                 "(Fs : list (list message)), kind <> KEh -> segs_ok cap segs -> quiet_tail tail -> "
                 "Forall2 (fun F gm => ok_in (snd gm) /\\ enc_file F (snd gm)) Fs segs -> "
                 "map (parse_from t) (snd (rd_all cap (length (stream_of segs tail) + 2) (rd_new kind (map SByte (stream_of segs tail))))) = "
                 "flat_map (fun Fg : list message * (list N * list N) => "
                 "(if 0 <? lenN (fst (snd Fg)) then [IDecErr (DiscardedBytes (lenN (fst (snd Fg))))] else []) ++ "
                 "[match t with TBytes => IBytes (snd (snd Fg)) | TFile => IFile (fst Fg) "
                 "| TParser => IEvents (firstn (length (snd (snd Fg)) + 2) (map SEvent (flat_map flatten_msg (fst Fg)) ++ "
                 "repeat SNone (length (snd (snd Fg)) + 2))) end]) (combine Fs segs) ++ "
                 "(if 0 <? lenN tail then [IIoErr EkEof (lenN tail)] else [])")]
    level_text = ("Theorems C10_stream, C10_reader, C10_compose, C10_files (Coq, closed; C10_files composes the transport result with C03: "
                  "payloads that encode files F_i are returned as exactly F_i for every target type): for any sequence of framed payloads separated by noise "
                  "(start sequence only at the end of each noise) and trailing noise, decoder and readers over slice/iterator/io::Read "
                  "report exactly DiscardedBytes(|g_i|), b_i, ..., then IoErr(Eof,|tail|), then None; SmlReader's result for every call "
                  "kind and target is parse_from of the DecoderReader result (bytes / complete::parse / streaming::Parser). Content "
                  "preservation by the parsers is C03/C09. Oracle: real SmlReader on generated multi-file transmissions vs the generator's files.")
    suite_names = "S-FRONT (rd)"
    rule = ("sequences of 0..3 SML files, each framed, separated by noise strings that contain the start sequence only at their end, "
            "optionally trailing noise; sources slice / iterator / io::Read; buffers default 8 KiB, ArrayBuf<N> (N >= payload), Vec; "
            "every per-call choice of read/next and of DecodedBytes/File/Parser. Expected results are computed from the generator's "
            "files. non-trivial = at least one file in the transmission")

    def cases(self, tier, rng):
        n = 1000 if tier == "quick" else 12000
        out = []
        for _ in range(n):
            s, parts = transmission(rng, sml=True, bad=0.0)
            tailn = gen.clean_noise(rng, 6) if rng.random() < 0.3 else b""
            # trailing noise must not look like the beginning of a frame for the expectation below
            s2 = s + tailn
            kind = rng.choice(["slice", "iter", "io"])
            maxp = max([len(p[2]) for p in parts] + [0])
            caps = ["-", "default"] + [str(c) for c in [16, 32, 64, 256, 1024, 8192] if c >= maxp]
            cap = rng.choice(caps)
            nitems = sum(1 + (1 if p[1] else 0) for p in parts) + 2
            calls = "".join(rng.choice("rn") + rng.choice("bfp") for _ in range(nitems + rng.randint(0, 3)))
            evs = ("x" + hx(s2)) if s2 else "x."
            if kind == "io" and s2 and rng.random() < 0.5:
                # an io::Read may report Interrupted at any time; read_exact retries it
                toks, i = [], 0
                while i < len(s2):
                    j = min(len(s2), i + rng.randint(1, 40))
                    if rng.random() < 0.5:
                        toks.append("I")
                    toks.append("x" + hx(s2[i:j]))
                    i = j
                if rng.random() < 0.5:
                    toks.append("I")
                evs = ",".join(toks)
            out.append(Case("rd %s %s %s %s" % (kind, cap, evs, calls), "e2e-" + kind,
                            dict(parts=parts, tail=tailn, calls=calls)))
        out += iter_pause_cases(rng, n // 12)
        return out

    def nontrivial(self, case, out):
        return any(p[0] == "frame" and p[3] for p in case.meta.get("parts", []))

    def expected(self, c):
        stream = []
        for (k, g, d, text, evs) in c.meta["parts"]:
            if g:
                stream.append(("err", "ED%d" % len(g)))
            stream.append(("data", d, text, evs))
        if c.meta["tail"]:
            stream.append(("err", "IOEof:%d" % len(c.meta["tail"])))
        calls = c.meta["calls"]
        out = []
        for i in range(len(calls) // 2):
            m, t = calls[2 * i], calls[2 * i + 1]
            if i < len(stream):
                it = stream[i]
                if it[0] == "err":
                    out.append(it[1])
                else:
                    d, text, evs = it[1], it[2], it[3]
                    if t == "b":
                        out.append("M" + hx(d))
                    elif text is None:
                        out.append(None)         # raw payload: whatever the parser says (checked by C09/C04)
                    elif t == "f":
                        out.append("F{%s}" % text)
                    else:
                        out.append("V{%s}" % (";".join(evs) if evs else "."))
            else:
                out.append("-" if m == "n" else "IOEof:0")
        return out

    def oracle(self, cases, dbg, rel, spec):
        bad = []
        for i, c in enumerate(cases):
            if "pause_frames" in c.meta:
                # an iterator that pauses (returns None once) and resumes: every transmission not cut by a pause
                # must still be yielded, in order
                toks = c.meta["toks"]
                want = []
                k = 0
                for p in c.meta["pause_frames"]:
                    # the frame's tokens: [Z] x<f> | x<a> Z x<b> | x<f>
                    if toks[k] == "Z":
                        want.append("M" + p); k += 2
                    elif k + 1 < len(toks) and toks[k + 1] == "Z" and k + 2 < len(toks) and toks[k + 2].startswith("x") and \
                            unhx(toks[k][1:]) + unhx(toks[k + 2][1:]) == gen.frame(unhx(p)):
                        k += 3            # pause inside the frame: that frame is lost
                    else:
                        want.append("M" + p); k += 1
                for prof, o in both(dbg, rel, i):
                    got = [x for x in (split_top(o) if o != "." else []) if x.startswith("M")]
                    if got != want:
                        bad.append(dict(case=c.line, why="%s build: iterator source pausing between transmissions: payloads yielded %s expected %s"
                                        % (prof, got[:4], want[:4])))
                        break
                continue
            if "parts" not in c.meta:
                continue
            exp = self.expected(c)
            for prof, o in both(dbg, rel, i):
                got = split_top(o) if o != "." else []
                ok = len(got) == len(exp) and all(e is None or e == g for e, g in zip(exp, got))
                if not ok:
                    k = next((j for j, (e, g) in enumerate(zip(exp, got)) if e is not None and e != g), min(len(exp), len(got)))
                    bad.append(dict(case=c.line, why="%s build: call %d: got %s expected %s" % (prof, k, got[k:k + 1], exp[k:k + 1])))
                    break
        return bad


class C11(Prop):
    pid = "C11"
    theorems = [("C11_wouldblock",
                 "forall (cap : cap_t) (evs : list sev) (d : dec) (lim1 lim2 : nat), (length evs + 1 < lim1)%nat -> "
                 "(length (strip evs) + 1 < lim2)%nat -> "
                 "drop_wb (snd (rd_all cap lim1 (mkrd d KIo evs))) = snd (rd_all cap lim2 (mkrd d KIo (strip evs)))"),
                ("C11_wouldblock_once", None), ("C11_wouldblock_untouched", None),
                ("C11_other",
                 "forall (cap : cap_t) (k : skind) (d : dec) (evs : list sev) (lim : nat), "
                 "snd (rd_all cap (S lim) (mkrd d k (SOther :: evs))) = RdIoErr EkOther (reset_cnt d) :: snd (rd_all cap lim (rd_new k evs))"),
                ("C11_eof", None),
                ("C11_pause", "forall (cap : cap_t) (d : dec) (evs : list sev), "
                 "dr_read cap (mkrd d KIo (SZero :: evs)) = (mkrd (fst (reset d)) KIo evs, RdIoErr EkEof (reset_cnt d))")]
    level_text = ("Theorems C11_wouldblock, _once, _untouched, C11_other, C11_eof (Coq, closed): for every event schedule of an io::Read "
                  "source, dropping the would-block results gives exactly the run with all WouldBlock/Interrupted events removed; each "
                  "would-block surfaces once and leaves decoder and source untouched; another error returns the not-yet-reported count and "
                  "the rest equals a fresh reader's run; at end of input None iff nothing pending, then None forever. std's read_exact "
                  "(retry on Interrupted, Ok(0) = UnexpectedEof) is modelled. Oracle: real readers over fault-injecting io::Read / embedded-hal sources.")
    level_note = Prop.level_note + "; std::io::Read::read_exact semantics (retry Interrupted, Ok(0) => UnexpectedEof) modelled as documented"
    suite_names = "S-IO (rd)"
    rule = ("byte streams (frames, corrupted frames, noise) x fault vectors: WouldBlock / Interrupted at arbitrary inter-byte "
            "positions (any finite number in a row), one Other error at an arbitrary position, end of input at any cut; io::Read and "
            "embedded-hal sources. Oracle (Rust vs Rust): results with the would-block items removed equal the fault-free run and "
            "each would-block surfaces once with zero discarded bytes; after an Other error the reader continues like a fresh reader "
            "on the remaining stream and the attached count equals the bytes since the last report; next() returns None at end of "
            "input iff nothing is pending, and again on further calls. non-trivial = at least one fault injected")

    def cases(self, tier, rng):
        n = 900 if tier == "quick" else 10000
        out = []
        g = 0
        for _ in range(n):
            s, parts = transmission(rng, sml=False, maxpay=24, bad=0.3)
            if rng.random() < 0.3:
                s = s[:rng.randint(0, len(s))]
            kind = rng.choice(["io", "io", "eh"])
            cap = rng.choice(["-", "64", "8192", "default"])
            base_calls = len(s) // 8 + 6
            fam = rng.random()
            g += 1
            if fam < 0.6:
                # transparent faults only
                toks = []
                i = 0
                nw = 0
                menu = ["W", "W", "I", "I,I,I,I,I,I,I,I,I,I,I,I"] if kind == "io" else ["W"]      # also a dozen interrupts in a row
                while True:
                    for _k in range(rng.choice([0, 0, 1, 1, 2, 3])):
                        f = rng.choice(menu)
                        toks.append(f)
                        nw += f == "W"
                    if i >= len(s):
                        break
                    j = min(len(s), i + rng.randint(1, 12))
                    toks.append("x" + hx(s[i:j]))
                    i = j
                meth = rng.choice("nN") if kind == "io" else rng.choice("rR")       # also next_nb / read_nb
                calls_f = (meth + "b") * (base_calls + nw)
                calls_0 = (meth + "b") * base_calls
                out.append(Case("rd %s %s %s %s" % (kind, cap, ",".join(toks) or "x.", calls_f), "wb-faulty", dict(grp=g, role="faulty", nw=nw, kind=kind)))
                out.append(Case("rd %s %s %s %s" % (kind, cap, ("x" + hx(s)) if s else "x.", calls_0), "wb-clean", dict(grp=g, role="clean", kind=kind)))
            elif fam < 0.85:
                # one Other error at position k
                k = rng.randint(0, len(s))
                a, b = s[:k], s[k:]
                meth = rng.choice("nN") if kind == "io" else rng.choice("rR")
                calls = (meth + "b") * base_calls
                nother = 2 if rng.random() < 0.3 else 1          # also two failing reads in a row
                if rng.random() < 0.08 and kind == "io":
                    # twenty failing reads in a row before anything else: twenty reports with count 0, then the stream
                    evs20 = ",".join(["O"] * 20 + (["x" + hx(s)] if s else []))
                    out.append(Case("rd io %s %s %s" % (cap, evs20, "nb" * (20 + base_calls)), "other-run", dict(otherrun=20)))
                ev_full = ",".join(x for x in ["x" + hx(a) if a else ""] + ["O"] * nother + ["x" + hx(b) if b else ""] if x)
                out.append(Case("rd %s %s %s %s" % (kind, cap, ev_full, calls + "nb" * 0), "other-full", dict(grp=g, role="full", a=a, kind=kind, nother=nother)))
                out.append(Case("rd %s %s %s %s" % (kind, cap, ("x" + hx(b)) if b else "x.", calls), "other-rest", dict(grp=g, role="rest", kind=kind)))
                out.append(Case("dec %s %s" % ("8192" if cap == "default" else cap, ("x" + hx(a) + ",R") if a else "R"), "other-count", dict(grp=g, role="count")))
            else:
                # end of input at a cut, many further calls
                k = rng.randint(0, len(s))
                a = s[:k]
                if rng.random() < 0.3:
                    # ... or directly after a transmission that is rejected at its very last byte (checksum)
                    f = bytearray(gen.frame(gen.payload(rng, rng.randint(0, 12))))
                    f[-1] ^= 0xFF
                    a = s + bytes(f)
                calls = (rng.choice("nN") + "b") * (len(a) // 8 + 9)       # next() or next_nb()
                out.append(Case("rd io %s %s %s" % (cap, ("x" + hx(a)) if a else "x.", calls), "eof", dict(grp=g, role="eof", a=a)))
                out.append(Case("dec %s %s" % ("8192" if cap == "default" else cap, ("x" + hx(a) + ",F") if a else "F"), "eof-fin", dict(grp=g, role="fin")))
        return out

    def nontrivial(self, case, out):
        return case.meta.get("role") in ("faulty", "full", "eof")

    def oracle(self, cases, dbg, rel, spec):
        bad = []
        groups = {}
        for i, c in enumerate(cases):
            if "grp" in c.meta:
                groups.setdefault(c.meta["grp"], {})[c.meta["role"]] = i
        for i, c in enumerate(cases):
            if "otherrun" in c.meta:
                for prof, o in both(dbg, rel, i):
                    items = o.split(";")
                    if items[:20] != ["IOOther:0"] * 20:
                        bad.append(dict(case=c.line, why="%s build: twenty consecutive read errors were not reported as twenty IoErr(Other, 0): %s" % (prof, items[:22])))
                        break
        for g, d in groups.items():
            for prof, outs in (("debug", dbg), ("release", rel)):
                why = None
                where = None
                def trim(items):
                    # drop the end-of-input tail (None / WouldBlock forever / Eof:0)
                    while items and items[-1] in ("-", "IOEof:0", "IOWouldBlock:0", "WB"):
                        items.pop()
                    return items
                if "faulty" in d:
                    fa = outs[d["faulty"]].split(";")
                    cl = outs[d["clean"]].split(";")
                    nw = cases[d["faulty"]].meta["nw"]
                    kind = cases[d["faulty"]].meta["kind"]
                    # a would-block is IoErr(WouldBlock, 0) from read/next and nb::Error::WouldBlock ("WB") from the nb variants
                    wb = [x for x in fa if x in ("IOWouldBlock:0", "WB")]
                    rest = [x for x in fa if x not in ("IOWouldBlock:0", "WB")]
                    meth_nb = cases[d["faulty"]].line.split(" ")[-1][:1] in "NR"
                    if meth_nb and "IOWouldBlock:0" in fa:
                        why = "read_nb/next_nb reported a would-block as a hard error instead of nb::Error::WouldBlock: %s" % fa[:6]
                    elif kind == "io":
                        if len(wb) != nw:
                            why = "%d would-block conditions surfaced %d times" % (nw, len(wb))
                        elif trim(rest) != trim(cl):
                            why = "would-block/interrupted changed the decoded results: %s vs fault-free %s" % (trim(rest)[:6], trim(cl)[:6])
                    else:
                        # embedded-hal source: end of input also blocks; compare the non-would-block results
                        if trim(rest) != trim([x for x in cl if x not in ("IOWouldBlock:0", "WB")]):
                            why = "would-block changed the decoded results: %s vs fault-free %s" % (rest[:6], cl[:6])
                    where = cases[d["faulty"]].line + " || " + cases[d["clean"]].line
                elif "full" in d:
                    fu = outs[d["full"]].split(";")
                    re_ = outs[d["rest"]].split(";")
                    cnt = parse_events(outs[d["count"]])
                    where = cases[d["full"]].line + " || " + cases[d["rest"]].line
                    ks = [k for k, x in enumerate(fu) if x.startswith("IOOther:")]
                    nother = cases[d["full"]].meta.get("nother", 1)
                    if len(ks) != nother:
                        why = "%d Other fault(s) surfaced %d times: %s" % (nother, len(ks), fu[:8])
                    elif nother == 2 and (ks[1] != ks[0] + 1 or fu[ks[1]] != "IOOther:0"):
                        why = "the second of two consecutive read errors was not reported as IoErr(Other, 0): %s" % fu[ks[0]:ks[0] + 3]
                    else:
                        k = ks[0]
                        n_expected = int(cnt[-1][2]) if cnt and cnt[-1][1] == "R" else None
                        if n_expected is not None and fu[k] != "IOOther:%d" % n_expected:
                            why = "count attached to the I/O error is %s, but %d bytes were pending" % (fu[k], n_expected)
                        elif trim(fu[ks[-1] + 1:]) != trim(re_):
                            why = "after an I/O error reading does not continue like a fresh reader: %s vs %s" % (fu[k + 1:k + 7], re_[:6])
                elif "eof" in d:
                    eo = outs[d["eof"]].split(";")
                    fin = parse_events(outs[d["fin"]])
                    where = cases[d["eof"]].line
                    pending = fin[-1][2] if fin and fin[-1][1] == "F" else "-"
                    # the results before end of input are those of the push decoder; then the leftover report, then None forever
                    first_none = next((k for k, x in enumerate(eo) if x == "-"), None)
                    if first_none is None:
                        why = "next() never returned None at end of input: %s" % eo[-4:]
                    elif any(x != "-" for x in eo[first_none:]):
                        why = "next() returned something after None: %s" % eo[first_none:first_none + 4]
                    else:
                        last = eo[first_none - 1] if first_none > 0 else None
                        if pending == "-":
                            if last is not None and last.startswith("IOEof"):
                                why = "nothing pending at end of input but %s was reported" % last
                        else:
                            n = pending[2:]    # ED<n>
                            if last != "IOEof:" + n:
                                why = "pending %s bytes at end of input but the last result is %s" % (n, last)
                if why:
                    bad.append(dict(case=where, why="%s build: %s" % (prof, why)))
                    break
        return bad


REGISTRY = {"C01": C01, "C02": C02, "C03": C03, "C04": C04, "C05": C05, "C06": C06, "C07": C07, "C08": C08, "C09": C09, "C10": C10, "C11": C11, "C12": C12, "C13": C13, "C14": C14, "C15": C15, "C16": C16, "C17": C17, "C18": C18}

NOT_CLAIMED = {}
for _p in []:
    NOT_CLAIMED[_p] = "check under construction in this revision (model/theorem not yet committed); the technique applies, see DESIGN.md section 5"


REGISTRY_ALL = {"C01": C01, "C02": C02, "C03": C03, "C04": C04, "C05": C05, "C06": C06, "C07": C07, "C08": C08, "C09": C09,
                "C10": C10, "C11": C11, "C12": C12, "C13": C13, "C14": C14, "C15": C15, "C16": C16, "C17": C17, "C18": C18}
