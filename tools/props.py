"""Per-property definitions: theorems to audit, case generators (L2/L3), observation projections
for the correspondence check, and the executable property statement (oracle) evaluated on the
implementation's own outputs."""
import json, os, re
import gen, lib
from gen import hx

MODEL_FILES = [
    "theories/Base/Prelude.v", "theories/Base/Crc.v", "theories/Spec/Frame.v",
    "theories/Model/Decode.v", "theories/Model/Encode.v", "theories/Model/Frontends.v",
]

TRUSTED_BASE = [
    "Coq 8.16.1 kernel (coqc); vm_compute used for closed computations and finite byte sweeps; native_compute not used",
    "no axioms: every property theorem is 'Closed under the global context' (Print Assumptions checked on every run)",
    "hand-written Gallina model of the Rust code, tied to /repo by the correspondence check (differential: extracted OCaml model vs real crate, debug+release builds)",
    "extraction: ExtrOcamlBasic only, no Extract Constant; OCaml 4.13.1; ocaml/driver.ml (hex parsing/printing glue)",
    "Rust harness (harness/src), tools/*.py, rustc/cargo, the crc crate",
    "usize arithmetic modelled as unbounded N; Vec::try_reserve never fails; std::io::Read::read_exact as documented",
]


class Case:
    __slots__ = ("line", "tag", "meta")

    def __init__(self, line, tag, meta=None):
        self.line = line
        self.tag = tag
        self.meta = meta or {}


def load_replay(path):
    """a replay is either a json written by check.py (field 'case') or a plain case file"""
    txt = open(path).read()
    try:
        j = json.loads(txt)
        lines = [j["case"]] + j.get("more", []) if "case" in j else [d["case"] for d in j.get("first_divergences", [])]
    except Exception:
        lines = [l for l in txt.split("\n") if l.strip() and not l.startswith("#")]
    out = []
    for l in lines:
        for sub in l.split(" || "):
            out.append(Case(sub, "replay"))
    return out


def parse_ops(ops):
    """ops string -> list of ('x', byte) / ('F',) / ('R',) / ('N',)"""
    out = []
    for tok in ops.split(","):
        if not tok:
            continue
        if tok[0] == "x":
            h = tok[1:]
            if h != ".":
                out += [("x", b) for b in bytes.fromhex(h)]
        else:
            out.append((tok[0],))
    return out


def parse_events(s):
    """'19:M1234;20:F-' -> [(19,'M','1234'), (20,'F','-')]"""
    if s == "." or s == "":
        return []
    evs = []
    for it in s.split(";"):
        i, _, r = it.partition(":")
        evs.append((int(i), r[0], r[1:]))
    return evs


def unhx(h):
    return b"" if h == "." else bytes.fromhex(h)


class Prop:
    theorems = []
    level_text = ""
    level_note = ("trusted: Coq kernel; fidelity of the hand-written model = the correspondence check (differential testing, bounded by "
                  "the generators); extraction (ExtrOcamlBasic only) + OCaml driver; Rust harness; usize modelled as unbounded")
    suite_names = "?"
    rule = ""
    assumptions = []
    extra_trusted = []
    corpus_dir = None

    def corpus(self):
        d = os.path.join(lib.VERIF, "corpus", self.pid)
        out = []
        if os.path.isdir(d):
            for fn in sorted(os.listdir(d)):
                for l in open(os.path.join(d, fn)):
                    l = l.rstrip("\n")
                    if l and not l.startswith("#"):
                        out.append(Case(l, "corpus:" + fn))
        return out

    def project(self, case, out):
        return out

    def nontrivial(self, case, out):
        return True

    def oracle(self, cases, dbg, rel, spec):
        return []


def both(dbg, rel, i):
    return (("debug", dbg[i]), ("release", rel[i]))


# ==========================================================================================
# C07 encoders emit the wire format and agree
# ==========================================================================================
class C07(Prop):
    pid = "C07"
    theorems = [("C07_format", None)]
    suite_names = "S-ENC (enci, encb)"
    rule = ("payloads from G-PAY (lengths 0..40, 252..260, 1020..1028, 8188..8196, thorough 65530..65540; random, "
            "5-symbol alphabet, 0x1b/zero runs, embedded start/end look-alikes); per payload: iterator encoder with 3 "
            "extra next() calls, Vec encoder, ArrayBuf<N> encoders for N around the frame length. non-trivial = payload non-empty")
    assumptions = ["Vec<u8>::try_reserve does not fail", "ArrayBuf capacities limited to the harness menu"]

    def cases(self, tier, rng):
        n = 700 if tier == "quick" else 6000
        out = []
        for _ in range(n):
            p = gen.payload(rng, thorough=(tier == "thorough"))
            h = hx(p)
            fl = len(gen.frame(p))
            out.append(Case("enci 3 " + h, "enci", dict(p=h)))
            out.append(Case("encb - " + h, "encb-vec", dict(p=h, cap=None)))
            for _ in range(2):
                c = gen.cap_near(rng, fl)
                out.append(Case("encb %d %s" % (c, h), "encb-array", dict(p=h, cap=c)))
        if tier == "thorough":
            for b in gen.small_bodies(6):
                out.append(Case("enci 1 " + hx(b), "small-enci", dict(p=hx(b))))
                out.append(Case("encb - " + hx(b), "small-encb", dict(p=hx(b), cap=None)))
        return out

    def nontrivial(self, case, out):
        return case.meta.get("p", ".") != "."

    def oracle(self, cases, dbg, rel, spec):
        ps = sorted(set(c.meta["p"] for c in cases if "p" in c.meta))
        fr = dict(zip(ps, spec(["frame " + p for p in ps])))
        bad = []
        for i, c in enumerate(cases):
            if "p" not in c.meta:
                continue
            f = fr[c.meta["p"]]
            for prof, o in both(dbg, rel, i):
                if c.line.startswith("enci"):
                    k = int(c.line.split()[1])
                    exp = f + "|" + ";".join(["-"] * k)
                else:
                    cap = c.meta["cap"]
                    exp = "ok:" + f if cap is None or len(f) // 2 <= cap else "oom"
                if o != exp:
                    bad.append(dict(case=c.line, why="%s build: encoder output differs from the specified frame: got %s expected %s" % (prof, o[:200], exp[:200])))
                    break
        return bad


# ==========================================================================================
# C01 round trip
# ==========================================================================================
class C01(Prop):
    pid = "C01"
    theorems = [("C01_roundtrip", None)]
    suite_names = "S-ENC+S-DEC+S-FRONT (rt)"
    rule = ("payloads from G-PAY; per payload the real encoders (Vec + iterator) produce the frame, which is fed to the push "
            "decoder (+finalize), decode() and decode_streaming (+2 extra next()) with a buffer of capacity >= |p| from the "
            "menu (often exactly |p|) or Vec. non-trivial = payload non-empty")

    def cases(self, tier, rng):
        n = 1200 if tier == "quick" else 10000
        out = []
        for _ in range(n):
            p = gen.payload(rng, thorough=(tier == "thorough"))
            r = rng.random()
            if r < 0.35:
                cap = "-"
            elif r < 0.75:
                c = gen.cap_at_least(len(p))
                cap = str(c) if c is not None else "-"
            else:
                c = rng.choice([x for x in gen.CAP_MENU if x >= len(p)] or [None])
                cap = str(c) if c is not None else "-"
            out.append(Case("rt %s %s" % (cap, hx(p)), "rt" + ("-vec" if cap == "-" else "-array"), dict(p=hx(p))))
        if tier == "thorough":
            for b in gen.small_bodies(7):
                c = gen.cap_at_least(len(b))
                out.append(Case("rt %d %s" % (c, hx(b)), "small", dict(p=hx(b))))
        return out

    def nontrivial(self, case, out):
        return case.meta.get("p", ".") != "."

    def oracle(self, cases, dbg, rel, spec):
        bad = []
        for i, c in enumerate(cases):
            if not c.line.startswith("rt "):
                continue
            p = c.line.split()[2]
            for prof, o in both(dbg, rel, i):
                ok = True
                parts = o.split(";i")
                if len(parts) != 2 or not parts[0].startswith("b"):
                    ok = False
                else:
                    for part in (parts[0][1:], parts[1]):
                        m = re.match(r"^(\d+)\[(.*)\]\{(.*)\}\((.*)\)$", part)
                        if not m:
                            ok = False
                            break
                        L = int(m.group(1))
                        if m.group(2) != "%d:M%s;%d:F-" % (L - 1, p, L) or m.group(3) != "M" + p or m.group(4) != "M%s|-;-" % p:
                            ok = False
                            break
                if not ok:
                    bad.append(dict(case=c.line, why="%s build: round trip does not yield exactly the payload at the last byte: %s" % (prof, o[:400])))
                    break
        return bad


# ==========================================================================================
# C02 decoder soundness
# ==========================================================================================
def stream_cases(rng, n, maxpay=40, with_ops=True):
    out = []
    for _ in range(n):
        s, desc = gen.stream(rng, maxpay=maxpay)
        r = rng.random()
        cap = "-" if r < 0.4 else str(rng.choice([c for c in gen.CAP_MENU if c <= 64] + [8192]))
        ops = gen.ops_of_stream(s, rng, 0.3 if with_ops and rng.random() < 0.4 else 0.0)
        out.append(Case("dec %s %s" % (cap, ops or "x."), "dec:" + "+".join(sorted(set(re.sub(r"\d+", "", d) for d in desc))), dict(s=s)))
        if rng.random() < 0.25:
            out.append(Case("fdecode " + hx(s), "fdecode", dict(s=s)))
        if rng.random() < 0.25:
            out.append(Case("fstream %s 1 %s" % (cap, hx(s)), "fstream", dict(s=s)))
    return out


def small_family_cases(maxlen, families=(1, 2, 3, 4)):
    """bounded-exhaustive adversarial streams over the 5-symbol alphabet (DESIGN G-SMALL)"""
    out = []
    x = bytes([0x12, 0x34])
    for b in gen.small_bodies(maxlen):
        if 1 in families:
            out.append(Case("dec - x" + hx(gen.frame(b)), "small-frame"))
        if 2 in families:
            for pad in range(0, 5):
                out.append(Case("dec - x" + hx(gen.end_seq(gen.START + b, pad)), "small-rawend"))
        if 3 in families:
            out.append(Case("dec - x" + hx(gen.START + b) + ",F", "small-cut"))
        if 4 in families:
            out.append(Case("dec - x" + hx(b + gen.frame(x)), "small-noise"))
    return out


def check_sound(case, o, fr_lookup):
    """every M event: the bytes pushed since the last boundary op end with frame(m)"""
    ops = parse_ops(case.line.split(" ", 2)[2])
    evs = parse_events(o)
    for (idx, k, rest) in evs:
        if k != "M":
            continue
        # bytes consumed since the last non-push op before idx
        seg = bytearray()
        for j in range(idx, -1, -1):
            if j >= len(ops) or ops[j][0] != "x":
                break
            seg.append(ops[j][1])
        seg.reverse()
        f = fr_lookup(rest)
        if not bytes(seg).endswith(unhx(f)):
            return "payload %s reported at op %d although the consumed bytes do not end with its canonical frame" % (rest[:80], idx)
    return None


class C02(Prop):
    pid = "C02"
    theorems = [("C02_sound",
                 "forall (cap : cap_t) (ops : list op) (i : nat) (m : list N), Forall op_ok ops -> "
                 "nth_error (snd (run_ops cap init ops)) i = Some (EvPush OMsg m) -> "
                 "exists pre, trailing (firstn (S i) ops) [] = pre ++ frame m")]
    suite_names = "S-DEC/S-FRONT (dec, fdecode, fstream)"
    level_text = ("Theorem C02_sound (Coq, closed under the global context): for every capacity and every history of push_byte/finalize/"
                  "reset/from_buf, a reported payload m implies the bytes pushed since the last boundary end with frame m - unbounded in "
                  "stream length, for any attacker-chosen bytes. Correspondence model<->code on adversarial streams (debug+release) and the "
                  "same statement evaluated on the real decoder's outputs with the extracted spec.")
    rule = ("adversarial streams from G-STREAM: valid frames, frames with flip/drop/insert/truncate, wrong pad count, pad bytes "
            "counted as data, misaligned end, end shifted by 1-3 0x1b, non-zero padding, missing escape, restart inside, invalid "
            "escape - CRC recomputed for the manipulated framing - plus noise; interleaved finalize/reset/new; quick adds the "
            "bounded-exhaustive families over {00,01,1a,1b,55} up to length 4, thorough up to 7. non-trivial = at least one "
            "decoder event produced")

    def cases(self, tier, rng):
        out = stream_cases(rng, 2500 if tier == "quick" else 30000)
        out += small_family_cases(4 if tier == "quick" else 7, (2, 3, 4))
        return out

    def project(self, case, out):
        if case.line.startswith("dec "):
            return ";".join("%d:%s%s" % e for e in parse_events(out) if e[1] in "MP")
        return ";".join(x for x in out.replace("|", ";").split(";") if x[:1] in "MP")

    def nontrivial(self, case, out):
        return out not in (".", "")

    def oracle(self, cases, dbg, rel, spec):
        ms = set()
        for i, c in enumerate(cases):
            for prof, o in both(dbg, rel, i):
                for m in re.findall(r"M([0-9a-f.]+)", o):
                    ms.add(m)
        ms = sorted(ms)
        fr = dict(zip(ms, spec(["frame " + m for m in ms])))
        bad = []
        for i, c in enumerate(cases):
            for prof, o in both(dbg, rel, i):
                why = None
                if c.line.startswith("dec "):
                    why = check_sound(c, o, lambda m: fr[m])
                elif c.line.startswith("fdecode ") or c.line.startswith("fstream "):
                    s = unhx(c.line.split()[-1])
                    for m in re.findall(r"M([0-9a-f.]+)", o):
                        if unhx(fr[m]) not in s:
                            why = "payload %s reported although its canonical frame does not occur in the stream" % m[:80]
                if why:
                    bad.append(dict(case=c.line, why="%s build: %s" % (prof, why)))
                    break
        return bad


REGISTRY = {"C02": C02}

NOT_CLAIMED = {}
for _p in ["C01", "C03", "C04", "C05", "C06", "C07", "C08", "C09", "C10", "C11", "C12", "C13", "C14", "C15", "C16", "C17", "C18"]:
    NOT_CLAIMED[_p] = "check under construction in this revision (model/theorem not yet committed); the technique applies, see DESIGN.md section 5"

