"""Case generators.  Every random choice comes from the random.Random instance handed in, which
the caller seeds from VERIF_SEED, so a run replays exactly.  The helpers crc16/frame below are
*generator* code (they build interesting inputs); verdicts never rely on them — the oracles use
the extracted Coq specification."""
import random

START = bytes([0x1b] * 4 + [1] * 4)
CAP_MENU = [0, 1, 2, 3, 4, 5, 6, 7, 8, 9, 10, 11, 12, 13, 14, 15, 16, 17, 18, 19, 20, 21, 22, 23, 24, 25, 26, 27,
            28, 29, 30, 31, 32, 33, 34, 35, 36, 37, 38, 39, 40, 48, 60, 64, 100, 128, 200, 252, 253, 254, 255,
            256, 257, 258, 259, 260, 300, 512, 1000, 1020, 1021, 1022, 1023, 1024, 1025, 1026, 1027, 1028, 2048,
            4096, 8188, 8189, 8190, 8191, 8192, 8193, 8194, 8195, 8196, 16384, 65536, 70000]


def hx(b):
    return bytes(b).hex() if len(b) else "."


def crc16(data):
    c = 0xFFFF
    for x in data:
        c ^= x
        for _ in range(8):
            c = (c >> 1) ^ 0x8408 if c & 1 else c >> 1
    return c ^ 0xFFFF


def esc(p):
    out = bytearray()
    run = 0
    for b in p:
        out.append(b)
        run = run + 1 if b == 0x1b else 0
        if run == 4:
            out += bytes([0x1b] * 4)
            run = 0
    return bytes(out)


def end_seq(pre, pad):
    body = pre + bytes([0x1b] * 4 + [0x1a, pad])
    c = crc16(body)
    return body + bytes([c & 255, c >> 8])


def frame(p):
    body = START + esc(p)
    pad = (4 - len(body) % 4) % 4
    return end_seq(body + bytes(pad), pad)


def cap_at_least(n):
    for c in CAP_MENU:
        if c >= n:
            return c
    return None


def cap_near(rng, n):
    """a capacity from the menu close to n (below, equal, above)"""
    cands = [c for c in CAP_MENU if abs(c - n) <= 3]
    if cands and rng.random() < 0.8:
        return rng.choice(cands)
    return rng.choice(CAP_MENU)


# ------------------------------------------------------------------------------------------
# payloads
# ------------------------------------------------------------------------------------------
SMALL_ALPHA = [0x00, 0x01, 0x1a, 0x1b, 0x55]


def payload_len(rng, thorough=False, maxlen=None):
    r = rng.random()
    if r < 0.55:
        n = rng.randint(0, 40)
    elif r < 0.75:
        n = rng.randint(252, 260)
    elif r < 0.87:
        n = rng.randint(1020, 1028)
    elif r < 0.95:
        n = rng.randint(41, 600)
    elif r < 0.99 or not thorough:
        n = rng.randint(8188, 8196)
    else:
        n = rng.randint(65530, 65540)
    if maxlen is not None:
        n = min(n, maxlen)
    return n


def payload(rng, n=None, thorough=False, maxlen=None):
    if n is None:
        n = payload_len(rng, thorough, maxlen)
    style = rng.random()
    if style < 0.30:
        p = bytearray(rng.getrandbits(8) for _ in range(n))
    elif style < 0.60:
        p = bytearray(rng.choice(SMALL_ALPHA) for _ in range(n))
    elif style < 0.75:
        p = bytearray(rng.choice([0x1b, 0x1b, 0x1b, 0x00, 0x1a, 0x01, rng.getrandbits(8)]) for _ in range(n))
    else:
        p = bytearray(rng.getrandbits(8) for _ in range(n))
        # sprinkle 0x1b runs
        for _ in range(rng.randint(1, 4)):
            if n == 0:
                break
            k = rng.randint(1, 13)
            o = rng.randint(0, n)
            p[o:o + k] = bytes([0x1b] * k)
            p = p[:n]
    # structured tails / embedded look-alikes
    t = rng.random()
    if t < 0.12 and n:
        k = min(n, rng.randint(1, 9))
        p[n - k:] = bytes(k)                       # zero run at the end
    elif t < 0.24 and n:
        k = min(n, rng.randint(1, 13))
        p[n - k:] = bytes([0x1b] * k)              # 0x1b run at the very end
    elif t < 0.30 and n >= 8:
        o = rng.randint(0, n - 8)
        p[o:o + 8] = START                         # embedded start sequence
    elif t < 0.36 and n >= 8:
        o = rng.randint(0, n - 8)
        pad = rng.randint(0, 3)
        good = rng.random() < 0.5
        e = end_seq(START + esc(bytes(p[:o])), pad)[-8:] if good else bytes([0x1b] * 4 + [0x1a, pad, rng.getrandbits(8), rng.getrandbits(8)])
        p[o:o + 8] = e
    elif t < 0.40 and n >= 5:
        o = rng.randint(0, n - 5)
        p[o:o + 5] = bytes([0x1b] * 4 + [0x1a])
    elif t < 0.44 and n:
        k = min(n, rng.randint(1, 5))
        z = min(n - k, rng.randint(0, 4))
        p[n - k:] = bytes([0x1b] * k)
        p[n - k - z:n - k] = bytes(z)
    return bytes(p)


# ------------------------------------------------------------------------------------------
# adversarial streams: list of segments, CRC recomputed for the attacker's reading
# ------------------------------------------------------------------------------------------
def noise(rng, maxlen=40):
    n = rng.randint(0, maxlen)
    style = rng.random()
    if style < 0.4:
        g = bytearray(rng.getrandbits(8) for _ in range(n))
    else:
        g = bytearray(rng.choice(SMALL_ALPHA) for _ in range(n))
    t = rng.random()
    if t < 0.3:
        g += bytes([0x1b] * rng.randint(1, 7))
    elif t < 0.5:
        g += START[:rng.randint(1, 7)]
    elif t < 0.6:
        g += bytes([0x1b] * rng.randint(4, 9)) + bytes([1] * rng.randint(0, 3))
    return bytes(g)


def clean_noise(rng, maxlen=40):
    """noise g such that g ++ START contains START only at offset |g|"""
    for _ in range(50):
        g = noise(rng, maxlen)
        if (g + START).find(START) == len(g):
            return g
    return b""


def bad_frame(rng, p):
    """a frame-like byte string that is NOT the canonical frame of any payload it could be read as,
    with the checksum recomputed for the manipulated framing"""
    kind = rng.randrange(12)
    body = START + esc(p)
    pad = (4 - len(body) % 4) % 4
    f = bytearray(frame(p))
    if kind == 0 and len(f) > 9:                    # bit flip
        i = rng.randrange(len(f))
        f[i] ^= 1 << rng.randrange(8)
        return bytes(f)
    if kind == 1 and len(f) > 9:                    # drop a byte
        i = rng.randrange(len(f))
        del f[i]
        return bytes(f)
    if kind == 2:                                   # insert a byte
        i = rng.randrange(len(f) + 1)
        f.insert(i, rng.choice([0, 0x1b, 0x1a, 1, rng.getrandbits(8)]))
        return bytes(f)
    if kind == 3:                                   # truncate
        return bytes(f[:rng.randrange(len(f))])
    if kind == 4:                                   # wrong pad count, CRC recomputed
        wp = rng.choice([x for x in range(0, 6) if x != pad])
        return end_seq(body + bytes(pad), wp)
    if kind == 5:                                   # pad bytes counted as data / too few zeros
        wp = rng.randint(0, 3)
        return end_seq(body + bytes(wp), pad)
    if kind == 6:                                   # misaligned end, CRC recomputed
        extra = rng.randint(1, 3)
        return end_seq(body + bytes([rng.choice([0, 0x55])] * extra), rng.randint(0, 3))
    if kind == 7:                                   # end shifted by 1-3 0x1b, CRC recomputed
        k = rng.randint(1, 3)
        return end_seq(body + bytes([0x1b] * k), rng.randint(0, 3))
    if kind == 8:                                   # non-zero padding bytes, CRC recomputed
        if pad == 0:
            body2 = START + esc(p + b"\x07")
            pad2 = (4 - len(body2) % 4) % 4
            if pad2 == 0:
                return end_seq(body2, 0)[:-1]
            return end_seq(body2 + bytes([1] * pad2), pad2)
        return end_seq(body + bytes([rng.choice([1, 0x1b, 0xff])] * pad), pad)
    if kind == 9:                                   # unescaped payload (escape missing), CRC recomputed
        raw = START + p
        pd = (4 - len(raw) % 4) % 4
        return end_seq(raw + bytes(pd), pd)
    if kind == 10:                                  # restart inside
        cut = rng.randrange(8, len(body) + 1)
        return bytes(body[:cut]) + bytes([0x1b] * 4 + [1] * 4)
    # kind 11: invalid escape payload
    return bytes(body) + bytes([0x1b] * 4) + bytes([rng.choice([2, 0x1a, 0x55]), rng.getrandbits(8), rng.getrandbits(8), rng.getrandbits(8)])


def stream(rng, maxpay=40, nseg=None):
    """returns (bytes, description list)"""
    nseg = nseg or rng.randint(1, 5)
    out = bytearray()
    desc = []
    for _ in range(nseg):
        r = rng.random()
        if r < 0.40:
            p = payload(rng, rng.randint(0, maxpay))
            out += frame(p)
            desc.append("frame%d" % len(p))
        elif r < 0.75:
            p = payload(rng, rng.randint(0, maxpay))
            b = bad_frame(rng, p)
            out += b
            desc.append("bad")
        else:
            g = noise(rng)
            out += g
            desc.append("noise%d" % len(g))
    return bytes(out), desc


def small_bodies(maxlen):
    """all strings over SMALL_ALPHA up to maxlen (bounded-exhaustive family)"""
    cur = [b""]
    yield b""
    for _ in range(maxlen):
        nxt = []
        for c in cur:
            for a in SMALL_ALPHA:
                x = c + bytes([a])
                nxt.append(x)
                yield x
        cur = nxt


def ops_of_stream(s, rng=None, p_fin=0.0):
    """encode a byte stream (optionally interleaved with finalize/reset/new) as a `dec` ops string"""
    if not rng or p_fin == 0.0 or len(s) == 0:
        return "x" + hx(s) if len(s) else ""
    toks = []
    i = 0
    while i < len(s):
        j = min(len(s), i + rng.randint(1, max(1, len(s))))
        toks.append("x" + hx(s[i:j]))
        i = j
        if i < len(s) and rng.random() < p_fin:
            toks.append(rng.choice(["F", "R", "N"]))
    return ",".join(toks)
