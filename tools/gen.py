"""Case generators.  Every random choice comes from the random.Random instance handed in, which
the caller seeds from VERIF_SEED, so a run replays exactly.  The helpers crc16/frame below are
*generator* code (they build interesting inputs); verdicts never rely on them — the oracles use
the extracted Coq specification."""
import random

START = bytes([0x1b] * 4 + [1] * 4)
CAP_MENU = [0, 1, 2, 3, 4, 5, 6, 7, 8, 9, 10, 11, 12, 13, 14, 15, 16, 17, 18, 19, 20, 21, 22, 23, 24, 25, 26, 27,
            28, 29, 30, 31, 32, 33, 34, 35, 36, 37, 38, 39, 40, 48, 60, 64, 100, 128, 200, 252, 253, 254, 255,
            256, 257, 258, 259, 260, 300, 512, 1000, 1020, 1021, 1022, 1023, 1024, 1025, 1026, 1027, 1028, 2048,
            4096, 8188, 8189, 8190, 8191, 8192, 8193, 8194, 8195, 8196, 16384, 65536, 70000]


def hx(b):
    return bytes(b).hex() if len(b) else "."


def crc16(data):
    c = 0xFFFF
    for x in data:
        c ^= x
        for _ in range(8):
            c = (c >> 1) ^ 0x8408 if c & 1 else c >> 1
    return c ^ 0xFFFF


def esc(p):
    out = bytearray()
    run = 0
    for b in p:
        out.append(b)
        run = run + 1 if b == 0x1b else 0
        if run == 4:
            out += bytes([0x1b] * 4)
            run = 0
    return bytes(out)


def end_seq(pre, pad):
    body = pre + bytes([0x1b] * 4 + [0x1a, pad])
    c = crc16(body)
    return body + bytes([c & 255, c >> 8])


def frame(p):
    body = START + esc(p)
    pad = (4 - len(body) % 4) % 4
    return end_seq(body + bytes(pad), pad)


def cap_at_least(n):
    for c in CAP_MENU:
        if c >= n:
            return c
    return None


def cap_near(rng, n):
    """a capacity from the menu close to n (below, equal, above)"""
    cands = [c for c in CAP_MENU if abs(c - n) <= 3]
    if cands and rng.random() < 0.8:
        return rng.choice(cands)
    return rng.choice(CAP_MENU)


# ------------------------------------------------------------------------------------------
# payloads
# ------------------------------------------------------------------------------------------
SMALL_ALPHA = [0x00, 0x01, 0x1a, 0x1b, 0x55]


def payload_len(rng, thorough=False, maxlen=None):
    r = rng.random()
    if r < 0.55:
        n = rng.randint(0, 40)
    elif r < 0.75:
        n = rng.randint(252, 260)
    elif r < 0.87:
        n = rng.randint(1020, 1028)
    elif r < 0.95:
        n = rng.randint(41, 600)
    elif r < 0.997 or not thorough:
        n = rng.randint(8188, 8196)
    else:
        n = rng.randint(65530, 65540)
    if maxlen is not None:
        n = min(n, maxlen)
    return n


# payloads whose frame checksum bytes are 00 00 / 1b 1b / ff ff / 1b 00 / 00 1b / 00 01 (boundary values of the trailer)
SPECIAL_CRC_PAYLOADS = [bytes.fromhex(x) for x in ["7605a45e", "7605cf5a", "7605bdaf", "76052bff", "760540fb", "7605ce8e"]]


def crc_kermit(data):
    """CRC-16/KERMIT: same polynomial as X.25, init 0, no final xor (a sibling algorithm some meters use)"""
    c = 0
    for b in data:
        c ^= b
        for _ in range(8):
            c = (c >> 1) ^ 0x8408 if c & 1 else c >> 1
    return c


def payload(rng, n=None, thorough=False, maxlen=None):
    if n is None:
        n = payload_len(rng, thorough, maxlen)
    style = rng.random()
    if style < 0.30:
        p = bytearray(rng.getrandbits(8) for _ in range(n))
    elif style < 0.60:
        p = bytearray(rng.choice(SMALL_ALPHA) for _ in range(n))
    elif style < 0.75:
        p = bytearray(rng.choice([0x1b, 0x1b, 0x1b, 0x00, 0x1a, 0x01, rng.getrandbits(8)]) for _ in range(n))
    else:
        p = bytearray(rng.getrandbits(8) for _ in range(n))
        # sprinkle 0x1b runs
        for _ in range(rng.randint(1, 4)):
            if n == 0:
                break
            k = rng.randint(1, 13)
            o = rng.randint(0, n)
            p[o:o + k] = bytes([0x1b] * k)
            p = p[:n]
    # structured tails / embedded look-alikes
    t = rng.random()
    if t < 0.12 and n:
        k = min(n, rng.randint(1, 9))
        p[n - k:] = bytes(k)                       # zero run at the end
    elif t < 0.24 and n:
        k = min(n, rng.randint(1, 13))
        p[n - k:] = bytes([0x1b] * k)              # 0x1b run at the very end
    elif t < 0.30 and n >= 8:
        o = rng.randint(0, n - 8)
        p[o:o + 8] = START                         # embedded start sequence
    elif t < 0.36 and n >= 8:
        o = rng.randint(0, n - 8)
        pad = rng.randint(0, 3)
        good = rng.random() < 0.5
        e = end_seq(START + esc(bytes(p[:o])), pad)[-8:] if good else bytes([0x1b] * 4 + [0x1a, pad, rng.getrandbits(8), rng.getrandbits(8)])
        p[o:o + 8] = e
    elif t < 0.40 and n >= 5:
        o = rng.randint(0, n - 5)
        p[o:o + 5] = bytes([0x1b] * 4 + [0x1a])
    elif t < 0.44 and n:
        k = min(n, rng.randint(1, 5))
        z = min(n - k, rng.randint(0, 4))
        p[n - k:] = bytes([0x1b] * k)
        p[n - k - z:n - k] = bytes(z)
    return bytes(p)


# ------------------------------------------------------------------------------------------
# adversarial streams: list of segments, CRC recomputed for the attacker's reading
# ------------------------------------------------------------------------------------------
def noise(rng, maxlen=40):
    n = rng.randint(0, maxlen)
    style = rng.random()
    if style < 0.25:
        # fragment soup: pieces of the start sequence in every combination (1b runs and 01 runs)
        g = bytearray()
        for _ in range(rng.randint(1, 5)):
            g += bytes([0x1b] * rng.randint(1, 6)) + bytes([1] * rng.randint(0, 5))
            if rng.random() < 0.2:
                g.append(rng.choice([0x00, 0x55, 0x1a]))
        return bytes(g)
    if style < 0.55:
        g = bytearray(rng.getrandbits(8) for _ in range(n))
    else:
        g = bytearray(rng.choice(SMALL_ALPHA) for _ in range(n))
    t = rng.random()
    if t < 0.3:
        g += bytes([0x1b] * rng.randint(1, 7))
    elif t < 0.5:
        g += START[:rng.randint(1, 7)]
    elif t < 0.6:
        g += bytes([0x1b] * rng.randint(4, 9)) + bytes([1] * rng.randint(0, 3))
    elif t < 0.68:
        g += bytes([0x1b] * 4 + [0x1a]) + bytes(rng.getrandbits(8) for _ in range(rng.randint(0, 2)))     # unfinished end sequence
    elif t < 0.72:
        g += bytes([0x1b] * rng.randint(250, 300))                 # a run longer than any 8-bit counter
    elif t < 0.76:
        x = rng.choice([0x02, 0x03, 0x00, 0xff])
        g += bytes([0x1b] * 4 + [x] * 4) + bytes(rng.getrandbits(8) for _ in range(rng.randint(0, 6)))   # escape with four equal bytes (v2 start = 02020202)
    return bytes(g)


def clean_noise(rng, maxlen=40):
    """noise g such that g ++ START contains START only at offset |g|"""
    for _ in range(50):
        g = noise(rng, maxlen)
        if (g + START).find(START) == len(g):
            return g
    return b""


def bad_frame(rng, p):
    """a frame-like byte string that is NOT the canonical frame of any payload it could be read as,
    with the checksum recomputed for the manipulated framing"""
    kind = rng.randrange(15)
    body = START + esc(p)
    if kind == 14:
        # an escape sequence with an undefined first payload byte (02, 03, 04, ... anything but 1b / 01 / 1a) in the
        # middle of an otherwise well-formed transmission, checksum computed over all transmitted bytes
        cut = (rng.randint(0, len(p)) // 4) * 4
        p1, p2 = p[:cut], p[cut:]
        x = rng.choice([0x02, 0x03, 0x04, 0x05, 0x00, 0x1c, 0x7f, 0xff])
        rest = [x] * 3 if rng.random() < 0.3 else [rng.choice([0, 0, rng.getrandbits(8)]) for _ in range(3)]
        b2 = START + esc(p1) + bytes([0x1b] * 4 + [x] + rest) + esc(p2)
        pd = (4 - len(b2) % 4) % 4
        return end_seq(b2 + bytes(pd), pd)
    if kind == 13:
        # a payload ending in 1-3 0x1b with an aligned body (no padding): the end sequence follows the run directly
        # (1b^j 1b1b1b1b 1a 00 crc).  One 0x1b of the run/escape in front of 0x1a is overwritten, checksum recomputed
        j = rng.randint(1, 3)
        q = bytes(p[:(len(p) // 4) * 4]) + bytes([0x55] * (4 - j)) + bytes([0x1b] * j)
        while len(START + esc(q)) % 4:
            q = b"\x55" + q
        f = bytearray(frame(q))
        pos = len(f) - 4 - 4 - rng.randint(0, j - 1) - 1 if rng.random() < 0.5 else len(f) - 4 - rng.randint(1, 4)
        f[pos] = rng.choice([0x00, 0x1a, 0x01, 0x55])
        c = crc16(bytes(f[:-2]))
        f[-2], f[-1] = c & 0xFF, c >> 8
        return bytes(f)
    if kind == 12:                                  # checksum manipulations on an otherwise canonical frame
        f = bytearray(frame(p))
        how = rng.randrange(6)
        if how == 0 and f[-1] != f[-2]:
            f[-1], f[-2] = f[-2], f[-1]             # byte order swapped
        elif how == 1:
            c = crc16(bytes(f[:-2])) ^ 0xFFFF       # missing final xor
            f[-2], f[-1] = c & 0xFF, c >> 8
        elif how == 2:
            c = crc16(bytes(f[8:-2]))               # start sequence not covered
            f[-2], f[-1] = c & 0xFF, c >> 8
        elif how == 3:
            c = crc16(bytes(f[:-4]))                # end marker / pad count not covered
            f[-2], f[-1] = c & 0xFF, c >> 8
        elif how == 4:
            f[-1] ^= 0xFF
        else:
            c = crc_kermit(bytes(f[:-2]))                   # checksum of a sibling algorithm (CRC-16/KERMIT)
            f[-2], f[-1] = c & 0xFF, c >> 8
        if bytes(f) == frame(p):
            f[-1] ^= 1
        return bytes(f)
    pad = (4 - len(body) % 4) % 4
    f = bytearray(frame(p))
    if kind == 0 and len(f) > 9:                    # bit flip
        i = rng.randrange(len(f))
        f[i] ^= 1 << rng.randrange(8)
        return bytes(f)
    if kind == 1 and len(f) > 9:                    # drop a byte
        i = rng.randrange(len(f))
        del f[i]
        return bytes(f)
    if kind == 2:                                   # insert a byte
        i = rng.randrange(len(f) + 1)
        f.insert(i, rng.choice([0, 0x1b, 0x1a, 1, rng.getrandbits(8)]))
        return bytes(f)
    if kind == 3:                                   # truncate
        return bytes(f[:rng.randrange(len(f))])
    if kind == 4:                                   # wrong pad count (also far beyond 3: 0x80, 0xf0, 0xff), CRC recomputed
        wp = rng.choice([x for x in range(0, 6) if x != pad] + [16, 0x7f, 0x80, 0xef, 0xf0, 0xf1, 0xff])
        return end_seq(body + bytes(pad), wp)
    if kind == 5:                                   # pad bytes counted as data / too few zeros
        wp = rng.randint(0, 3)
        return end_seq(body + bytes(wp), pad)
    if kind == 6:                                   # misaligned end, CRC recomputed
        extra = rng.randint(1, 3)
        return end_seq(body + bytes([rng.choice([0, 0x55])] * extra), rng.randint(0, 3))
    if kind == 7:                                   # end shifted by 1-3 0x1b, CRC recomputed
        k = rng.randint(1, 3)
        return end_seq(body + bytes([0x1b] * k), rng.randint(0, 3))
    if kind == 8:                                   # non-zero padding bytes, CRC recomputed
        if pad == 0:
            body2 = START + esc(p + b"\x07")
            pad2 = (4 - len(body2) % 4) % 4
            if pad2 == 0:
                return end_seq(body2, 0)[:-1]
            return end_seq(body2 + bytes([1] * pad2), pad2)
        return end_seq(body + bytes([rng.choice([1, 0x1b, 0xff])] * pad), pad)
    if kind == 9:                                   # unescaped payload (escape missing), CRC recomputed
        raw = START + p
        pd = (4 - len(raw) % 4) % 4
        return end_seq(raw + bytes(pd), pd)
    if kind == 10:                                  # restart inside
        cut = rng.randrange(8, len(body) + 1)
        return bytes(body[:cut]) + bytes([0x1b] * 4 + [1] * 4)
    # kind 11: invalid escape payload (often ending in 0x1b / 0x01: what a start-sequence matcher must not remember)
    return bytes(body) + bytes([0x1b] * 4) + bytes([rng.choice([2, 0x1a, 0x55, 0x1c, 0x00])] +
                                                   [rng.choice([0x1b, 0x1b, 0x01, rng.getrandbits(8)]) for _ in range(3)])


def false_start(rng, p):
    """a valid frame whose start sequence is damaged: too few 0x1b, a 0x1b or another byte interrupting the 01 part,
    leading bytes missing - followed by the untouched rest of the frame (checksum of the undamaged frame)"""
    k = rng.randrange(5)
    if k == 0:
        pre = bytes([0x1b] * 4 + [1] * rng.randint(1, 3) + [0x1b] + [1] * 4)
    elif k == 1:
        pre = bytes([0x1b] * rng.randint(1, 3) + [1] * 4)
    elif k == 2:
        j = rng.randint(1, 3)
        pre = bytes([0x1b] * 4 + [1] * j + [rng.choice([0x00, 0x1a, 0x55, 0x1b])] + [1] * (4 - j))
    elif k == 3:
        pre = START[rng.randint(1, 7):]
    elif k == 4:
        pre = bytes([0x1b] * rng.randint(5, 9) + [1] * rng.randint(1, 3) + [0x1b] * rng.randint(1, 4) + [1] * 4)
    else:
        pre = b""
    if rng.random() < 0.25:
        # ... or, inside a running transmission, an escape sequence that only begins like a restart (1b1b1b1b 01 xx yy zz)
        # followed by the rest of a canonical frame: no restart happens there, no payload may be reported
        q = payload(rng, rng.randint(0, 8))
        body = START + esc(q)
        body += bytes((4 - len(body) % 4) % 4)
        look = bytes([1] + [rng.choice([0x00, 0x01, 0x1b, 0x55, rng.getrandbits(8)]) for _ in range(3)])
        if look == b"\x01\x01\x01\x01":
            look = b"\x01\x01\x01\x00"
        return body + bytes([0x1b] * 4) + look + frame(p)[8:]
    return pre + frame(p)[8:]


def stream(rng, maxpay=40, nseg=None):
    """returns (bytes, description list)"""
    nseg = nseg or rng.randint(1, 5)
    out = bytearray()
    desc = []
    for _ in range(nseg):
        r = rng.random()
        if r < 0.40:
            p = payload(rng, rng.randint(0, maxpay))
            out += frame(p)
            desc.append("frame%d" % len(p))
        elif r < 0.70:
            p = payload(rng, rng.randint(0, maxpay))
            b = bad_frame(rng, p)
            out += b
            desc.append("bad")
        elif r < 0.78:
            p = payload(rng, rng.randint(0, maxpay))
            out += false_start(rng, p)
            desc.append("falsestart")
        else:
            g = noise(rng)
            out += g
            desc.append("noise%d" % len(g))
    return bytes(out), desc


def small_bodies(maxlen):
    """all strings over SMALL_ALPHA up to maxlen (bounded-exhaustive family)"""
    cur = [b""]
    yield b""
    for _ in range(maxlen):
        nxt = []
        for c in cur:
            for a in SMALL_ALPHA:
                x = c + bytes([a])
                nxt.append(x)
                yield x
        cur = nxt


def ops_of_stream(s, rng=None, p_fin=0.0):
    """encode a byte stream (optionally interleaved with finalize/reset/new) as a `dec` ops string"""
    if not rng or p_fin == 0.0 or len(s) == 0:
        return "x" + hx(s) if len(s) else ""
    toks = []
    i = 0
    while i < len(s):
        j = min(len(s), i + rng.randint(1, max(1, len(s))))
        toks.append("x" + hx(s[i:j]))
        i = j
        if i < len(s) and rng.random() < p_fin:
            toks.append(rng.choice(["F", "R", "N"]))
    return ",".join(toks)


# ==========================================================================================
# G-SML: random SML files (AST -> random valid encoding) and mutations
# The canonical text rendering below must equal what the harness/driver print (parse suite).
# ==========================================================================================
# encoding style knobs (see gen_file): probability of a non-minimal TLF; scale on the "absent" probability
# of optional fields (0 = everything present, large = everything absent); compact = shortest contents
STYLE = dict(nonmin=None, absent=1.0, compact=False)


def absent(rng, p):
    return rng.random() < min(1.0, p * STYLE["absent"])


def tlf_bytes(tycode, V, k):
    """k-byte TLF whose nibbles spell V (V < 16**k)"""
    nibs = [(V >> (4 * (k - 1 - i))) & 0xF for i in range(k)]
    out = []
    for i, nb in enumerate(nibs):
        more = 0x80 if i < k - 1 else 0
        t = (tycode << 4) if i == 0 else 0
        out.append(more | t | nb)
    return bytes(out)


def prim_tlf(rng, tycode, length, nonmin=0.12):
    """TLF of a primitive type for `length` data bytes; sometimes non-minimal"""
    k = 1
    while length + k >= 16 ** k:
        k += 1
    if STYLE["nonmin"] is not None:
        nonmin = STYLE["nonmin"]
    if rng.random() < nonmin and tycode != 4:
        k += rng.choice([1, 1, 2, 2, 1, 2, 3, 7, 8, 10])       # also zero-padded beyond 8 bytes: still a 32-bit value
        while length + k >= 16 ** k:
            k += 1
    return tlf_bytes(tycode, length + k, k)


def list_tlf(rng, n, nonmin=0.12):
    k = 1
    while n >= 16 ** k:
        k += 1
    if STYLE["nonmin"] is not None:
        nonmin = STYLE["nonmin"]
    if rng.random() < nonmin:
        k += rng.choice([1, 1, 2, 2, 1, 2, 3, 7, 8, 10])
    return tlf_bytes(7, n, k)


def rnd_bytes(rng, lo, hi):
    n = lo if STYLE["compact"] else rng.randint(lo, hi)
    return bytes(rng.getrandbits(8) for _ in range(n))


def hxs(b):
    return b.hex() if len(b) else "."


def enc_octet(rng, b):
    return prim_tlf(rng, 0, len(b)) + b


def opt_octet(rng, p_none=0.4, lo=0, hi=12):
    """returns (text, encoding)"""
    if hi == 12 and rng.random() < 0.25:
        hi = rng.choice([16, 30, 40])          # lengths whose TLF needs a second byte (0x81 0x..)
    if absent(rng, p_none):
        return "~", b"\x01"
    b = rnd_bytes(rng, lo, hi)
    if len(b) == 0:
        # Some(empty) needs a non-minimal TLF (0x01 would be None)
        return ".", tlf_bytes(0, 2, 2)
    e = enc_octet(rng, b)
    if e[0] == 0x01:
        e = tlf_bytes(0, len(b) + 2, 2) + b
    return hxs(b), e


def enc_uint(rng, v, kmin, kmax):
    """unsigned value in k bytes, kmin <= k <= kmax, v < 256**k"""
    need = max(1, (v.bit_length() + 7) // 8)
    k = rng.randint(max(kmin, need), kmax)
    return prim_tlf(rng, 6, k) + v.to_bytes(k, "big")


def enc_int(rng, v, kmin, kmax):
    need = 1
    while not (-(1 << (8 * need - 1)) <= v < (1 << (8 * need - 1))):
        need += 1
    k = rng.randint(max(kmin, need), kmax)
    return prim_tlf(rng, 5, k) + (v & ((1 << (8 * k)) - 1)).to_bytes(k, "big")


def rnd_uint(rng, bits):
    r = rng.random()
    if r < 0.2:
        return rng.choice([0, 1, (1 << bits) - 1, 1 << (bits - 1), (1 << (bits - 1)) - 1, 255, 256])  & ((1 << bits) - 1)
    return rng.getrandbits(rng.randint(1, bits))


def rnd_int(rng, bits):
    r = rng.random()
    if r < 0.25:
        return rng.choice([0, -1, 1, -(1 << (bits - 1)), (1 << (bits - 1)) - 1, -128, 127, -129, 128])
    v = rng.getrandbits(rng.randint(1, bits - 1))
    return -v - 1 if rng.random() < 0.5 else v


def sx(v):
    return ("-%x" % -v) if v < 0 else "%x" % v


def gen_time(rng):
    v = rnd_uint(rng, 32)
    if rng.random() < 0.3:
        return "T%x" % v, b"\x65" + v.to_bytes(4, "big")          # vendor workaround
    return "T%x" % v, list_tlf(rng, 2) + enc_uint(rng, 1, 1, 1) + enc_uint(rng, v, 1, 4)


def opt_time(rng, p_none=0.5):
    if absent(rng, p_none):
        return "~", b"\x01"
    return gen_time(rng)


WCLASS = {8: (1, 1), 16: (2, 2), 32: (3, 4), 64: (5, 8)}


def gen_value(rng):
    if STYLE["compact"]:
        v = rng.getrandbits(8)
        return "U8:%x" % v, bytes([0x62, v])
    r = rng.randrange(12)
    if r == 0:
        b = rng.getrandbits(8) if rng.random() < 0.7 else 0
        return "B%d" % (1 if b else 0), bytes([0x42, b])
    if r == 1:
        b = rnd_bytes(rng, 0, 20)
        return "Y" + hxs(b), enc_octet(rng, b)
    if r in (2, 3, 4, 5):
        bits = [8, 16, 32, 64][r - 2]
        kmin, kmax = WCLASS[bits]
        k = rng.randint(kmin, kmax)
        v = rnd_int(rng, 8 * k)
        if not (-(1 << (8 * k - 1)) <= v < (1 << (8 * k - 1))):
            v = 0
        return "I%d:%s" % (bits, sx(v)), prim_tlf(rng, 5, k) + (v & ((1 << (8 * k)) - 1)).to_bytes(k, "big")
    if r in (6, 7, 8, 9):
        bits = [8, 16, 32, 64][r - 6]
        kmin, kmax = WCLASS[bits]
        k = rng.randint(kmin, kmax)
        v = rnd_uint(rng, 8 * k)
        return "U%d:%x" % (bits, v), prim_tlf(rng, 6, k) + v.to_bytes(k, "big")
    if r == 10:
        t, e = gen_time(rng)
        return "L(%s)" % t, list_tlf(rng, 2) + enc_uint(rng, 1, 1, 1) + e
    b = rnd_bytes(rng, 1, 6)
    return "Y" + hxs(b), enc_octet(rng, b)


def gen_status(rng):
    bits = rng.choice([8, 16, 32, 64])
    kmin, kmax = WCLASS[bits]
    k = rng.randint(kmin, kmax)
    v = rnd_uint(rng, 8 * k)
    return "S%d:%x" % (bits, v), prim_tlf(rng, 6, k) + v.to_bytes(k, "big")


def gen_list_entry(rng):
    """returns (text, [chunks])"""
    name = rnd_bytes(rng, 0, 8)
    if absent(rng, 0.5):
        st, ste = "~", b"\x01"
    else:
        st, ste = gen_status(rng)
    vt, vte = opt_time(rng, 0.7)
    if absent(rng, 0.5):
        un, une = "~", b"\x01"
    else:
        u = rng.getrandbits(8)
        un, une = "%x" % u, enc_uint(rng, u, 1, 1)
    if absent(rng, 0.5):
        sc, sce = "~", b"\x01"
    else:
        s = rnd_int(rng, 8)
        s = max(-128, min(127, s))
        sc, sce = sx(s), enc_int(rng, s, 1, 1)
    va, vae = gen_value(rng)
    sg, sge = opt_octet(rng, 0.7)
    text = "(E %s %s %s %s %s %s %s)" % (hxs(name), st, vt, un, sc, va, sg)
    return text, [list_tlf(rng, 7), enc_octet(rng, name), ste, vte, une, sce, vae, sge]


def gen_message(rng, kind=None, nentries=None):
    """returns dict(text, events, chunks) - chunks are the pre-CRC field encodings"""
    tid = rnd_bytes(rng, 0, 6)
    g = rng.getrandbits(8)
    a = rng.getrandbits(8)
    kind = kind or rng.choice(["open", "close", "list", "list"])
    chunks = [list_tlf(rng, 6), enc_octet(rng, tid), enc_uint(rng, g, 1, 1), enc_uint(rng, a, 1, 1), list_tlf(rng, 2)]
    head = "%s %x %x" % (hxs(tid), g, a)
    if kind == "open":
        chunks.append(enc_uint(rng, 0x101, 2, 4))
        cp, cpe = opt_octet(rng, 0.6)
        ci, cie = opt_octet(rng, 0.6)
        rf = rnd_bytes(rng, 0, 8)
        si = rnd_bytes(rng, 0, 10)
        rt, rte = opt_time(rng)
        if absent(rng, 0.6):
            sv, sve = "~", b"\x01"
        else:
            v = rng.getrandbits(8)
            sv, sve = "%x" % v, enc_uint(rng, v, 1, 1)
        chunks += [list_tlf(rng, 6), cpe, cie, enc_octet(rng, rf), enc_octet(rng, si), rte, sve]
        body = "(O %s %s %s %s %s %s)" % (cp, ci, hxs(rf), hxs(si), rt, sv)
        return dict(text="(M %s %s)" % (head, body), events=["(MS %s %s)" % (head, body)], chunks=chunks)
    if kind == "close":
        chunks.append(enc_uint(rng, 0x201, 2, 4))
        sg, sge = opt_octet(rng, 0.6)
        chunks += [list_tlf(rng, 1), sge]
        body = "(C %s)" % sg
        return dict(text="(M %s %s)" % (head, body), events=["(MS %s %s)" % (head, body)], chunks=chunks)
    chunks.append(enc_uint(rng, 0x701, 2, 4))
    ci, cie = opt_octet(rng, 0.6)
    si = rnd_bytes(rng, 0, 10)
    ln, lne = opt_octet(rng, 0.5)
    at, ate = opt_time(rng)
    if nentries is None:
        nentries = rng.choice([0, 1, 2, 3, 5, 14, 15, 16, 17, rng.randint(0, 40)])
    entries = [gen_list_entry(rng) for _ in range(nentries)]
    ls, lse = opt_octet(rng, 0.6)
    gt, gte = opt_time(rng)
    chunks += [list_tlf(rng, 7), cie, enc_octet(rng, si), lne, ate, list_tlf(rng, nentries)]
    for t, ch in entries:
        chunks += ch
    chunks += [lse, gte]
    body = "(G %s %s %s %s [%s] %s %s)" % (ci, hxs(si), ln, at, " ".join(t for t, _ in entries), ls, gt)
    evs = ["(MS %s (GS %s %s %s %s %x))" % (head, ci, hxs(si), ln, at, nentries)] + [t for t, _ in entries] + ["(GE %s %s)" % (ls, gt)]
    return dict(text="(M %s %s)" % (head, body), events=evs, chunks=chunks)


def close_message(rng, chunks, good_crc=True):
    """append the CRC field and the end marker to the pre-CRC chunks"""
    pre = b"".join(chunks)
    c = crc16(pre)
    c = ((c & 0xFF) << 8) | (c >> 8)          # byte-swapped
    if not good_crc:
        r = rng.random()
        if r < 0.15 and c >= 256:
            # the checksum field shortened to one byte although the dropped byte is not zero (low or high byte kept)
            return pre + bytes([0x62, (c & 0xFF) if r < 0.08 else (c >> 8)]) + b"\x00"
        if 0.4 <= r < 0.55:
            k = crc_kermit(pre)                              # a sibling checksum algorithm (byte-swapped like the real one)
            k = ((k & 0xFF) << 8) | (k >> 8)
            if k != c:
                return pre + bytes([0x63]) + k.to_bytes(2, "big") + b"\x00"
        if r < 0.4 and (c & 0xFF) != (c >> 8):
            c = ((c & 0xFF) << 8) | (c >> 8)      # the two checksum bytes exchanged
        else:
            c ^= 1 << rng.randrange(16)
    if c < 256 and rng.random() < 0.5:
        return pre + bytes([0x62, c]) + b"\x00"
    return pre + prim_tlf(rng, 6, 2, nonmin=0.05) + c.to_bytes(2, "big") + b"\x00"


def gen_file(rng, nmsgs=None, style=None):
    """returns (bytes, expected complete text, expected event list, messages).
    style: None = random mix; "compact" = shortest possible encodings (all optionals absent, empty strings,
    one-byte values, minimal TLFs), get-list response last; "bulky" = everything present, every TLF non-minimal"""
    if style is None:
        r = rng.random()
        style = "compact" if r < 0.08 else ("bulky" if r < 0.16 else "random")
    saved = dict(STYLE)
    try:
        if style == "compact":
            STYLE.update(nonmin=0.0, absent=1000.0, compact=True)
        elif style == "bulky":
            STYLE.update(nonmin=1.0, absent=0.0, compact=False)
        nmsgs = nmsgs if nmsgs is not None else rng.choice([0, 1, 1, 2, 3, 3, 4])
        msgs = []
        if style == "compact" and nmsgs >= 1:
            kinds = [None] * (nmsgs - 1) + ["list"]
        elif nmsgs >= 3 and rng.random() < 0.6:
            kinds = ["open"] + ["list"] * (nmsgs - 2) + ["close"]
        else:
            kinds = [None] * nmsgs
        for k in kinds:
            msgs.append(gen_message(rng, k))
        data = b"".join(close_message(rng, m["chunks"]) for m in msgs)
    finally:
        STYLE.clear()
        STYLE.update(saved)
    text = "ok:" + (" ".join(m["text"] for m in msgs) if msgs else ".")
    events = [e for m in msgs for e in m["events"]]
    return data, text, events, msgs


HUGE_TLFS = [bytes.fromhex(x) for x in [
    "ff8f8f8f8f8f8f0f", "ff8f8f8f8f8f8f0e", "f18080808000", "f1808080808000", "f08f8f8f8f8f8f8f0f", "8f8f8f8f8f8f8f0f",
    "818080808080808d", "81808080808080800d", "8f8f0f", "ff0f", "f100", "ef8f8f8f8f8f8f0f", "df0f", "7f", "8002", "8001",
    "e00a", "d00a", "c3", "42", "4f", "10", "20", "30", "00", "81", "f0", "8f80", "8110", "f1808080808080808080808000"]]
# zero-padded TLFs of 256 / 257 / 300 bytes (list of 6, list of 7, octet string of 4, unsigned of 1): 32-bit values in a
# field longer than any 8-bit byte counter; placed FIRST so that the quick tier uses them too
HUGE_TLFS = [tlf_bytes(7, (1 << 29) + 1, 8), tlf_bytes(7, 1 << 30, 8), tlf_bytes(7, (1 << 31) + 2, 8), tlf_bytes(7, 6, 256), tlf_bytes(7, 7, 257), tlf_bytes(0, 4 + 256, 256), tlf_bytes(6, 1 + 300, 300)] + HUGE_TLFS


def mutate_message(rng, m):
    """mutate the pre-CRC chunks of a message; returns (new chunk list, description)"""
    ch = [bytes(c) for c in m["chunks"]]
    kind = rng.randrange(16)
    i = rng.randrange(len(ch))
    if kind == 15:
        # the last field of the body structure left out and the structure's arity reduced accordingly (77 -> 76, ...)
        if len(ch) > 7 and ch[6][:1] in (b"\x76", b"\x77", b"\x71") and len(ch[6]) == 1:
            ch[6] = bytes([ch[6][0] - 1])
            del ch[-1]
        return ch, "drop-last-field"
    if kind == 14:
        # a one-byte unsigned (62 xx: choice tag of a time, group number, unit, ...) re-encoded in 2 / 3 / 4 data bytes:
        # same number, wrong field type
        cand = []
        for j, c in enumerate(ch):
            for pos in range(len(c) - 1):
                if c[pos] == 0x62 and (pos == 0 or c[pos - 1] in (0x72, 0x62)) :
                    cand.append((j, pos))
        if cand:
            j, pos = rng.choice(cand)
            c = ch[j]
            k = rng.choice([2, 3, 4])
            ch[j] = c[:pos] + bytes([0x61 + k]) + bytes(k - 1) + c[pos + 1:pos + 2] + c[pos + 2:]
        return ch, "widen-u8"
    if kind == 12:
        # a Time position filled with a bare unsigned of 1-3 data bytes plus filler so that a parser ignoring the
        # declared length (reading 4 bytes) stays in step: must be rejected
        idx = [j for j, c in enumerate(ch) if c[:1] == b"\x65" and len(c) == 5 or (c[:1] == b"\x72" and len(c) >= 5)]
        j = rng.choice(idx) if idx else i
        k = rng.randint(1, 3)
        ch[j] = bytes([0x61 + k]) + rnd_bytes(rng, 4, 4)
        return ch, "shorttime"
    if kind == 13:
        # announced list length larger/smaller than the entries present (list TLF re-written)
        idx = [j for j, c in enumerate(ch) if c and (c[0] & 0x70) == 0x70 and not (c[0] & 0x80) and j + 1 < len(ch)
               and ch[j + 1][:1] == b"\x77"]
        if idx:
            j = rng.choice(idx)
            n = ch[j][0] & 0xF
            ch[j] = list_tlf(rng, max(0, n + rng.choice([1, 1, 2, 3, 40, -1])), nonmin=0.3)
        return ch, "listcount"
    if kind in (10, 11):
        # re-encode the one-byte TLF at the head of a field in a longer form spelling the same length: a valid
        # alternative encoding for strings, integers and lists, a reserved one for booleans
        idx = [j for j, c in enumerate(ch) if c and c[0] != 0x01 and not (c[0] & 0x80)]
        if idx:
            j = rng.choice(idx)
            b = ch[j]
            ty, v = (b[0] >> 4) & 7, b[0] & 0xF
            k = rng.choice([2, 2, 3, 4])
            if ty == 7:
                ch[j] = tlf_bytes(7, v, k) + b[1:]
            elif v >= 1:
                ch[j] = tlf_bytes(ty, v - 1 + k, k) + b[1:]
        return ch, "retlf"
    if kind == 0:
        b = bytearray(ch[i])
        if b:
            b[rng.randrange(len(b))] ^= 1 << rng.randrange(8)
        ch[i] = bytes(b)
        return ch, "bitflip"
    if kind == 1:
        b = bytearray(ch[i])
        if b:
            b[0] = rng.choice([0x00, 0x01, 0x42, 0x52, 0x62, 0x63, 0x65, 0x69, 0x71, 0x72, 0x76, 0x77, 0x7f, 0x80, 0x81, 0xf1, rng.getrandbits(8)])
        ch[i] = bytes(b)
        return ch, "fieldstart"
    if kind == 2:
        pre = b"".join(ch)
        cut = rng.randrange(len(pre) + 1)
        return [pre[:cut]], "truncate"
    if kind == 3:
        ch.insert(i, bytes([rng.getrandbits(8)]))
        return ch, "insert"
    if kind == 4:
        del ch[i]
        return ch, "delete-field"
    if kind == 5:
        # edit a list-length nibble
        idx = [j for j, c in enumerate(ch) if c and (c[0] & 0x70) == 0x70]
        if idx:
            j = rng.choice(idx)
            b = bytearray(ch[j])
            b[-1] = (b[-1] & 0xF0) | rng.randrange(16)
            ch[j] = bytes(b)
        return ch, "listlen"
    if kind in (6, 7):
        # replace the TLF at the head of a field by one declaring an arbitrary length
        t = rng.choice(HUGE_TLFS)
        if rng.random() < 0.3:
            k = rng.randint(1, 9)
            t = tlf_bytes(rng.choice([0, 5, 6, 7]), rng.getrandbits(4 * k), k)
        b = ch[i]
        # strip the old TLF bytes
        j = 0
        while j < len(b) and b[j] & 0x80:
            j += 1
        ch[i] = t + b[j + 1:]
        return ch, "hugetlf"
    if kind == 8:
        ch[i] = gen_value(rng)[1]
        return ch, "swapfield"
    b = ch[i]
    ch[i] = b + b
    return ch, "dupfield"


def gen_mutant(rng):
    """a corrupted file; returns (bytes, description)"""
    data, text, events, msgs = gen_file(rng, rng.choice([1, 1, 2, 3]))
    if not msgs:
        return bytes([rng.getrandbits(8)]), "junk"
    r = rng.random()
    if r < 0.12:
        d = bytearray(data)
        d[rng.randrange(len(d))] ^= 1 << rng.randrange(8)
        return bytes(d), "raw-bitflip"
    if r < 0.18:
        return data[:rng.randrange(len(data))], "raw-truncate"
    if r < 0.24:
        if rng.random() < 0.4:
            return data + bytes(rng.randint(1, 5)), "raw-extend-zeros"      # fill bytes after the last message
        return data + rnd_bytes(rng, 1, 4), "raw-extend"
    if r < 0.33 and len(msgs) >= 2:
        # 1-3 zero "fill" bytes between two messages
        j = rng.randrange(1, len(msgs))
        out = b"".join(close_message(rng, m["chunks"]) for m in msgs[:j]) + bytes(rng.randint(1, 3)) + \
            b"".join(close_message(rng, m["chunks"]) for m in msgs[j:])
        return out, "zeros-between-messages"
    if r < 0.30:
        # cut exactly at a field boundary (in particular: before the checksum field, after a complete list entry)
        j = rng.randrange(len(msgs))
        out = b"".join(close_message(rng, m["chunks"]) for m in msgs[:j])
        ch = msgs[j]["chunks"]
        cut = rng.choice([len(ch), len(ch), rng.randrange(len(ch) + 1)])
        return out + b"".join(ch[:cut]), "cut-at-field"
    j = rng.randrange(len(msgs))
    ch, desc = mutate_message(rng, msgs[j])
    good = rng.random() < 0.75
    out = b""
    for k, m in enumerate(msgs):
        if k == j:
            out += close_message(rng, ch, good_crc=good)
        else:
            out += close_message(rng, m["chunks"])
    return out, desc + ("+crc" if good else "")
