#!/bin/bash
# usage: confirm_mutant.sh <worktree> <id-lowercase e.g. c07> <outdir>
# Confirms: suite passes with the change (demo moved aside); demo fails with it; demo passes without it.
set -u
WT=$1; ID=$2; OUT=$3
export CARGO_NET_OFFLINE=true
mkdir -p "$OUT"
cd "$WT" || exit 2
git diff -- src > "$OUT/patch.diff"
cp "tests/demo_$ID.rs" "$OUT/demo_$ID.rs"
mv "tests/demo_$ID.rs" /tmp/demo_$ID.rs.aside
cargo test --workspace --no-fail-fast --offline > "$OUT/suite_with_change.log" 2>&1; S1=$?
mv /tmp/demo_$ID.rs.aside "tests/demo_$ID.rs"
cargo test --offline --test "demo_$ID" > "$OUT/demo_with_change.log" 2>&1; D1=$?
git apply -R "$OUT/patch.diff"
cargo test --offline --test "demo_$ID" > "$OUT/demo_without_change.log" 2>&1; D0=$?
git apply "$OUT/patch.diff"
echo "suite_with_change_exit=$S1 demo_with_change_exit=$D1 demo_without_change_exit=$D0"
grep -h "test result" "$OUT/suite_with_change.log" | tr '\n' ' '
echo
