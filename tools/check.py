#!/usr/bin/env python3
"""Orchestrator: tools/check.py <Cxx> [--tier quick|thorough] [--replay file]

Verdict logic (DESIGN.md 2.5): corpus + generated cases; PROOF (compile the property's cone,
audit, Print Assumptions); CORR (model vs implementation, debug and release); ORACLE (the
executable statement of the property on the implementation's own outputs, computed with the
extracted Coq specification).  Exit 0 iff everything held; otherwise a VIOLATION line."""
import argparse, json, os, random, sys, time, traceback

sys.path.insert(0, os.path.dirname(os.path.abspath(__file__)))
import lib
import props


def main():
    ap = argparse.ArgumentParser()
    ap.add_argument("pid")
    ap.add_argument("--tier", default=os.environ.get("VERIF_TIER", "quick"))
    ap.add_argument("--replay", default=None)
    ap.add_argument("--setup", action="store_true")
    args = ap.parse_args()
    if args.pid == "setup":
        return setup()
    pid = args.pid
    tier = args.tier if args.tier in ("quick", "thorough") else "quick"
    seed = int(os.environ.get("VERIF_SEED", "1") or "1")
    t0 = time.time()
    P = props.REGISTRY[pid]()
    rng = random.Random("%s/%d/%s" % (pid, seed, tier))
    ev = dict(property_id=pid, tier=tier, seed=seed, level="proof", violations=0, wall_s=0.0,
              coverage=dict(obligations=0, discharged=0, checker_cmd="", trusted_base=[]),
              assumptions=[])
    violations = []   # (kind, text, replay-content)
    known_lines = []

    # ---- builds -----------------------------------------------------------------------
    try:
        # model side: Base/Model/Spec must compile for extraction
        lib.build_coq([f + "o" for f in props.MODEL_FILES])
        lib.build_driver()
    except lib.BuildError as e:
        print("FRAMEWORK-BUILD-FAILED %s\n%s" % (e.what, e.log[-3000:]))
        violations.append(("framework", "model/extraction does not build: " + e.what, e.log[-3000:]))
    impl_build_fail = None
    try:
        lib.build_harness()
    except lib.BuildError as e:
        impl_build_fail = e
        print("HARNESS-BUILD-FAILED %s\n%s" % (e.what, e.log[-3000:]))
        violations.append(("build", "the harness does not build against /repo: " + e.what, e.log[-3000:]))

    # ---- PROOF --------------------------------------------------------------------------
    audit = lib.audit_property(pid, P.theorems)
    ev["coverage"]["obligations"] = max(audit["obligations"], len(P.theorems), 1)
    ev["coverage"]["discharged"] = audit["discharged"]
    ev["coverage"]["checker_cmd"] = ("make -C coq theories/Properties/%s.vo (coqc 8.16.1, full .vo) && "
                                     "coqc Audit_%s.v (Check <theorem> : <pinned statement>. Print Assumptions.)" % (pid, pid))
    ev["coverage"]["theorems"] = [t[0] for t in P.theorems]
    ev["coverage"]["axioms_reported"] = audit["axioms"]
    ev["coverage"]["qed_closed_lemmas_in_cone"] = audit["lemmas"]
    proof_ok = audit["ok"]
    if tier == "thorough" and proof_ok:
        ck_ok, ck_log = lib.coqchk_property(pid)
        ev["coverage"]["coqchk"] = "coqchk -o -silent: " + ("no axioms, no type-in-type, no unsafe fixpoints, no assumed positivity" if ck_ok else "FAILED")
        ev["coverage"]["checker_cmd"] += " && coqchk -o -silent -Q theories Sml Sml.Properties.%s" % pid
        if not ck_ok:
            proof_ok = False
            audit["failed"].append("coqchk does not accept the compiled cone")
            audit["log"] += "\n" + ck_log
    if not proof_ok:
        print("PROOF-BROKEN %s: %s" % (pid, "; ".join(audit["failed"])))
        print(audit["log"][-1500:])

    # ---- cases ---------------------------------------------------------------------------
    corr_div = []
    oracle_viol = []
    stats = {}
    samples = []
    n_cases = 0
    n_distinct = 0
    if not violations:
        if args.replay:
            cases = props.load_replay(args.replay)
        else:
            cases = P.corpus() + P.cases(tier, rng)
        lines = [c.line for c in cases]
        n_cases = len(lines)
        dbg = lib.run_lines(lib.harness_bin("debug"), lines)
        rel = lib.run_lines(lib.harness_bin("release"), lines)
        mod = lib.run_lines(lib.driver_bin(), [props.model_line(l) for l in lines])
        # CORR
        for i, c in enumerate(cases):
            pm = P.project(c, mod[i])
            for prof, outv in (("debug", dbg[i]), ("release", rel[i])):
                if P.project(c, outv) != pm:
                    corr_div.append(dict(case=c.line, tag=c.tag, profile=prof, model=mod[i][:2000], impl=outv[:2000]))
                    break
        # EXTRACTION CROSS-CHECK: a slice of the cases evaluated by the kernel's vm_compute vs the extracted program
        try:
            xn, xbad = lib.extraction_crosscheck(pid, [props.model_line(l) for l in lines])
        except Exception:
            traceback.print_exc()
            xn, xbad = 0, ["cross-check crashed: " + traceback.format_exc()[-300:]]
        ev["coverage"]["extraction_crosscheck"] = "%d cases: digest by vm_compute == digest by the extracted OCaml model%s" % (
            xn, "" if not xbad else " -- %d MISMATCH" % len(xbad))
        if xbad:
            print("EXTRACTION-CROSSCHECK-FAILED %s: %s" % (pid, xbad[0][:400]))
            violations.append(("framework", "extraction cross-check: " + xbad[0][:300], "\n".join(xbad[:10])))
        # ORACLE (on the implementation's outputs)
        def spec(qs):
            return lib.run_lines(lib.driver_bin(), qs)
        try:
            oracle_viol = P.oracle(cases, dbg, rel, spec)
        except Exception:
            traceback.print_exc()
            oracle_viol = [dict(case="<oracle crashed>", why=traceback.format_exc()[-800:])]
        # statistics
        seen = set()
        for i, c in enumerate(cases):
            stats[c.tag] = stats.get(c.tag, 0) + 1
            if P.nontrivial(c, dbg[i]) and c.line not in seen:
                seen.add(c.line)
        n_distinct = len(seen)
        for c in cases[:3] + cases[-2:]:
            samples.append(c.line[:300])

    # ---- search for a failing input when a proof or the correspondence broke -----------
    # (DESIGN.md 2.5) the oracle found nothing on the regular cases: escalate to the thorough
    # generators with fresh random streams, evaluate the executable statement of the property on
    # the implementation's outputs, and keep the first failing input as the replay.
    searched = 0
    if (not proof_ok or corr_div) and not oracle_viol and not violations and not args.replay:
        t_search = time.time()
        for attempt in range(3):
            if time.time() - t_search > 600:
                break
            rng2 = random.Random("%s/%d/search/%d" % (pid, seed, attempt))
            try:
                cases2 = P.cases("thorough" if tier == "quick" or attempt else "quick", rng2)
                lines2 = [c.line for c in cases2]
                dbg2 = lib.run_lines(lib.harness_bin("debug"), lines2)
                rel2 = lib.run_lines(lib.harness_bin("release"), lines2)
                searched += len(cases2)
                ov = P.oracle(cases2, dbg2, rel2, spec)
            except Exception:
                traceback.print_exc()
                break
            if ov:
                oracle_viol = ov
                break
        print("SEARCH %s: %d further cases evaluated, %s" % (pid, searched, "failing input found" if oracle_viol else "no failing input found"))

    # ---- verdict -------------------------------------------------------------------------
    known = lib.load_known_findings()
    new_viol = []
    for v in oracle_viol:
        hit = None
        for (kp, rx, text) in known:
            if kp == pid and rx.search(v["case"]):
                hit = text
        if hit:
            known_lines.append("KNOWN-FINDING: property=%s %s" % (pid, hit))
        else:
            new_viol.append(v)
    for l in sorted(set(known_lines)):
        print(l)

    exit_code = 0
    if new_viol:
        v = new_viol[0]
        rp = lib.write_replay(pid, "violation_%d.json" % seed,
                              dict(property=pid, kind="oracle", case=v["case"], why=v["why"],
                                   more=[x["case"][:500] for x in new_viol[1:10]]))
        print("ORACLE-FAILED %s: %s" % (pid, v["why"][:600]))
        print("VIOLATION property=%s replay=%s" % (pid, rp))
        exit_code = 1
    elif violations or not proof_ok or corr_div:
        what = []
        if violations:
            what += [v[1] for v in violations]
        if not proof_ok:
            what += ["proof obligation no longer checks: " + "; ".join(audit["failed"])]
        if corr_div:
            what += ["correspondence %s: model and implementation differ on %d case(s); first: %s" %
                     (P.suite_names, len(corr_div), corr_div[0]["case"][:300])]
        rp = lib.write_replay(pid, "broken_%d.json" % seed,
                              dict(property=pid, kind="no-failing-input-found", broken=what,
                                   theorems=[t[0] for t in P.theorems],
                                   first_divergences=corr_div[:5], build_log=[v[2] for v in violations][:1]))
        for w in what:
            print("BROKEN %s: %s" % (pid, w[:600]))
        print("VIOLATION property=%s replay=%s no-failing-input-found" % (pid, rp))
        exit_code = 1

    ev["violations"] = len(new_viol) + (1 if exit_code and not new_viol else 0)
    cov = ev["coverage"]
    cov["evaluations"] = n_cases
    cov["distinct_nontrivial"] = n_distinct
    cov["rule"] = P.rule
    cov["samples"] = samples or ["(no case executed: build failure)"]
    cov["traces_validated_against_impl"] = 2 * n_cases
    cov["correspondence_divergences"] = len(corr_div)
    cov["oracle_failures"] = len(oracle_viol)
    cov["known_findings_hit"] = len(known_lines)
    cov["search_cases_after_break"] = searched
    cov["case_distribution"] = stats
    cov["modelled_source_sha256"] = lib.source_hashes()
    cov["trusted_base"] = props.TRUSTED_BASE + P.extra_trusted
    cov["exhaustive"] = False
    ev["assumptions"] = P.assumptions
    ev["wall_s"] = round(time.time() - t0, 2)
    lib.write_evidence(pid, ev)
    print("%s tier=%s seed=%d cases=%d distinct_nontrivial=%d proof=%s corr_div=%d oracle_fail=%d wall=%.1fs" %
          (pid, tier, seed, n_cases, n_distinct, "ok" if proof_ok else "BROKEN", len(corr_div), len(oracle_viol), ev["wall_s"]))
    return exit_code


def setup():
    try:
        lib.build_coq()
        lib.build_driver()
        lib.build_harness()
    except lib.BuildError as e:
        print("SETUP FAILED: %s\n%s" % (e.what, e.log[-5000:]))
        return 1
    print("setup ok")
    return 0


if __name__ == "__main__":
    sys.exit(main())
