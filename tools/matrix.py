#!/usr/bin/env python3
"""tools/matrix.py [--slots N] [--own] [--seed S] <seeded-dir-names...>
Catch matrix for the seeded changes under /verif/seeded: each change is applied to a scratch clone of /repo
(under /root/scratch/slots/<i>, never to /repo itself), a copy of the harness is built against that clone, and the
correspondence + oracle of the relevant properties are evaluated.  Several slots run in parallel.
Prints one line per change; the scratch directories are removed at the end."""
import os, re, shutil, subprocess, sys

VERIF = os.path.dirname(os.path.dirname(os.path.abspath(__file__)))
SLOTS = "/root/scratch/slots"
PARSER = ["C03", "C04", "C06", "C09", "C10", "C12", "C13"]
TRANSPORT = ["C01", "C02", "C05", "C07", "C08", "C10", "C11", "C14", "C15", "C16", "C17", "C18"]


def worker(slot, seed, own, names):
    sys.path.insert(0, os.path.join(VERIF, "tools"))
    import lib
    from try_mutant import evaluate
    repo = os.path.join(SLOTS, str(slot), "repo")
    for d in names:
        patch = os.path.join(VERIF, os.environ.get("MATRIX_ROOT", "seeded"), d, "patch.diff")
        files = [l[6:] for l in open(patch).read().splitlines() if l.startswith("+++ b/")]
        pids = sorted(set((PARSER if any("parser" in f for f in files) else []) +
                          (TRANSPORT if any("parser" not in f for f in files) else [])))
        ownp = d[:3]
        nf = os.path.join(os.path.dirname(patch), "notes.txt")
        if not re.match(r"C\d\d", ownp) and os.path.exists(nf):
            m = re.search(r"PROPERTY:\s*(C\d\d)", open(nf).read())
            ownp = m.group(1) if m else "?"
        if own:
            pids = [ownp]
        subprocess.check_call(["git", "-C", repo, "apply", patch])
        res = {}
        try:
            try:
                lib.build_harness()
            except lib.BuildError as e:
                print(d, "HARNESS BUILD FAILED", e.what, e.log[-600:], flush=True)
                continue
            for pid in pids:
                try:
                    n, div, bad, cases = evaluate(pid, seed=seed)
                    res[pid] = "ORACLE" if bad else ("CORR" if div else "-")
                except Exception as e:
                    res[pid] = "EXC:" + str(e)[:80]
        finally:
            subprocess.check_call(["git", "-C", repo, "checkout", "--", "."])
        print(d, "seed=%d" % seed, " ".join("%s=%s" % kv for kv in sorted(res.items()) if kv[1] != "-") or "(nothing fired)",
              "| own property (%s):" % ownp, res.get(ownp, "?"), flush=True)


def main():
    args = sys.argv[1:]
    nslots, own, seed, root = 6, False, 1, "seeded"
    while args and args[0].startswith("--"):
        a = args.pop(0)
        if a == "--slots":
            nslots = int(args.pop(0))
        elif a == "--own":
            own = True
        elif a == "--seed":
            seed = int(args.pop(0))
        elif a == "--root":      # "harmless": behaviour/property-preserving rewrites that must NOT fire
            root = args.pop(0)
            os.environ["MATRIX_ROOT"] = root
        elif a == "--worker":
            slot = int(args.pop(0))
            return worker(slot, int(os.environ["MATRIX_SEED"]), os.environ.get("MATRIX_OWN") == "1", args)
    names = args or sorted(x for x in os.listdir(os.path.join(VERIF, root)) if os.path.isdir(os.path.join(VERIF, root, x)))
    nslots = min(nslots, len(names))
    shutil.rmtree(SLOTS, ignore_errors=True)
    procs = []
    for i in range(nslots):
        sd = os.path.join(SLOTS, str(i))
        os.makedirs(sd)
        subprocess.check_call(["git", "clone", "-q", "/repo", os.path.join(sd, "repo")])
        shutil.copytree(os.path.join(VERIF, "harness"), os.path.join(sd, "harness"))
        ct = os.path.join(sd, "harness", "Cargo.toml")
        txt = open(ct).read().replace('path = "/repo"', 'path = "%s"' % os.path.join(sd, "repo"))
        open(ct, "w").write(txt)
        # start from the already built artefacts
        if os.path.isdir(os.path.join(VERIF, "build", "target")):
            shutil.copytree(os.path.join(VERIF, "build", "target"), os.path.join(sd, "target"))
        env = dict(os.environ, VERIF_HARNESS_DIR=os.path.join(sd, "harness"), VERIF_TARGET_DIR=os.path.join(sd, "target"),
                   MATRIX_SEED=str(seed), MATRIX_OWN="1" if own else "0")
        procs.append(subprocess.Popen([sys.executable, os.path.abspath(__file__), "--worker", str(i)] + names[i::nslots], env=env))
    for p in procs:
        p.wait()
    shutil.rmtree(SLOTS, ignore_errors=True)


if __name__ == "__main__":
    main()
