#!/usr/bin/env python3
"""Writes MANIFEST.json from the registry in props.py (claimed) and the list of all 18 properties."""
import json, os, sys
sys.path.insert(0, os.path.dirname(os.path.abspath(__file__)))
import props

VERIF = os.path.dirname(os.path.dirname(os.path.abspath(__file__)))
ALL = [json.loads(l)["id"] for l in open(os.path.join(VERIF, "properties.jsonl"))]

checks = []
for pid in ALL:
    if pid not in props.REGISTRY:
        continue
    P = props.REGISTRY[pid]
    checks.append(dict(
        property_id=pid,
        quick_cmd="python3 tools/check.py %s --tier quick" % pid,
        thorough_cmd="python3 tools/check.py %s --tier thorough" % pid,
        evidence_file="/verif/evidence/%s.json" % pid,
        replay_cmd_template="python3 tools/check.py %s --replay {path}" % pid,
        engine="coq-proof+correspondence",
        level_claimed=dict(category="proof", text=P.level_text, design_ref="DESIGN.md section 5, " + pid),
        level_note=P.level_note,
        technique="machine-checked proof in Coq 8.16.1 (theorems %s) about a hand-written Gallina model, tied to the code by a differential correspondence check (extracted OCaml model vs the real crate)" % ", ".join(t[0] for t in P.theorems),
    ))
na = [dict(property_id=pid, reason=props.NOT_CLAIMED.get(pid, "no check in this revision")) for pid in ALL if pid not in props.REGISTRY]
m = dict(
    version=1,
    setup_cmd="python3 tools/check.py setup",
    hooks=dict(guard="sml_rs_verif", enable="no hooks are needed: the harness uses only the public API of the crate (cargo path dependency on /repo)",
               baseline_off_cmd="cd /repo && cargo test --workspace --no-fail-fast --offline",
               source_commits=[], add_only=True),
    engines=[dict(name="coq-proof+correspondence", path="/verif/tools/check.py", serves_properties=[c["property_id"] for c in checks],
                  kind_free_text="Coq 8.16.1 development under coq/ (model, specifications, proofs); extraction to OCaml + ocaml/driver.ml; Rust harness harness/; orchestrated by tools/check.py")],
    checks=checks,
    not_applicable=na,
    notes="See DESIGN.md. known_findings.txt lists the six repaired defects (fixed: entries suppress nothing).",
)
json.dump(m, open(os.path.join(VERIF, "MANIFEST.json"), "w"), indent=1)
print("claimed:", [c["property_id"] for c in checks])
