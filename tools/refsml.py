"""Independent reference reading of the SML grammar subset (plus the documented vendor workaround for
Time), on unbounded Python integers.  Used only as an L3 oracle: it renders the same canonical text
as the harness.  Written from the SML specification / the property texts, not from the Rust code:
the recursive structure is a generic TLV tree walk followed by typed interpretation."""


class Bad(Exception):
    pass


def read_tlf(b, i):
    """-> (type, length, next index); raises Bad when the TLF is not well-formed for C12"""
    if i >= len(b):
        raise Bad("eof")
    first = b[i]
    ty = (first >> 4) & 7
    if ty not in (0, 4, 5, 6, 7):
        raise Bad("reserved type")
    V = first & 0xF
    k = 1
    more = first & 0x80
    if more and ty == 4:
        raise Bad("reserved")
    while more:
        i += 1
        if i >= len(b):
            raise Bad("eof")
        x = b[i]
        if (x >> 4) & 7:
            raise Bad("type bits in continuation")
        V = V * 16 + (x & 0xF)
        k += 1
        more = x & 0x80
    if V >= 1 << 32:
        raise Bad("does not fit 32 bits")
    if ty == 7:
        return ty, V, i + 1
    if V < k:
        raise Bad("negative")
    return ty, V - k, i + 1


def tree(b, i):
    """generic TLV walk: -> (node, next); node = ('opt',) | (ty, bytes) | (7, [children])"""
    raise NotImplementedError


class R:
    """typed interpretation with a cursor"""

    def __init__(self, b):
        self.b = b
        self.i = 0

    def take(self, n):
        if self.i + n > len(self.b):
            raise Bad("eof")
        x = self.b[self.i:self.i + n]
        self.i += n
        return x

    def tlf(self):
        ty, ln, j = read_tlf(self.b, self.i)
        self.i = j
        return ty, ln

    def is_none(self):
        if self.i < len(self.b) and self.b[self.i] == 0x01:
            self.i += 1
            return True
        return False

    def octet(self):
        ty, ln = self.tlf()
        if ty != 0:
            raise Bad("type")
        return self.take(ln)

    def uint(self, maxw):
        ty, ln = self.tlf()
        if ty != 6 or not (1 <= ln <= maxw):
            raise Bad("type")
        return int.from_bytes(self.take(ln), "big")

    def sint(self, maxw):
        ty, ln = self.tlf()
        if ty != 5 or not (1 <= ln <= maxw):
            raise Bad("type")
        return int.from_bytes(self.take(ln), "big", signed=True)

    def list_of(self, n):
        ty, ln = self.tlf()
        if ty != 7 or ln != n:
            raise Bad("arity")

    def time(self):
        ty, ln = self.tlf()
        if ty == 6 and ln == 4:                      # vendor workaround: bare u32
            return "T%x" % int.from_bytes(self.take(4), "big")
        if ty != 7 or ln != 2:
            raise Bad("type")
        if self.uint(1) != 1:
            raise Bad("variant")
        return "T%x" % self.uint(4)

    def opt(self, f):
        if self.is_none():
            return "~"
        return f()


def hxs(b):
    return bytes(b).hex() if len(b) else "."


def sx(v):
    return ("-%x" % -v) if v < 0 else "%x" % v


def wclass(ln):
    return 8 if ln == 1 else 16 if ln == 2 else 32 if ln <= 4 else 64


def value(r):
    ty, ln = r.tlf()
    if ty == 4:
        if ln != 1:
            raise Bad("bool len")
        return "B%d" % (1 if r.take(1)[0] else 0)
    if ty == 0:
        return "Y" + hxs(r.take(ln))
    if ty in (5, 6):
        if not 1 <= ln <= 8:
            raise Bad("int len")
        v = int.from_bytes(r.take(ln), "big", signed=(ty == 5))
        return ("I%d:%s" % (wclass(ln), sx(v))) if ty == 5 else ("U%d:%x" % (wclass(ln), v))
    if ln != 2:
        raise Bad("list value")
    if r.uint(1) != 1:
        raise Bad("variant")
    return "L(%s)" % r.time()


def status(r):
    ty, ln = r.tlf()
    if ty != 6 or not 1 <= ln <= 8:
        raise Bad("status")
    return "S%d:%x" % (wclass(ln), int.from_bytes(r.take(ln), "big"))


def list_entry(r):
    r.list_of(7)
    name = hxs(r.octet())
    st = r.opt(lambda: status(r))
    vt = r.opt(r.time)
    un = r.opt(lambda: "%x" % r.uint(1))
    sc = r.opt(lambda: sx(r.sint(1)))
    va = value(r)
    sg = r.opt(lambda: hxs(r.octet()))
    return "(E %s %s %s %s %s %s %s)" % (name, st, vt, un, sc, va, sg)


def crc16(data):
    c = 0xFFFF
    for x in data:
        c ^= x
        for _ in range(8):
            c = (c >> 1) ^ 0x8408 if c & 1 else c >> 1
    return c ^ 0xFFFF


def message(r):
    """-> (message text, event texts)"""
    start = r.i
    r.list_of(6)
    tid = hxs(r.octet())
    g = r.uint(1)
    a = r.uint(1)
    head = "%s %x %x" % (tid, g, a)
    r.list_of(2)
    tag = r.uint(4)
    if tag == 0x101:
        r.list_of(6)
        f = [r.opt(lambda: hxs(r.octet())), r.opt(lambda: hxs(r.octet())), hxs(r.octet()), hxs(r.octet()), r.opt(r.time),
             r.opt(lambda: "%x" % r.uint(1))]
        body = "(O %s)" % " ".join(f)
        evs = ["(MS %s %s)" % (head, body)]
    elif tag == 0x201:
        r.list_of(1)
        body = "(C %s)" % r.opt(lambda: hxs(r.octet()))
        evs = ["(MS %s %s)" % (head, body)]
    elif tag == 0x701:
        r.list_of(7)
        ci = r.opt(lambda: hxs(r.octet()))
        si = hxs(r.octet())
        ln = r.opt(lambda: hxs(r.octet()))
        at = r.opt(r.time)
        ty, n = r.tlf()
        if ty != 7:
            raise Bad("val_list")
        if n > len(r.b):
            raise Bad("eof")          # more entries declared than bytes remain
        es = [list_entry(r) for _ in range(n)]
        ls = r.opt(lambda: hxs(r.octet()))
        gt = r.opt(r.time)
        body = "(G %s %s %s %s [%s] %s %s)" % (ci, si, ln, at, " ".join(es), ls, gt)
        evs = ["(MS %s (GS %s %s %s %s %x))" % (head, ci, si, ln, at, n)] + es + ["(GE %s %s)" % (ls, gt)]
    else:
        raise Bad("variant")
    end = r.i
    crc = r.uint(2)
    if r.take(1)[0] != 0:
        raise Bad("end marker")
    c = crc16(r.b[start:end])
    if crc != ((c & 0xFF) << 8 | (c >> 8)):
        raise Bad("crc")
    return "(M %s %s)" % (head, body), evs


def parse_file(b):
    """-> ('ok', text, events) or ('err', reason)"""
    r = R(bytes(b))
    msgs, evs = [], []
    try:
        while r.i < len(r.b):
            m, e = message(r)
            msgs.append(m)
            evs += e
    except Bad as e:
        return ("err", str(e))
    return ("ok", "ok:" + (" ".join(msgs) if msgs else "."), evs)
